//! C38 — AFC unidirectional channel keys agree only for matching parameters; a device never
//! derives both ends of one channel.
//!
//! REAL code driven (default cipher suite / default engine): `UniSecrets::new`,
//! `UniSealKey::from_author_secret`, `UniOpenKey::from_peer_encap` (and the two "other end"
//! constructors the types also offer), `SealKey::seal` / `OpenKey::open`, and
//! `aranya_afc_util::Handler::uni_channel_created` / `uni_channel_received` over a real `MemStore`.
//!
//! Tie of `Model.FramingAfc`: the harness frames the 140-byte `Info` like the Lean model and
//! confirms it at primitive level: the raw spideroak `Hpke::setup_recv` (auth mode) with the peer's
//! raw decapsulation key (recovered through the engine), the author's raw public key and
//! `info = framed record ‖ encoded OIDs` must yield exactly the raw key the real code derives.
//!
//! Tie of `Spec.SymAfc` + S-level oracle: every derivation (honest and with each channel parameter,
//! key, encapsulation or root secret changed, single- and multi-point) is sent to the symbolic
//! model, which must put the derived keys in the same equality classes; the oracle, written here,
//! demands: the peer's key equals the author's key — and really opens the author's message with the
//! real `SealKey`/`OpenKey` — iff nothing was changed; `seal_id == open_id` is refused; a device
//! that processes `UniChannelCreated` and `UniChannelReceived` effects never ends up with a seal
//! key and an open key that work together.

#[path = "../cry.rs"]
mod cry;

use aranya_afc_util::{Error as HErr, Handler, UniChannelCreated, UniChannelReceived, UniKey};
use aranya_crypto::{
    afc::{AuthData, OpenKey, RawOpenKey, RawSealKey, SealKey, Seq, UniAuthorSecret, UniChannel, UniOpenKey, UniPeerEncap, UniSealKey, UniSecrets},
    dangerous::spideroak_crypto::{
        hpke::{Hpke, Mode},
        import::Import as _,
        kem::Kem,
        rust::{Aes256Gcm, HkdfSha512},
    },
    keystore::memstore::MemStore,
    policy::{CmdId, LabelId},
    BaseId, CipherSuite, DeviceId, EncryptionKey, Identified as _, KeyStoreExt as _,
};
use cry::{encoded_oids, flip, pre_answer_ok, raw_secret, suite_line, suite_oids, Eng, SeedRng, CS};
use vh::{fnv, hex, Args, Recorder, Rng};

type K = <CS as CipherSuite>::Kem;
type H = Hpke<K, HkdfSha512, Aes256Gcm>;

fn tokb(b: &[u8]) -> String {
    format!("b{}", hex(b))
}

#[derive(Clone, Copy, PartialEq, Eq, Debug)]
struct Params {
    parent: [u8; 32],
    seal: [u8; 32],
    open: [u8; 32],
    label: [u8; 32],
}
impl Params {
    fn toks(&self) -> String {
        format!("{} {} {} {}", tokb(&self.parent), tokb(&self.seal), tokb(&self.open), tokb(&self.label))
    }
    fn hexes(&self) -> String {
        format!("{} {} {} {}", hex(&self.parent), hex(&self.seal), hex(&self.open), hex(&self.label))
    }
    fn info(&self) -> Vec<u8> {
        let mut v = b"AfcUniKey-v1".to_vec();
        v.extend_from_slice(&self.parent);
        v.extend_from_slice(&self.seal);
        v.extend_from_slice(&self.open);
        v.extend_from_slice(&self.label);
        v
    }
}

struct Dev {
    sk: EncryptionKey<CS>,
    /// symbolic index of the secret
    idx: usize,
    sk_raw: Vec<u8>,
    pk_raw: Vec<u8>,
    pk_postcard: Vec<u8>,
}

/// one `UniSecrets::new`
struct Chan {
    author: usize,
    peer: usize,
    p: Params,
    secret: UniAuthorSecret<CS>,
    enc: Vec<u8>,
}

struct World {
    devs: Vec<Dev>,
    chans: Vec<Chan>,
    /// every derived raw key (key ‖ base nonce), in derivation order
    keys: Vec<Vec<u8>>,
    /// (description of what was derived) per key, for the oracle
    eng: Eng,
}

impl World {
    fn enc_tok(&self, enc: &[u8]) -> String {
        if let Some(j) = self.chans.iter().position(|c| c.enc == enc) {
            return format!("E{j}");
        }
        // an encapsulation is a public key: a device's public key is a valid (if useless) one
        match self.devs.iter().position(|d| d.pk_raw == enc) {
            Some(i) => format!("k{}", self.devs[i].idx),
            None => tokb(enc),
        }
    }
    /// register a derived key, answer its equality class
    fn class(&mut self, k: Vec<u8>) -> (usize, String) {
        let n = self.keys.iter().position(|x| *x == k).unwrap_or(self.keys.len());
        self.keys.push(k);
        (self.keys.len() - 1, format!("K{n}"))
    }
    fn channel<'a>(&'a self, our: usize, their_pk: &'a aranya_crypto::EncryptionPublicKey<CS>, p: &Params) -> UniChannel<'a, CS> {
        UniChannel {
            parent_cmd_id: CmdId::from_bytes(p.parent),
            our_sk: &self.devs[our].sk,
            their_pk,
            seal_id: DeviceId::from_bytes(p.seal),
            open_id: DeviceId::from_bytes(p.open),
            label_id: LabelId::from_bytes(p.label),
        }
    }
}

fn raw_bytes(key: &[u8], nonce: &[u8]) -> Vec<u8> {
    let mut v = key.to_vec();
    v.extend_from_slice(nonce);
    v
}

/// `UniSealKey::from_author_secret` on the real code + model request; returns derivation index
fn akey(rec: &mut Recorder, w: &mut World, kind: &str, a: usize, j: usize, peer: usize, p: &Params) -> Option<usize> {
    rec.count(&format!("akey:{kind}"));
    let req = format!("akey {} {j} k{} {}", w.devs[a].idx, w.devs[peer].idx, p.toks());
    let pk = w.devs[peer].sk.public().expect("pk");
    let ch = w.channel(a, &pk, p);
    let r = UniSealKey::from_author_secret(&ch, w.chans[j].secret.clone()).ok().map(|k| k.into_raw_key());
    // the type also lets the author build the OPEN key from its secret: it must be the same raw key
    let r2 = UniOpenKey::from_author_secret(&ch, w.chans[j].secret.clone()).ok().map(|k| k.into_raw_key());
    match (&r, &r2) {
        (Some(x), Some(y)) if raw_bytes(x.key.as_bytes(), &x.base_nonce) == raw_bytes(y.key.as_bytes(), &y.base_nonce) => {}
        (None, None) => {}
        _ => rec.oracle_fail(format!("UniSealKey/UniOpenKey::from_author_secret disagree: `{req}`")),
    }
    match r {
        Some(k) => {
            let (i, c) = w.class(raw_bytes(k.key.as_bytes(), &k.base_nonce));
            rec.line(req, c);
            Some(i)
        }
        None => {
            rec.line(req, "fail");
            None
        }
    }
}

/// `UniOpenKey::from_peer_encap` on the real code + model request
fn pkey(rec: &mut Recorder, w: &mut World, kind: &str, peer: usize, author: usize, enc: &[u8], p: &Params) -> Option<usize> {
    rec.count(&format!("pkey:{kind}"));
    let req = format!("pkey {} k{} {} {}", w.devs[peer].idx, w.devs[author].idx, w.enc_tok(enc), p.toks());
    let pk = w.devs[author].sk.public().expect("pk");
    let ch = w.channel(peer, &pk, p);
    let r = UniPeerEncap::<CS>::from_bytes(enc).ok().and_then(|e| UniOpenKey::from_peer_encap(&ch, e).ok()).map(|k| k.into_raw_key());
    match r {
        Some(k) => {
            let (i, c) = w.class(raw_bytes(k.key.as_bytes(), &k.base_nonce));
            rec.line(req, c);
            Some(i)
        }
        None => {
            rec.line(req, "fail");
            None
        }
    }
}

/// do the two derived keys work together on the real `SealKey` / `OpenKey`?
fn works(rec: &mut Recorder, w: &World, n: usize, m: usize, label: &[u8; 32], rng: &mut Rng) -> bool {
    rec.count("works");
    let (ks, kr) = (&w.keys[n], &w.keys[m]);
    let mk = |b: &[u8]| -> (RawSealKey<CS>, RawOpenKey<CS>) {
        let key = aranya_crypto::dangerous::spideroak_crypto::aead::KeyData::<Aes256Gcm>::new(
            aranya_crypto::hybrid_array::Array::try_from(&b[..32]).expect("key"),
        );
        let nonce = aranya_crypto::dangerous::spideroak_crypto::aead::Nonce::try_from(&b[32..]).expect("nonce");
        (RawSealKey { key: key.clone(), base_nonce: nonce.clone() }, RawOpenKey { key, base_nonce: nonce })
    };
    let (sraw, _) = mk(ks);
    let (_, oraw) = mk(kr);
    let mut seal = SealKey::<CS>::from_raw(&sraw, Seq::ZERO).expect("SealKey");
    let open = OpenKey::<CS>::from_raw(&oraw).expect("OpenKey");
    let ad = AuthData { version: 1, label_id: LabelId::from_bytes(*label) };
    let ptl = rng.below(64) as usize;
    let pt = rng.bytes(ptl);
    let mut ct = vec![0u8; pt.len() + SealKey::<CS>::OVERHEAD];
    let seq = seal.seal(&mut ct, &pt, &ad).expect("seal");
    let mut out = vec![0u8; pt.len()];
    let ok = open.open(&mut out, &ct, &ad, seq).is_ok() && out == pt;
    rec.line(format!("works {n} {m}"), if ok { "1" } else { "0" });
    if ok != (ks == kr) {
        rec.oracle_fail(format!("SealKey/OpenKey built from raw keys #{n}/#{m}: open {} although the raw keys are {}", if ok { "succeeded" } else { "failed" }, if ks == kr { "equal" } else { "different" }));
    }
    ok
}

fn run_case(rec: &mut Recorder, cseed: u64, big: bool) {
    let mut rng = Rng::new(cseed);
    let krng = SeedRng::new(rng.next_u64());
    rec.begin_case();
    rec.line(format!("case {cseed} {}", big as u8), "ok");
    rec.line(suite_line(), "ok");
    let (eng, ekey) = Eng::from_entropy(SeedRng::new(rng.next_u64()));
    let kem_oid = suite_oids()[3].clone();
    let devs: Vec<Dev> = (0..3)
        .map(|i| {
            let sk = EncryptionKey::<CS>::new(&krng);
            let sk_raw = raw_secret(&eng, &ekey, sk.clone(), &kem_oid);
            let pk_postcard = postcard::to_allocvec(&sk.public().expect("pk")).expect("pk bytes");
            let pk_raw = pk_postcard[pk_postcard.len() - 65..].to_vec();
            Dev { sk, idx: i, sk_raw, pk_raw, pk_postcard }
        })
        .collect();
    let mut w = World { devs, chans: vec![], keys: vec![], eng };
    let rid = |rng: &mut Rng| { let mut x = [0u8; 32]; x.copy_from_slice(&rng.bytes(32)); x };
    // device ids of the three devices
    let dev_ids: Vec<[u8; 32]> = (0..3).map(|_| rid(&mut rng)).collect();
    let mut fpr = String::new();

    let nch = if big { rng.range(1, 3) } else { rng.range(1, 2) } as usize;
    for _ in 0..nch {
        let a = rng.below(3) as usize;
        let pr = (a + 1 + rng.below(2) as usize) % 3;
        let third = 3 - a - pr;
        let p = Params { parent: if rng.chance(1, 6) { [0u8; 32] } else { rid(&mut rng) }, seal: dev_ids[a], open: dev_ids[pr], label: rid(&mut rng) };
        fpr.push_str(&format!("{a}>{pr};"));
        // ---------------------------------------------------------- UniSecrets::new
        rec.count("author");
        let peer_pk = w.devs[pr].sk.public().expect("pk");
        let secrets = {
            let ch = w.channel(a, &peer_pk, &p);
            UniSecrets::new(&w.eng, &ch)
        };
        let req = format!("author {} k{} {}", w.devs[a].idx, w.devs[pr].idx, p.toks());
        let Ok(secrets) = secrets else {
            rec.line(req.clone(), "fail");
            rec.oracle_fail(format!("UniSecrets::new failed on an honest channel: `{req}`"));
            return;
        };
        let j = w.chans.len();
        rec.line(req, format!("ok {j}"));
        let enc = secrets.peer.as_bytes().to_vec();
        w.chans.push(Chan { author: a, peer: pr, p, secret: secrets.author, enc: enc.clone() });
        // same device on both ends is refused (author side, all three entry points)
        {
            rec.count("same-device");
            let q = Params { open: p.seal, ..p };
            let ch = w.channel(a, &peer_pk, &q);
            let r = UniSecrets::new(&w.eng, &ch).is_ok();
            rec.line(format!("author {} k{} {}", w.devs[a].idx, w.devs[pr].idx, q.toks()), if r { format!("ok {}", w.chans.len()) } else { "fail".into() });
            if r { rec.oracle_fail("UniSecrets::new accepted seal_id == open_id"); return; }
            if akey(rec, &mut w, "same-device", a, j, pr, &q).is_some() { rec.oracle_fail("from_author_secret accepted seal_id == open_id"); }
            if pkey(rec, &mut w, "same-device", pr, a, &enc, &q).is_some() { rec.oracle_fail("from_peer_encap accepted seal_id == open_id"); }
        }
        // ---------------------------------------------------------- honest derivations
        let Some(ks) = akey(rec, &mut w, "honest", a, j, pr, &p) else { rec.oracle_fail("honest from_author_secret failed"); return; };
        let Some(kr) = pkey(rec, &mut w, "honest", pr, a, &enc, &p) else { rec.oracle_fail("honest from_peer_encap failed"); return; };
        if w.keys[ks] != w.keys[kr] {
            rec.oracle_fail("honest author and peer derived different keys");
        }
        if !works(rec, &w, ks, kr, &p.label, &mut rng) {
            rec.oracle_fail("the peer cannot open the author's message on an honest channel");
        }
        // ---- framing tie: raw HPKE with the model-framed info reproduces the real raw key
        {
            let info = p.info();
            let mut full = info.clone();
            full.extend(encoded_oids());
            let prim = (|| {
                let sk = <K as Kem>::DecapKey::import(&w.devs[pr].sk_raw[..]).ok()?;
                let encap = <K as Kem>::Encap::import(&enc[..]).ok()?;
                let pks = <K as Kem>::EncapKey::import(&w.devs[a].pk_raw[..]).ok()?;
                let ctx = H::setup_recv(Mode::Auth(&pks), &encap, &sk, [&full[..]]).ok()?;
                let (k, n) = ctx.into_raw_parts()?;
                Some(raw_bytes(k.as_bytes(), &n))
            })();
            let ok = prim.as_ref() == Some(&w.keys[kr]);
            let why = "the raw HPKE primitive with info = model-framed Info ‖ OIDs does not reproduce the real UniOpenKey";
            rec.line(format!("info {}", p.hexes()), pre_answer_ok(&info, ok, why));
            rec.line(format!("hinfo {}", p.hexes()), pre_answer_ok(&full, ok, why));
        }
        // ---------------------------------------------------------- single- and multi-parameter changes
        // (kind, peer-side params / keys / enc) -> the peer's key must differ from the author's and not open its message
        let mut alts: Vec<(&'static str, usize, usize, Vec<u8>, Params)> = vec![];
        let fl = |rng: &mut Rng, x: &[u8; 32]| { let mut y = *x; y[rng.below(32) as usize] ^= 1 << rng.below(8); y };
        alts.push(("parent-flip", pr, a, enc.clone(), Params { parent: fl(&mut rng, &p.parent), ..p }));
        alts.push(("parent-other", pr, a, enc.clone(), Params { parent: rid(&mut rng), ..p }));
        alts.push(("label-flip", pr, a, enc.clone(), Params { label: fl(&mut rng, &p.label), ..p }));
        alts.push(("label-other", pr, a, enc.clone(), Params { label: rid(&mut rng), ..p }));
        alts.push(("seal-id-flip", pr, a, enc.clone(), Params { seal: fl(&mut rng, &p.seal), ..p }));
        alts.push(("seal-id-third-device", pr, a, enc.clone(), Params { seal: dev_ids[third], ..p }));
        alts.push(("open-id-flip", pr, a, enc.clone(), Params { open: fl(&mut rng, &p.open), ..p }));
        alts.push(("open-id-third-device", pr, a, enc.clone(), Params { open: dev_ids[third], ..p }));
        alts.push(("seal-open-swapped", pr, a, enc.clone(), Params { seal: p.open, open: p.seal, ..p }));
        alts.push(("parent-label-swapped", pr, a, enc.clone(), Params { parent: p.label, label: p.parent, ..p }));
        { // boundary shift: rotate the 128 id bytes by one
            let mut all: Vec<u8> = [p.parent, p.seal, p.open, p.label].concat(); all.rotate_left(1);
            let g = |i: usize| { let mut x = [0u8; 32]; x.copy_from_slice(&all[32 * i..32 * i + 32]); x };
            alts.push(("ids-rotated", pr, a, enc.clone(), Params { parent: g(0), seal: g(1), open: g(2), label: g(3) }));
        }
        alts.push(("wrong-author-key", pr, third, enc.clone(), p));
        alts.push(("author-key-is-own", pr, pr, enc.clone(), p));
        alts.push(("wrong-peer-key", third, a, enc.clone(), p));
        alts.push(("enc-flip", pr, a, flip(&enc, 1 + rng.below(64) as usize, rng.below(8) as u8), p));
        alts.push(("enc-is-author-pk", pr, a, w.devs[a].pk_raw.clone(), p));
        alts.push(("enc-is-peer-pk", pr, a, w.devs[pr].pk_raw.clone(), p));
        if j > 0 { alts.push(("enc-of-other-channel", pr, a, w.chans[j - 1].enc.clone(), p)); }
        alts.push(("enc-truncated", pr, a, enc[..enc.len() - 1].to_vec(), p));
        alts.push(("multi-parent+label", pr, a, enc.clone(), Params { parent: fl(&mut rng, &p.parent), label: fl(&mut rng, &p.label), ..p }));
        alts.push(("multi-swap+author", pr, third, enc.clone(), Params { seal: p.open, open: p.seal, ..p }));
        for (kind, pe, au, e, q) in &alts {
            if *pe == pr && *au == a && *e == enc && *q == p { continue; }
            if let Some(k2) = pkey(rec, &mut w, kind, *pe, *au, e, q) {
                if w.keys[k2] == w.keys[ks] {
                    rec.oracle_fail(format!("[{kind}] the peer derived the author's key although a channel parameter differs"));
                }
                if works(rec, &w, ks, k2, &p.label, &mut rng) {
                    rec.oracle_fail(format!("[{kind}] a peer key derived with a changed parameter opens the author's message"));
                }
            }
        }
        // author-side changes (the author derives its seal key with a changed parameter / another secret)
        let mut aalts: Vec<(&'static str, usize, usize, usize, Params)> = vec![];
        aalts.push(("a-parent-flip", a, j, pr, Params { parent: fl(&mut rng, &p.parent), ..p }));
        aalts.push(("a-label-flip", a, j, pr, Params { label: fl(&mut rng, &p.label), ..p }));
        aalts.push(("a-seal-open-swapped", a, j, pr, Params { seal: p.open, open: p.seal, ..p }));
        aalts.push(("a-open-id-third", a, j, pr, Params { open: dev_ids[third], ..p }));
        aalts.push(("a-wrong-peer-pk", a, j, third, p));
        aalts.push(("a-other-author-key", third, j, pr, p));
        if j > 0 { aalts.push(("a-secret-of-other-channel", a, j - 1, pr, p)); }
        for (kind, au, jj, pe, q) in &aalts {
            if let Some(k2) = akey(rec, &mut w, kind, *au, *jj, *pe, q) {
                if w.keys[k2] == w.keys[kr] {
                    rec.oracle_fail(format!("[{kind}] the author derived the peer's key although a channel parameter differs"));
                }
                if works(rec, &w, k2, kr, &p.label, &mut rng) {
                    rec.oracle_fail(format!("[{kind}] the honest peer key opens a message sealed under a key derived with a changed parameter"));
                }
            }
        }

        // ---------------------------------------------------------- handler: role checks, never both ends
        let mk_store = |w: &World, dev: usize, secret: Option<&UniAuthorSecret<CS>>| -> (MemStore, Option<BaseId>) {
            let mut st = MemStore::new();
            st.insert_key(&w.eng, w.devs[dev].sk.clone()).expect("insert enc key");
            let kid = secret.map(|s| *st.insert_key(&w.eng, s.clone()).expect("insert secret").as_ref());
            (st, kid)
        };
        let created = |rec: &mut Recorder, w: &mut World, kind: &str, dev: usize, dev_id: [u8; 32], jj: usize, open_id: [u8; 32], peer: usize, parent: [u8; 32], label: [u8; 32]| -> Option<usize> {
            rec.count(&format!("created:{kind}"));
            let (st, kid) = mk_store(w, dev, Some(&w.chans[jj].secret));
            let mut h = Handler::new(DeviceId::from_bytes(dev_id), st);
            let eff = UniChannelCreated {
                parent_cmd_id: CmdId::from_bytes(parent),
                open_id: DeviceId::from_bytes(open_id),
                author_enc_key_id: w.devs[dev].sk.id().expect("id"),
                peer_enc_pk: &w.devs[peer].pk_postcard,
                label_id: LabelId::from_bytes(label),
                key_id: kid.unwrap().into(),
            };
            let req = format!("created {} {} {jj} {} k{} {} {}", tokb(&dev_id), w.devs[dev].idx, tokb(&open_id), w.devs[peer].idx, tokb(&parent), tokb(&label));
            match h.uni_channel_created::<_, RawSealKey<CS>, RawOpenKey<CS>>(&w.eng, &eff) {
                Ok(UniKey::SealOnly(k)) => {
                    let (i, c) = w.class(raw_bytes(k.key.as_bytes(), &k.base_nonce));
                    rec.line(req, format!("seal {c}"));
                    Some(i)
                }
                Ok(UniKey::OpenOnly(_)) => {
                    rec.line(req.clone(), "open ?");
                    rec.oracle_fail(format!("uni_channel_created returned an OPEN key: `{req}`"));
                    None
                }
                Err(HErr::AuthorMustBeSealer) => { rec.line(req, "sealer"); None }
                Err(_) => { rec.line(req, "fail"); None }
            }
        };
        let received = |rec: &mut Recorder, w: &mut World, kind: &str, dev: usize, dev_id: [u8; 32], seal_id: [u8; 32], author: usize, e: &[u8], parent: [u8; 32], label: [u8; 32]| -> Option<usize> {
            rec.count(&format!("received:{kind}"));
            let (st, _) = mk_store(w, dev, None);
            let mut h = Handler::new(DeviceId::from_bytes(dev_id), st);
            let eff = UniChannelReceived {
                parent_cmd_id: CmdId::from_bytes(parent),
                seal_id: DeviceId::from_bytes(seal_id),
                author_enc_pk: &w.devs[author].pk_postcard,
                peer_enc_key_id: w.devs[dev].sk.id().expect("id"),
                label_id: LabelId::from_bytes(label),
                encap: e,
            };
            let req = format!("received {} {} {} k{} {} {} {}", tokb(&dev_id), w.devs[dev].idx, tokb(&seal_id), w.devs[author].idx, w.enc_tok(e), tokb(&parent), tokb(&label));
            match h.uni_channel_received::<_, RawSealKey<CS>, RawOpenKey<CS>>(&w.eng, &eff) {
                Ok(UniKey::OpenOnly(k)) => {
                    let (i, c) = w.class(raw_bytes(k.key.as_bytes(), &k.base_nonce));
                    rec.line(req, format!("open {c}"));
                    Some(i)
                }
                Ok(UniKey::SealOnly(_)) => {
                    rec.line(req.clone(), "seal ?");
                    rec.oracle_fail(format!("uni_channel_received returned a SEAL key: `{req}`"));
                    None
                }
                Err(HErr::AuthorMustBeSealer) => { rec.line(req, "sealer"); None }
                Err(_) => { rec.line(req, "fail"); None }
            }
        };
        // honest: author gets the seal key, peer the open key, and they are the keys derived above
        let hs = created(rec, &mut w, "honest", a, dev_ids[a], j, dev_ids[pr], pr, p.parent, p.label);
        let hr = received(rec, &mut w, "honest", pr, dev_ids[pr], dev_ids[a], a, &enc, p.parent, p.label);
        match (hs, hr) {
            (Some(x), Some(y)) => {
                if w.keys[x] != w.keys[ks] || w.keys[y] != w.keys[kr] {
                    rec.oracle_fail("the handler derives other keys than UniSealKey/UniOpenKey for the same channel");
                }
            }
            _ => rec.oracle_fail("the handler failed on an honest channel"),
        }
        // role checks
        if created(rec, &mut w, "author-is-opener", a, dev_ids[a], j, dev_ids[a], pr, p.parent, p.label).is_some() {
            rec.oracle_fail("uni_channel_created accepted device == open_id");
        }
        if received(rec, &mut w, "peer-is-sealer", pr, dev_ids[pr], dev_ids[pr], a, &enc, p.parent, p.label).is_some() {
            rec.oracle_fail("uni_channel_received accepted seal_id == device");
        }
        // never both ends.  Device `a` (author of a -> pr) holds its seal key; feed it every
        // `UniChannelReceived` effect that could name this channel: any open key it obtains must
        // not work with its seal key.
        if let Some(x) = hs {
            for seal_id in [dev_ids[pr], dev_ids[a], dev_ids[third]] {
                for author in [pr, a, third] {
                    if let Some(y) = received(rec, &mut w, "both:author-receives", a, dev_ids[a], seal_id, author, &enc, p.parent, p.label) {
                        rec.count("both-ends-pairs");
                        if works(rec, &w, x, y, &p.label, &mut rng) {
                            rec.oracle_fail("the author obtained an open key that opens its own channel (both ends of a channel)");
                        }
                    }
                }
            }
        }
        // Device `pr` (peer) holds its open key; it authors the REVERSE channel pr -> a with the same
        // parent and label: the seal key it gets there must not work with its open key.
        if let Some(y) = hr {
            let q = Params { seal: dev_ids[pr], open: dev_ids[a], ..p };
            let apk = w.devs[a].sk.public().expect("pk");
            let rs = { let ch = w.channel(pr, &apk, &q); UniSecrets::new(&w.eng, &ch) };
            let req = format!("author {} k{} {}", w.devs[pr].idx, w.devs[a].idx, q.toks());
            match rs {
                Ok(rs) => {
                    let j2 = w.chans.len();
                    rec.line(req, format!("ok {j2}"));
                    let enc2 = rs.peer.as_bytes().to_vec();
                    w.chans.push(Chan { author: pr, peer: a, p: q, secret: rs.author, enc: enc2 });
                    if let Some(x) = created(rec, &mut w, "both:peer-authors-reverse", pr, dev_ids[pr], j2, dev_ids[a], a, p.parent, p.label) {
                        rec.count("both-ends-pairs");
                        if works(rec, &w, x, y, &p.label, &mut rng) {
                            rec.oracle_fail("the peer's seal key of the reverse channel works with its open key (both ends of a channel)");
                        }
                    }
                    // and it must not be able to act as author of the ORIGINAL channel with its own secret
                    if let Some(x) = created(rec, &mut w, "both:peer-claims-original", pr, dev_ids[pr], j2, dev_ids[pr], a, p.parent, p.label) {
                        let _ = x;
                        rec.oracle_fail("uni_channel_created accepted device == open_id");
                    }
                }
                Err(_) => { rec.line(req, "fail"); rec.oracle_fail("UniSecrets::new failed on the honest reverse channel"); }
            }
        }
    }
    rec.nontrivial(fnv(&format!("{fpr}{cseed}")));
    if rec.samples.len() < 3 {
        rec.sample(format!("case {cseed}: channels {fpr}"));
    }
}

fn main() {
    let args = Args::parse();
    vh::quiet_panics();
    let mut rec = Recorder::new(&args.out);
    if let Some(p) = &args.replay {
        for l in vh::read_replay_input(p) {
            let t: Vec<&str> = l.split(' ').collect();
            if t.len() == 3 && t[0] == "case" {
                run_case(&mut rec, t[1].parse().expect("case seed"), t[2] == "1");
            }
        }
        rec.finish(args.seed, &args.tier);
        return;
    }
    let mut rng = Rng::new(args.seed);
    let big = args.thorough() || args.search;
    let cases = args.budget(200, 2000);
    for _ in 0..cases {
        let cs = rng.next_u64() >> 1;
        run_case(&mut rec, cs, big);
    }
    rec.finish(args.seed, &args.tier);
}
