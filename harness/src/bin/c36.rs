//! C36 — wrapped keys are authenticated and bound to their type.
//!
//! REAL code driven: `Engine::wrap` / `Engine::unwrap` of the `DefaultEngine` for every
//! `UnwrappedKey` type of aranya-crypto (IdentityKey, SigningKey, apq SenderSigningKey [Signing];
//! EncryptionKey, apq SenderSecretKey / ReceiverSecretKey, afc UniAuthorSecret [Decap]; GroupKey
//! [Seed]; tls PskSeed [Prk]) plus two harness-defined types built with the public `unwrapped!`
//! macro for the kinds the crate has no key of (Aead, Mac).
//!
//! Tie of `Model.FramingWrap`: the AD is not observable, so the harness frames
//! `("DefaultEngine", OIDs, [T::ID bytes, key id])` like the Lean model, hashes it with the real
//! SHA-256 and *opens the real wrapped key with the raw AES-256-GCM primitive* under the real
//! engine key and that AD — it opens iff the AD is the one the engine authenticated.
//!
//! Tie of `Spec.SymWrap` + S-level oracle: wrapped keys are modified through their serialized
//! (postcard) form — every field, single- and multi-point, splices of two wrapped keys, retagged
//! variants — then deserialized and unwrapped with the right / a wrong engine, as the right type and
//! as every other type.  Oracle: unwrap succeeds iff the deserialized wrapped key is byte-for-byte
//! an honest one, the engine is the wrapping engine and the requested type has the wrapped key's
//! kind; on success as the original type the key has the same id and behaviour.

#[path = "../cry.rs"]
mod cry;

use aranya_crypto::{
    afc::{UniAuthorSecret, UniChannel, UniSecrets},
    apq::{ReceiverSecretKey, SenderSecretKey, SenderSigningKey, Topic, Version},
    dangerous::spideroak_crypto::{
        aead::Aead,
        keys::SecretKey as _,
        mac::Mac,
        rust::Aes256Gcm,
    },
    default::{DefaultEngine, WrappedKey},
    engine::{AlgId, UnwrappedKey},
    id::{IdError, IdExt as _},
    policy::{CmdId, GroupId, LabelId},
    tls::PskSeed,
    BaseId, CipherSuite, DeviceId, EncryptionKey, Engine, GroupKey, IdentityKey, Identified, Random, SigningKey,
    UnwrapError,
};
use cry::{flip, pre_answer_ok, sha256, suite_line, suite_tuple_preimage, SeedRng, CS};
use vh::{fnv, hex, Args, Recorder, Rng};

type Eng = DefaultEngine<SeedRng, CS>;
type WK = WrappedKey<CS>;

// ---------------------------------------------------------------- harness-defined Aead / Mac key types
pub struct HAeadKey<CS: CipherSuite>(<CS::Aead as Aead>::Key);
impl<CS: CipherSuite> Identified for HAeadKey<CS> {
    type Id = BaseId;
    fn id(&self) -> Result<BaseId, IdError> {
        let b = self.0.try_export_secret().expect("export");
        Ok(BaseId::from_bytes(sha256(b.as_bytes())))
    }
}
aranya_crypto::unwrapped! { name: HAeadKey; type: Aead; into: |k: Self| { k.0 }; from: |k| { Self(k) }; }

pub struct HMacKey<CS: CipherSuite>(<CS::Mac as Mac>::Key);
impl<CS: CipherSuite> Identified for HMacKey<CS> {
    type Id = BaseId;
    fn id(&self) -> Result<BaseId, IdError> {
        let b = self.0.try_export_secret().expect("export");
        Ok(BaseId::from_bytes(sha256(b.as_bytes())))
    }
}
aranya_crypto::unwrapped! { name: HMacKey; type: Mac; into: |k: Self| { k.0 }; from: |k| { Self(k) }; }

// ---------------------------------------------------------------- kinds and types
#[derive(Clone, Copy, PartialEq, Eq, Debug)]
enum Kind {
    Aead,
    Decap,
    Mac,
    Prk,
    Seed,
    Signing,
}
const KINDS: [Kind; 6] = [Kind::Aead, Kind::Decap, Kind::Mac, Kind::Prk, Kind::Seed, Kind::Signing];
impl Kind {
    fn name(self) -> &'static str {
        match self {
            Kind::Aead => "aead",
            Kind::Decap => "decap",
            Kind::Mac => "mac",
            Kind::Prk => "prk",
            Kind::Seed => "seed",
            Kind::Signing => "signing",
        }
    }
    /// serde variant index of `Ciphertext`
    fn tag(self) -> u8 {
        KINDS.iter().position(|k| *k == self).unwrap() as u8
    }
    fn of_alg(id: AlgId) -> (Kind, Vec<u8>) {
        match id {
            AlgId::Aead(o) => (Kind::Aead, o.as_bytes().to_vec()),
            AlgId::Decap(o) => (Kind::Decap, o.as_bytes().to_vec()),
            AlgId::Mac(o) => (Kind::Mac, o.as_bytes().to_vec()),
            AlgId::Prk(o) => (Kind::Prk, o.as_bytes().to_vec()),
            AlgId::Signing(o) => (Kind::Signing, o.as_bytes().to_vec()),
            // `AlgId::as_bytes` is crate-private; the literal is confirmed by the AD check
            AlgId::Seed(()) => (Kind::Seed, b"64 byte Seed".to_vec()),
        }
    }
}

#[derive(Debug, PartialEq, Eq, Clone)]
enum Uerr {
    Open,
    WrongType,
    Import,
    Other(String),
}
fn classify(e: UnwrapError) -> Uerr {
    match e {
        UnwrapError::Open(_) => Uerr::Open,
        UnwrapError::WrongKeyType(_) => Uerr::WrongType,
        UnwrapError::Import(_) => Uerr::Import,
        e => Uerr::Other(e.to_string()),
    }
}

/// (key id, behaviour fingerprint)
type Fp = (Vec<u8>, Vec<u8>);

struct TypeInfo {
    name: &'static str,
    kind: Kind,
    alg_id: Vec<u8>,
    make: fn(&SeedRng, &Eng) -> (WK, Fp),
    unwrap: fn(&Eng, &WK) -> Result<Fp, Uerr>,
}

fn idb<T: Identified>(k: &T) -> Vec<u8> {
    k.id().expect("id").as_ref().as_bytes().to_vec()
}

macro_rules! ti {
    ($name:literal, $ty:ty, $gen:expr, $fp:expr) => {{
        fn make(rng: &SeedRng, eng: &Eng) -> (WK, Fp) {
            let g: fn(&SeedRng, &Eng) -> $ty = $gen;
            let f: fn(&$ty) -> Vec<u8> = $fp;
            let k = g(rng, eng);
            let fp = (idb(&k), f(&k));
            (eng.wrap(k).expect("wrap"), fp)
        }
        fn unwrap(eng: &Eng, wk: &WK) -> Result<Fp, Uerr> {
            let f: fn(&$ty) -> Vec<u8> = $fp;
            let k: $ty = eng.unwrap(wk).map_err(classify)?;
            Ok((idb(&k), f(&k)))
        }
        let (kind, alg_id) = Kind::of_alg(<$ty as UnwrappedKey<CS>>::ID);
        TypeInfo { name: $name, kind, alg_id, make, unwrap }
    }};
}

const MSG: &[u8] = b"c36 behaviour probe";

fn types() -> Vec<TypeInfo> {
    vec![
        ti!("IdentityKey", IdentityKey<CS>, |r, _| IdentityKey::new(r), |k| {
            std::borrow::Borrow::<[u8]>::borrow(&k.sign(MSG, b"ctx").expect("sign").to_bytes()).to_vec()
        }),
        ti!("SigningKey", SigningKey<CS>, |r, _| SigningKey::new(r), |k| {
            std::borrow::Borrow::<[u8]>::borrow(&k.sign(MSG, b"ctx").expect("sign").to_bytes()).to_vec()
        }),
        ti!("SenderSigningKey", SenderSigningKey<CS>, |r, _| SenderSigningKey::new(r), |k| {
            std::borrow::Borrow::<[u8]>::borrow(&k.sign(Version::new(1), &Topic::new("t"), MSG).expect("sign").to_bytes()).to_vec()
        }),
        ti!("EncryptionKey", EncryptionKey<CS>, |r, _| EncryptionKey::new(r), |k| {
            postcard::to_allocvec(&k.public().expect("public")).expect("pk")
        }),
        ti!("SenderSecretKey", SenderSecretKey<CS>, |r, _| SenderSecretKey::new(r), |k| {
            postcard::to_allocvec(&k.public().expect("public")).expect("pk")
        }),
        ti!("ReceiverSecretKey", ReceiverSecretKey<CS>, |r, _| ReceiverSecretKey::new(r), |k| {
            postcard::to_allocvec(&k.public().expect("public")).expect("pk")
        }),
        ti!(
            "UniAuthorSecret",
            UniAuthorSecret<CS>,
            |r, eng| {
                let our = EncryptionKey::<CS>::new(r);
                let their = EncryptionKey::<CS>::new(r).public().expect("public");
                let ch = UniChannel {
                    parent_cmd_id: CmdId::random(r),
                    our_sk: &our,
                    their_pk: &their,
                    seal_id: DeviceId::random(r),
                    open_id: DeviceId::random(r),
                    label_id: LabelId::random(r),
                };
                UniSecrets::new(eng, &ch).expect("UniSecrets").author
            },
            |k| idb(k)
        ),
        ti!("GroupKey", GroupKey<CS>, |r, _| GroupKey::new(r), |k| idb(k)),
        ti!("PskSeed", PskSeed<CS>, |r, _| PskSeed::new(r, &GroupId::random(r)), |k| idb(k)),
        ti!("HAeadKey", HAeadKey<CS>, |r, _| HAeadKey(Random::random(r)), |k| {
            k.0.try_export_secret().expect("export").as_bytes().to_vec()
        }),
        ti!("HMacKey", HMacKey<CS>, |r, _| HMacKey(Random::random(r)), |k| {
            k.0.try_export_secret().expect("export").as_bytes().to_vec()
        }),
    ]
}

// ---------------------------------------------------------------- serialized form
/// `[0x20][id 32][nonce 12][variant 1][ct N][tag 16]`
#[derive(Clone, PartialEq, Eq)]
struct Parts {
    id: Vec<u8>,
    nonce: Vec<u8>,
    variant: u8,
    ct: Vec<u8>,
    tag: Vec<u8>,
}
fn split(ser: &[u8]) -> Option<Parts> {
    if ser.len() < 62 + 16 || ser[0] != 0x20 {
        return None;
    }
    let n = ser.len() - 62;
    Some(Parts {
        id: ser[1..33].to_vec(),
        nonce: ser[33..45].to_vec(),
        variant: ser[45],
        ct: ser[46..46 + n].to_vec(),
        tag: ser[46 + n..].to_vec(),
    })
}
fn join(p: &Parts) -> Vec<u8> {
    let mut v = vec![0x20];
    v.extend_from_slice(&p.id);
    v.extend_from_slice(&p.nonce);
    v.push(p.variant);
    v.extend_from_slice(&p.ct);
    v.extend_from_slice(&p.tag);
    v
}

struct Ev {
    ty: usize,
    eng: usize,
    ser: Vec<u8>,
    parts: Parts,
    fp: Fp,
}

struct World {
    types: Vec<TypeInfo>,
    engs: Vec<Eng>,
    evs: Vec<Ev>,
}

/// one unwrap attempt of (possibly modified) serialized bytes, as type `ty`, with engine `e`
fn attempt(rec: &mut Recorder, w: &World, kind: &str, e: usize, ty: usize, bytes: &[u8], orig: usize) {
    let t = &w.types[ty];
    let Ok(wk) = postcard::from_bytes::<WK>(bytes) else {
        // a wrapped key that does not even deserialize is rejected
        rec.count(&format!("undecodable:{kind}"));
        return;
    };
    rec.count(&format!("unwrap:{kind}"));
    let canon = postcard::to_allocvec(&wk).expect("reserialize");
    let Some(p) = split(&canon) else {
        rec.oracle_fail(format!("[{kind}] harness cannot parse the serialized wrapped key (layout changed?)"));
        return;
    };
    let ct_tok = match w.evs.iter().position(|x| x.parts.ct == p.ct) {
        Some(j) => format!("c{j}"),
        None => format!("b{}", hex(&p.ct)),
    };
    let tag_tok = match w.evs.iter().position(|x| x.parts.tag == p.tag) {
        Some(j) => format!("t{j}"),
        None => format!("b{}", hex(&p.tag)),
    };
    let vname = KINDS.get(p.variant as usize).map(|k| k.name()).unwrap_or("?");
    let req = format!(
        "unwrap {e} {} b{} b{} {vname} {ct_tok} {tag_tok}",
        t.kind.name(),
        hex(&p.id),
        hex(&p.nonce)
    );
    let real = match vh::catch(std::panic::AssertUnwindSafe(|| (t.unwrap)(&w.engs[e], &wk))) {
        Ok(r) => r,
        Err(pn) => {
            rec.panics.push(format!("unwrap panicked: {pn} on `{req}`"));
            Err(Uerr::Other("panic".into()))
        }
    };
    let honest = w.evs.iter().position(|x| x.ser == canon);
    let ans = match &real {
        Ok(_) => match honest {
            Some(j) => format!("ok {j}"),
            None => "ok ?".into(),
        },
        Err(Uerr::Open) => "open".into(),
        Err(Uerr::WrongType) => "wrongtype".into(),
        Err(Uerr::Import) => "import".into(),
        Err(Uerr::Other(s)) => format!("other:{}", s.replace(' ', "_")),
    };
    rec.line(req.clone(), ans);
    // ---- S-level oracle
    let want_ok = match honest {
        Some(j) => w.evs[j].eng == e && w.types[w.evs[j].ty].kind == t.kind,
        None => false,
    };
    match (&real, want_ok) {
        (Ok(fp), true) => {
            let j = honest.unwrap();
            if w.evs[j].ty == ty {
                if *fp != w.evs[j].fp {
                    rec.oracle_fail(format!("[{kind}] unwrapped {} differs from the wrapped key (id or behaviour): `{req}`", t.name));
                }
            } else {
                rec.count("accepted:same-kind-other-type");
            }
        }
        (Err(err), true) => rec.oracle_fail(format!("[{kind}] honest wrapped key rejected ({err:?}) as {}: `{req}`", t.name)),
        (Ok(_), false) => rec.oracle_fail(format!(
            "[{kind}] unwrap ACCEPTED a wrapped key that is not an honest wrapping for this engine/kind (orig type {}, as {}): `{req}`",
            w.types[w.evs[orig].ty].name, t.name
        )),
        (Err(_), false) => {}
    }
}

fn run_case(rec: &mut Recorder, cseed: u64, big: bool) {
    let mut rng = Rng::new(cseed);
    let krng = SeedRng::new(rng.next_u64());
    rec.begin_case();
    rec.line(format!("case {cseed} {}", big as u8), "ok");
    rec.line(suite_line(), "ok");
    let types = types();
    // engines (with their raw AEAD keys for the primitive AD check)
    let mut engs = vec![];
    let mut ekeys = vec![];
    for _ in 0..2 {
        let (e, k) = Eng::from_entropy(SeedRng::new(rng.next_u64()));
        engs.push(e);
        ekeys.push(k);
    }
    // algorithm ids
    let mut alg: Vec<(Kind, Vec<u8>)> = vec![];
    for t in &types {
        if !alg.iter().any(|(k, _)| *k == t.kind) {
            alg.push((t.kind, t.alg_id.clone()));
            rec.line(format!("algid {}", t.kind.name()), hex(&t.alg_id));
        }
    }
    let distinct = (0..alg.len()).all(|i| (0..i).all(|j| alg[i].1 != alg[j].1));
    rec.line("distinct", if distinct && alg.len() == 6 { "1" } else { "0" });
    if !distinct {
        rec.oracle_fail("two key kinds of the default suite share their algorithm id bytes");
    }

    let mut w = World { types, engs, evs: vec![] };
    // ---- choose types; two keys of each
    let nt = if big { rng.range(3, 6) } else { rng.range(2, 4) } as usize;
    let mut order: Vec<usize> = (0..w.types.len()).collect();
    rng.shuffle(&mut order);
    let chosen: Vec<usize> = order[..nt].to_vec();
    let mut fpr = String::new();
    for &ty in &chosen {
        for _ in 0..2 {
            let e = if rng.chance(1, 4) { 1 } else { 0 };
            let (wk, fp) = (w.types[ty].make)(&krng, &w.engs[e]);
            let ser = postcard::to_allocvec(&wk).expect("serialize");
            let Some(parts) = split(&ser) else {
                rec.oracle_fail("harness cannot parse the serialized wrapped key (layout changed?)");
                return;
            };
            let t = &w.types[ty];
            if parts.id != fp.0 || parts.variant != t.kind.tag() || join(&parts) != ser {
                rec.oracle_fail(format!("serialized layout of WrappedKey is not [0x20][id][nonce][variant][ct][tag] for {}", t.name));
                return;
            }
            rec.count(&format!("wrap:{}", t.name));
            fpr.push_str(&format!("{}@{e};", t.name));
            // ---- framing tie: open with the raw AES-GCM primitive under the model-framed AD
            let pre = suite_tuple_preimage(b"DefaultEngine", &[t.alg_id.clone(), fp.0.clone()]);
            let ad = sha256(&pre);
            let mut data = parts.ct.clone();
            let opened = Aes256Gcm::new(&ekeys[e]).open_in_place(&parts.nonce, &mut data, &parts.tag, &ad).is_ok();
            rec.line(format!("ad {} {}", t.kind.name(), hex(&fp.0)), pre_answer_ok(&pre, opened, "the real wrapped key does not open under AD = sha256(model-framed bytes)"));
            // the AD is bound to both items: the primitive must NOT open with the items swapped / merged
            let pre2 = suite_tuple_preimage(b"DefaultEngine", &[fp.0.clone(), t.alg_id.clone()]);
            let mut data = parts.ct.clone();
            if Aes256Gcm::new(&ekeys[e]).open_in_place(&parts.nonce, &mut data, &parts.tag, &sha256(&pre2)).is_ok() {
                rec.oracle_fail("wrapped key opens under an AD with (algId, keyId) swapped");
            }
            rec.line(
                format!("wrap {e} {} b{} {} b{}", t.kind.name(), hex(&parts.id), w.evs.len(), hex(&parts.nonce)),
                format!("ok {}", w.evs.len()),
            );
            w.evs.push(Ev { ty, eng: e, ser, parts, fp });
        }
    }
    rec.nontrivial(fnv(&fpr));
    if rec.samples.len() < 3 {
        rec.sample(format!("case {cseed}: {fpr}"));
    }

    // ---------------------------------------------------------------- attempts
    let n = w.evs.len();
    for j in 0..n {
        let (ty, e, ser, p) = (w.evs[j].ty, w.evs[j].eng, w.evs[j].ser.clone(), w.evs[j].parts.clone());
        // the other key of the same type
        let o = if j % 2 == 0 { j + 1 } else { j - 1 };
        let po = w.evs[o].parts.clone();
        attempt(rec, &w, "honest", e, ty, &ser, j);
        attempt(rec, &w, "wrong-engine", 1 - e, ty, &ser, j);
        // cross-type: as every other type
        for ty2 in 0..w.types.len() {
            if ty2 != ty {
                let k = if w.types[ty2].kind == w.types[ty].kind { "as-other-type-same-kind" } else { "cross-kind" };
                attempt(rec, &w, k, e, ty2, &ser, j);
            }
        }
        let mut muts: Vec<(&'static str, Vec<u8>)> = vec![];
        let mut m = |k: &'static str, q: Parts| muts.push((k, join(&q)));
        // id
        { let mut q = p.clone(); q.id = flip(&q.id, rng.below(32) as usize, rng.below(8) as u8); m("id-flip", q); }
        { let mut q = p.clone(); q.id = vec![0; 32]; m("id-zero", q); }
        { let mut q = p.clone(); q.id = po.id.clone(); m("id-of-other-key", q); }
        // nonce
        { let mut q = p.clone(); q.nonce = flip(&q.nonce, rng.below(12) as usize, rng.below(8) as u8); m("nonce-flip", q); }
        { let mut q = p.clone(); q.nonce = po.nonce.clone(); m("nonce-of-other-key", q); }
        { let mut q = p.clone(); q.nonce = vec![0; 12]; m("nonce-zero", q); }
        // ciphertext
        for _ in 0..(if big { 6 } else { 2 }) {
            let mut q = p.clone(); q.ct = flip(&q.ct, rng.below(q.ct.len() as u64) as usize, rng.below(8) as u8); m("ct-flip", q);
        }
        { let mut q = p.clone(); q.ct = po.ct.clone(); m("ct-of-other-key", q); }
        { let mut q = p.clone(); q.ct = vec![0; q.ct.len()]; m("ct-zero", q); }
        { let mut q = p.clone(); q.ct.reverse(); m("ct-reversed", q); }
        // tag
        for _ in 0..(if big { 4 } else { 2 }) {
            let mut q = p.clone(); q.tag = flip(&q.tag, rng.below(16) as usize, rng.below(8) as u8); m("tag-flip", q);
        }
        { let mut q = p.clone(); q.tag = po.tag.clone(); m("tag-of-other-key", q); }
        { let mut q = p.clone(); q.tag = vec![0; 16]; m("tag-zero", q); }
        // multi-point / splices
        { let mut q = p.clone(); q.id = po.id.clone(); q.nonce = po.nonce.clone(); m("splice-id+nonce-of-other", q); }
        { let mut q = p.clone(); q.ct = po.ct.clone(); q.tag = po.tag.clone(); m("splice-ct+tag-of-other", q); }
        { let mut q = po.clone(); q.tag = p.tag.clone(); m("splice-all-of-other-but-tag", q); }
        { let mut q = po.clone(); q.id = p.id.clone(); m("splice-all-of-other-but-id", q); }
        { let mut q = p.clone(); q.id = flip(&q.id, 0, 0); q.tag = flip(&q.tag, 0, 0); m("multi-id+tag", q); }
        { let mut q = p.clone(); q.nonce = flip(&q.nonce, 3, 1); q.ct = flip(&q.ct, 2, 7); m("multi-nonce+ct", q); }
        // boundary shift between adjacent fields of the serialized form
        { let mut q = p.clone(); let b = q.nonce.remove(0); q.id.push(b); let c = q.id.remove(0); q.nonce.push(c); m("rotate-id|nonce", q); }
        { let mut q = p.clone(); let b = q.tag.remove(0); q.ct.push(b); let c = q.ct.remove(0); q.tag.push(c); m("rotate-ct|tag", q); }
        drop(m);
        // raw byte-level changes
        muts.push(("len-prefix", { let mut s = ser.clone(); s[0] = 0x1f; s }));
        muts.push(("truncate-1", ser[..ser.len() - 1].to_vec()));
        muts.push(("extend-1", { let mut s = ser.clone(); s.push(0); s }));
        muts.push(("empty", vec![]));
        for _ in 0..(if big { 8 } else { 3 }) {
            muts.push(("any-byte-flip", flip(&ser, rng.below(ser.len() as u64) as usize, rng.below(8) as u8)));
        }
        for (k, b) in &muts {
            if *b == ser { continue; }
            attempt(rec, &w, k, e, ty, b, j);
        }
        // retag the variant: as the original type, and as a type of the NEW kind
        for k2 in KINDS {
            if k2 == w.types[ty].kind { continue; }
            let mut q = p.clone();
            q.variant = k2.tag();
            let b = join(&q);
            attempt(rec, &w, "retag-as-original-type", e, ty, &b, j);
            for ty2 in 0..w.types.len() {
                if w.types[ty2].kind == k2 {
                    attempt(rec, &w, "retag-as-type-of-new-kind", e, ty2, &b, j);
                }
            }
        }
        { let mut q = p.clone(); q.variant = 6; attempt(rec, &w, "retag-invalid", e, ty, &join(&q), j); }
    }
}

fn main() {
    let args = Args::parse();
    vh::quiet_panics();
    let mut rec = Recorder::new(&args.out);
    if let Some(p) = &args.replay {
        for l in vh::read_replay_input(p) {
            let t: Vec<&str> = l.split(' ').collect();
            if t.len() == 3 && t[0] == "case" {
                run_case(&mut rec, t[1].parse().expect("case seed"), t[2] == "1");
            }
        }
        rec.finish(args.seed, &args.tier);
        return;
    }
    let mut rng = Rng::new(args.seed);
    let big = args.thorough() || args.search;
    let cases = args.budget(400, 5000);
    for _ in 0..cases {
        let cs = rng.next_u64() >> 1;
        run_case(&mut rec, cs, big);
    }
    rec.finish(args.seed, &args.tier);
}
