//! C32 — `aranya_policy_text::{Text, Identifier}`: every public constructor and decoder on
//! valid and invalid inputs, lengths around `MAX_INLINE`, every representation.  Real code vs
//! the Lean model (`drv_c32`) and vs an oracle written here (NUL scan, the identifier regex,
//! byte-wise comparison, `DefaultHasher`).
//!
//! Requests (contents are hex, `-` = empty); a value is answered `ok <i|o> <hex of as_str>`
//! where `i` means `as_str()` points into the value itself (inline representation):
//!   t.new | t.lit s | t.fromstr s | t.cstr bytes | t.add a b | t.json s | t.postcard bytes |
//!   t.rkyv bytes | i.lit s | i.fromstr s | i.fromtext s | i.fromstatic s | i.json s |
//!   i.postcard bytes | i.rkyv bytes | i.totext s | cmp a b

use std::{
    collections::hash_map::DefaultHasher,
    ffi::CString,
    hash::{Hash, Hasher},
    str::FromStr,
};

use aranya_policy_text::{ident, text, Identifier, Text};
use rkyv::rancor::Error as RkErr;
use vh::{fnv, hex, unhex, Args, Recorder, Rng};

// ------------------------------------------------------------------ observation helpers

fn inline_text(t: &Text) -> bool {
    let p = t.as_str().as_ptr() as usize;
    let base = t as *const Text as usize;
    p >= base && p < base + core::mem::size_of::<Text>()
}
fn inline_ident(i: &Identifier) -> bool {
    let p = i.as_str().as_ptr() as usize;
    let base = i as *const Identifier as usize;
    p >= base && p < base + core::mem::size_of::<Identifier>()
}
fn show_text(t: &Text) -> String {
    format!("ok {} {}", if inline_text(t) { "i" } else { "o" }, hex(t.as_str().as_bytes()))
}
fn show_ident(i: &Identifier) -> String {
    format!("ok {} {}", if inline_ident(i) { "i" } else { "o" }, hex(i.as_str().as_bytes()))
}

fn hash_of<T: Hash + ?Sized>(v: &T) -> u64 {
    let mut h = DefaultHasher::new();
    v.hash(&mut h);
    h.finish()
}

/// `[a-zA-Z][a-zA-Z0-9_]*`, written out
fn ident_ok(s: &[u8]) -> bool {
    match s.split_first() {
        None => false,
        Some((f, rest)) => {
            (matches!(f, b'a'..=b'z' | b'A'..=b'Z'))
                && rest.iter().all(|c| matches!(c, b'a'..=b'z' | b'A'..=b'Z' | b'0'..=b'9' | b'_'))
        }
    }
}

fn text_err(e: &aranya_policy_text::InvalidText) -> String {
    let m = e.to_string();
    match m.strip_prefix("text contained nul byte at index ") {
        Some(n) => format!("nul {n}"),
        None => format!("unknown-error:{m}"),
    }
}
fn ident_err(e: &aranya_policy_text::InvalidIdentifier) -> String {
    let m = e.to_string();
    if m == "identifier must not be empty" {
        "empty".into()
    } else if m == "identifier must start with alphabetic character" {
        "initial".into()
    } else if let Some(n) = m.strip_prefix("identifier contained invalid character at index ") {
        format!("trailing {n}")
    } else {
        format!("unknown-error:{m}")
    }
}

struct Chk(Vec<String>);
impl Chk {
    fn that(&mut self, c: bool, what: &str) {
        if !c {
            self.0.push(what.to_string());
        }
    }
    /// the invariants of any `Text` that exists, and that its views agree
    fn text_value(&mut self, t: &Text, want: Option<&[u8]>) {
        let s = t.as_str();
        self.that(!s.as_bytes().contains(&0), "a Text value contains a NUL byte");
        if let Some(w) = want {
            self.that(s.as_bytes() == w, "content differs from the input");
        }
        self.that(t.to_string() == s && &**t == s && *t == *s && format!("{t:?}") == format!("{s:?}"), "Display/Deref/PartialEq<str>/Debug disagree with as_str");
        let c = t.clone();
        self.that(c == *t && c.as_str() == s && hash_of(&c) == hash_of(t), "clone differs");
    }
    fn ident_value(&mut self, i: &Identifier, want: Option<&[u8]>) {
        let s = i.as_str();
        self.that(ident_ok(s.as_bytes()), "an Identifier value does not match [a-zA-Z][a-zA-Z0-9_]*");
        if let Some(w) = want {
            self.that(s.as_bytes() == w, "content differs from the input");
        }
        self.that(i.to_string() == s && *i == *s, "Display/PartialEq<str> disagree with as_str");
        let t: Text = i.clone().into();
        self.that(t.as_str() == s && !s.as_bytes().contains(&0), "Identifier -> Text changed the content");
    }
    fn text_result(&mut self, r: &Result<Text, String>, input: &[u8]) {
        match r {
            Ok(t) => {
                self.that(!input.contains(&0), "accepted input containing NUL");
                self.text_value(t, Some(input));
            }
            Err(e) => {
                self.that(input.contains(&0), "rejected NUL-free input");
                if let Some(n) = e.strip_prefix("nul ") {
                    let first = input.iter().position(|b| *b == 0);
                    self.that(n.parse::<usize>().ok() == first, "reported index is not the first NUL");
                }
            }
        }
    }
    fn ident_result(&mut self, r: &Result<Identifier, String>, input: &[u8]) {
        match r {
            Ok(i) => {
                self.that(ident_ok(input), "accepted an input that does not match the identifier regex");
                self.ident_value(i, Some(input));
            }
            Err(e) => {
                self.that(!ident_ok(input), "rejected a valid identifier");
                match e.as_str() {
                    "empty" => self.that(input.is_empty(), "`empty` for a non-empty input"),
                    "initial" => self.that(!input.is_empty() && !input[0].is_ascii_alphabetic(), "`initial` but the first byte is a letter"),
                    e if e.starts_with("trailing ") => {
                        let first = input.iter().enumerate().position(|(k, c)| k > 0 && !(c.is_ascii_alphanumeric() || *c == b'_'));
                        self.that(e[9..].parse::<usize>().ok() == first && input[0].is_ascii_alphabetic(), "reported index is not the first invalid byte");
                    }
                    _ => {}
                }
            }
        }
    }
}

fn leak(s: &str) -> &'static str {
    Box::leak(s.to_string().into_boxed_str())
}

fn varint(mut n: usize) -> Vec<u8> {
    let mut v = vec![];
    loop {
        let b = (n & 0x7f) as u8;
        n >>= 7;
        if n == 0 {
            v.push(b);
            return v;
        }
        v.push(b | 0x80);
    }
}

/// an rkyv archive of a `Text`/`Identifier` whose string bytes are `content`: serialize a
/// placeholder of the same length, overwrite its bytes (they are at the start of the archive
/// both for the inline (≤ 8 bytes) and the out-of-line string representation)
fn patched_archive(content: &[u8], ident: bool) -> Option<rkyv::util::AlignedVec> {
    let ph: String = std::iter::repeat('x').take(content.len()).collect();
    let mut bytes = if ident {
        if ph.is_empty() {
            return None; // no valid placeholder identifier of length 0
        }
        rkyv::to_bytes::<RkErr>(&Identifier::from_str(&ph).ok()?).ok()?
    } else {
        rkyv::to_bytes::<RkErr>(&Text::from_str(&ph).ok()?).ok()?
    };
    if bytes.len() < content.len() || &bytes[..content.len()] != ph.as_bytes() {
        return None;
    }
    bytes[..content.len()].copy_from_slice(content);
    Some(bytes)
}

const LIT_TEXTS: &[(&str, fn() -> Text)] = &[
    ("", || text!("")),
    ("a", || text!("a")),
    ("hello world", || text!("hello world")),
    ("exactly twenty-two chr", || text!("exactly twenty-two chr")),
    ("exactly twenty-three ch", || text!("exactly twenty-three ch")),
    ("héllo 漢字 😀", || text!("héllo 漢字 😀")),
    ("a literal that is clearly longer than any inline buffer could be", || text!("a literal that is clearly longer than any inline buffer could be")),
];
const LIT_IDENTS: &[(&str, fn() -> Identifier)] = &[
    ("a", || ident!("a")),
    ("A_1", || ident!("A_1")),
    ("abcdefghijklmnopqrstuv", || ident!("abcdefghijklmnopqrstuv")),
    ("abcdefghijklmnopqrstuvw", || ident!("abcdefghijklmnopqrstuvw")),
    ("Z9_z", || ident!("Z9_z")),
];

// ------------------------------------------------------------------ one request

/// `None` = not a request this harness can run (e.g. a `&str` op on invalid UTF-8).
fn exec_inner(t: &[&str], rec_dist: &mut Vec<String>) -> Option<(Option<String>, Vec<String>)> {
    let mut c = Chk(vec![]);
    let arg = |k: usize| -> Option<Vec<u8>> { t.get(k).and_then(|h| unhex(h)) };
    let as_str = |b: &[u8]| -> Option<String> { String::from_utf8(b.to_vec()).ok() };
    let ans: Option<String> = match (t[0], t.len()) {
        ("t.new", 1) => {
            let a = Text::new();
            let b = Text::default();
            c.text_value(&a, Some(b""));
            c.that(a == b && a.const_eq(&b), "new != default");
            Some(show_text(&a))
        }
        ("t.lit", 2) => {
            let s = as_str(&arg(1)?)?;
            let f = LIT_TEXTS.iter().find(|(l, _)| *l == s)?.1;
            let v = f();
            c.text_value(&v, Some(s.as_bytes()));
            Some(show_text(&v))
        }
        ("i.lit", 2) => {
            let s = as_str(&arg(1)?)?;
            let f = LIT_IDENTS.iter().find(|(l, _)| *l == s)?.1;
            let v = f();
            c.ident_value(&v, Some(s.as_bytes()));
            Some(show_ident(&v))
        }
        ("t.fromstr", 2) => {
            let b = arg(1)?;
            let s = as_str(&b)?;
            let r = Text::from_str(&s).map_err(|e| text_err(&e));
            let r2 = Text::try_from(s.clone()).map_err(|e| text_err(&e));
            c.text_result(&r, &b);
            c.that(r.as_ref().ok().map(|t| t.as_str().to_string()) == r2.as_ref().ok().map(|t| t.as_str().to_string()) && r.as_ref().err() == r2.as_ref().err(), "FromStr and TryFrom<String> disagree");
            Some(match &r {
                Ok(t) => show_text(t),
                Err(e) => e.clone(),
            })
        }
        ("t.cstr", 2) => {
            let b = arg(1)?;
            let cs = CString::new(b.clone()).ok()?;
            let r = Text::try_from(cs.as_c_str());
            match &r {
                Ok(t) => {
                    c.that(std::str::from_utf8(&b).is_ok(), "accepted a C string that is not UTF-8");
                    c.text_value(t, Some(&b));
                }
                Err(_) => c.that(std::str::from_utf8(&b).is_err(), "rejected a valid UTF-8 C string"),
            }
            Some(match &r {
                Ok(t) => show_text(t),
                Err(_) => "utf8".into(),
            })
        }
        ("t.add", 3) => {
            let (a, b) = (arg(1)?, arg(2)?);
            let (sa, sb) = (as_str(&a)?, as_str(&b)?);
            match (Text::from_str(&sa), Text::from_str(&sb)) {
                (Ok(ta), Ok(tb)) => {
                    let sum = &ta + &tb;
                    let mut want = a.clone();
                    want.extend_from_slice(&b);
                    c.text_value(&sum, Some(&want));
                    // the operands in other representations
                    // SAFETY: both strings were validated by `from_str` just above.
                    let (xa, xb) = unsafe { (Text::__from_literal(leak(&sa)), Text::__from_literal(leak(&sb))) };
                    c.that(&xa + &xb == sum && &xa + &tb == sum, "sum depends on the operands' representation");
                    Some(show_text(&sum))
                }
                _ => Some("nul-arg".into()),
            }
        }
        ("t.json", 2) | ("i.json", 2) => {
            let b = arg(1)?;
            let s = as_str(&b)?;
            let doc = serde_json::to_string(&s).ok()?;
            if t[0] == "t.json" {
                let r = serde_json::from_str::<Text>(&doc).map_err(|_| "err".to_string());
                c.text_result(&r, &b);
                if let Ok(v) = &r {
                    c.that(serde_json::to_string(v).ok().as_deref() == Some(&doc), "JSON form of the value differs from the string's");
                }
                Some(r.as_ref().map(show_text).unwrap_or_else(|e| e.clone()))
            } else {
                let r = serde_json::from_str::<Identifier>(&doc).map_err(|_| "err".to_string());
                c.ident_result(&r, &b);
                if let Ok(v) = &r {
                    c.that(serde_json::to_string(v).ok().as_deref() == Some(&doc), "JSON form of the value differs from the string's");
                }
                Some(r.as_ref().map(show_ident).unwrap_or_else(|e| e.clone()))
            }
        }
        ("t.postcard", 2) | ("i.postcard", 2) => {
            let b = arg(1)?;
            let mut w = varint(b.len());
            w.extend_from_slice(&b);
            let utf8 = std::str::from_utf8(&b).is_ok();
            if t[0] == "t.postcard" {
                let r = postcard::from_bytes::<Text>(&w).map_err(|_| "err".to_string());
                match &r {
                    Ok(v) => {
                        c.that(utf8, "accepted bytes that are not UTF-8");
                        c.text_result(&r, &b);
                        c.that(postcard::to_allocvec(v).ok().as_deref() == Some(&w[..]), "postcard form differs");
                    }
                    Err(_) => c.that(!utf8 || b.contains(&0), "rejected a valid encoding"),
                }
                Some(r.as_ref().map(show_text).unwrap_or_else(|e| e.clone()))
            } else {
                let r = postcard::from_bytes::<Identifier>(&w).map_err(|_| "err".to_string());
                match &r {
                    Ok(v) => {
                        c.ident_result(&r, &b);
                        c.that(postcard::to_allocvec(v).ok().as_deref() == Some(&w[..]), "postcard form differs");
                    }
                    Err(_) => c.that(!ident_ok(&b), "rejected a valid encoding"),
                }
                Some(r.as_ref().map(show_ident).unwrap_or_else(|e| e.clone()))
            }
        }
        ("t.rkyv", 2) => {
            let b = arg(1)?;
            let utf8 = std::str::from_utf8(&b).is_ok();
            let bytes = patched_archive(&b, false)?;
            let r = rkyv::access::<rkyv::Archived<Text>, RkErr>(&bytes);
            let out = match r {
                Ok(a) => {
                    c.that(!a.as_str().as_bytes().contains(&0), "checked access returned an archived text with NUL");
                    if utf8 {
                        c.that(a.as_str().as_bytes() == &b[..] && !b.contains(&0), "checked access accepted NUL / changed content");
                    }
                    let back = rkyv::deserialize::<Text, RkErr>(a);
                    match back {
                        Ok(v) => {
                            c.text_value(&v, Some(a.as_str().as_bytes()));
                            let again = rkyv::to_bytes::<RkErr>(&v).ok();
                            c.that(again.as_deref() == Some(&bytes[..]) || !utf8, "re-serialising gives other bytes");
                            show_text(&v)
                        }
                        Err(_) => {
                            c.that(false, "deserialize of a verified archive failed");
                            "err".into()
                        }
                    }
                }
                Err(_) => {
                    c.that(!utf8 || b.contains(&0), "checked access rejected a valid archive");
                    "err".into()
                }
            };
            // model comparison only for UTF-8 contents (the model's archived string is a string)
            if utf8 {
                Some(out)
            } else {
                rec_dist.push("rkyv:invalid-utf8-content(oracle only)".into());
                None
            }
        }
        ("i.rkyv", 2) => {
            let b = arg(1)?;
            let utf8 = std::str::from_utf8(&b).is_ok();
            let bytes = patched_archive(&b, true)?;
            let r = rkyv::access::<rkyv::Archived<Identifier>, RkErr>(&bytes);
            let out = match r {
                Ok(a) => {
                    c.that(ident_ok(a.as_str().as_bytes()), "checked access returned an invalid archived identifier");
                    if utf8 {
                        c.that(a.as_str().as_bytes() == &b[..] && ident_ok(&b), "checked access accepted an invalid identifier / changed content");
                    }
                    let v1 = a.deserialize();
                    c.ident_value(&v1, Some(a.as_str().as_bytes()));
                    match rkyv::deserialize::<Identifier, RkErr>(a) {
                        Ok(v2) => c.that(v2 == v1, "the two deserialize paths differ"),
                        Err(_) => c.that(false, "deserialize of a verified archive failed"),
                    }
                    show_ident(&v1)
                }
                Err(_) => {
                    c.that(!ident_ok(&b), "checked access rejected a valid archive");
                    "err".into()
                }
            };
            if utf8 {
                Some(out)
            } else {
                rec_dist.push("rkyv:invalid-utf8-content(oracle only)".into());
                None
            }
        }
        ("i.fromstr", 2) => {
            let b = arg(1)?;
            let s = as_str(&b)?;
            let r = Identifier::from_str(&s).map_err(|e| ident_err(&e));
            let r2 = Identifier::try_from(s.clone()).map_err(|e| ident_err(&e));
            c.ident_result(&r, &b);
            c.that(r.as_ref().ok().map(|i| i.as_str().to_string()) == r2.as_ref().ok().map(|i| i.as_str().to_string()) && r.as_ref().err() == r2.as_ref().err(), "FromStr and TryFrom<String> disagree");
            Some(r.as_ref().map(show_ident).unwrap_or_else(|e| e.clone()))
        }
        ("i.fromtext", 2) | ("i.fromstatic", 2) => {
            let b = arg(1)?;
            let s = as_str(&b)?;
            let tx = if t[0] == "i.fromtext" {
                Text::from_str(&s).ok()
            } else if b.contains(&0) {
                None
            } else {
                // SAFETY: NUL-free, checked on the line above.
                Some(unsafe { Text::__from_literal(leak(&s)) })
            };
            match tx {
                None => Some("nul-arg".into()),
                Some(tx) => {
                    let r = Identifier::try_from(tx).map_err(|e| ident_err(&e));
                    c.ident_result(&r, &b);
                    Some(r.as_ref().map(show_ident).unwrap_or_else(|e| e.clone()))
                }
            }
        }
        ("i.totext", 2) => {
            let b = arg(1)?;
            let s = as_str(&b)?;
            match Identifier::from_str(&s) {
                Ok(i) => {
                    let tx: Text = i.into();
                    c.text_value(&tx, Some(&b));
                    Some(show_text(&tx))
                }
                Err(e) => Some(ident_err(&e)),
            }
        }
        ("cmp", 3) => {
            let (a, b) = (arg(1)?, arg(2)?);
            let (sa, sb) = (as_str(&a)?, as_str(&b)?);
            if a.contains(&0) || b.contains(&0) {
                return None;
            }
            // every representation of each content
            let mk = |s: &str| -> Vec<Text> {
                let heapish = Text::from_str(s).unwrap();
                // SAFETY: NUL-free, checked above.
                let stat = unsafe { Text::__from_literal(leak(s)) };
                let via_json: Text = serde_json::from_str(&serde_json::to_string(s).unwrap()).unwrap();
                let cl = heapish.clone();
                let sum = &Text::from_str(&s[..0]).unwrap() + &heapish;
                vec![heapish, stat, via_json, cl, sum]
            };
            let (va, vb) = (mk(&sa), mk(&sb));
            let want = a.cmp(&b);
            for x in &va {
                for y in &vb {
                    c.that(x.cmp(y) == want && x.partial_cmp(y) == Some(want), "ordering depends on the representation / is not byte-wise");
                    c.that((x == y) == (a == b) && x.const_eq(y) == (a == b), "equality depends on the representation");
                    c.that((hash_of(x) == hash_of(y)) == (a == b) || a != b, "equal contents hash differently");
                }
                c.that(hash_of(x) == hash_of(sa.as_str()), "hash differs from the hash of the str");
            }
            if ident_ok(&a) && ident_ok(&b) {
                let (ia, ib) = (Identifier::from_str(&sa).unwrap(), Identifier::try_from(va[1].clone()).unwrap());
                c.that(ia == ib && hash_of(&ia) == hash_of(&ib) && ia.cmp(&Identifier::from_str(&sb).unwrap()) == want, "identifier comparison depends on the representation");
            }
            // archived forms compare by content too
            if let (Ok(ba), Ok(bb)) = (rkyv::to_bytes::<RkErr>(&va[0]), rkyv::to_bytes::<RkErr>(&vb[1])) {
                if let (Ok(xa), Ok(xb)) = (rkyv::access::<rkyv::Archived<Text>, RkErr>(&ba), rkyv::access::<rkyv::Archived<Text>, RkErr>(&bb)) {
                    c.that(xa.cmp(xb) == want && (xa == xb) == (a == b), "archived comparison is not by content");
                }
            }
            let o = match va[0].cmp(&vb[0]) {
                std::cmp::Ordering::Less => "lt",
                std::cmp::Ordering::Equal => "eq",
                std::cmp::Ordering::Greater => "gt",
            };
            Some(format!("{o} {} {}", (va[0] == vb[0]) as u8, (hash_of(&va[0]) == hash_of(&vb[0])) as u8))
        }
        _ => return None,
    };
    Some((ans, c.0))
}

fn exec(rec: &mut Recorder, line: &str) {
    let t: Vec<&str> = line.split(' ').collect();
    let mut extra = vec![];
    let r = vh::catch(std::panic::AssertUnwindSafe(|| exec_inner(&t, &mut extra)));
    for e in extra {
        rec.count(&e);
    }
    match r {
        Err(p) => {
            rec.line(line, "panic");
            rec.panics.push(format!("{line} :: {p}"));
        }
        Ok(None) => rec.count("skipped(not runnable)"),
        Ok(Some((ans, bad))) => {
            rec.count(&format!("op:{}", t[0]));
            if let Some(a) = ans {
                rec.count(&format!("ans:{}:{}", t[0], a.split(' ').next().unwrap_or("")));
                rec.line(line, a);
            }
            if !bad.is_empty() {
                rec.oracle_fail_with(format!("{}: {}", t[0], bad.join("; ")), vec![line.to_string()]);
            }
        }
    }
}

// ------------------------------------------------------------------ generators

const MAX_INLINE_GUESS: usize = 22; // only steers the length distribution

fn gen_len(rng: &mut Rng) -> usize {
    match rng.below(12) {
        0 => rng.below(4) as usize,
        1..=4 => MAX_INLINE_GUESS - 3 + rng.below(7) as usize,
        5 => 6 + rng.below(5) as usize, // rkyv inline string boundary (8)
        6 => *rng.pick(&[254usize, 255, 256, 257, 278, 300]),
        7..=9 => rng.below(40) as usize,
        _ => rng.below(90) as usize,
    }
}

const TEXT_ALPHA: &[&str] = &["a", "Z", "0", "_", " ", "é", "漢", "😀", "\u{1}", "\u{7f}", "-", "z9", "\n"];

/// a string of exactly `n` bytes where possible (multi-byte characters may overshoot by < 4)
fn gen_text(rng: &mut Rng, n: usize, nul: bool) -> String {
    let mut s = String::new();
    while s.len() < n {
        s.push_str(*rng.pick(TEXT_ALPHA));
    }
    while s.len() > n && s.is_char_boundary(n) {
        s.truncate(n);
    }
    if nul && !s.is_empty() {
        let mut idx = rng.below(s.len() as u64) as usize;
        while !s.is_char_boundary(idx) {
            idx -= 1;
        }
        s.insert(idx, '\0');
        if rng.chance(1, 3) {
            s.push('\0');
        }
    }
    s
}

const ID_FIRST: &[u8] = b"abcxyzABCXYZ";
const ID_REST: &[u8] = b"abcxyzABCXYZ0123456789_";
const BAD_FIRST: &[&str] = &["0", "9", "_", " ", "\0", "é", "-", "@", "[", "`", "{", "\u{7f}", "漢"];
const BAD_REST: &[&str] = &["/", ":", "@", "[", "`", "{", "-", " ", "\0", "é", "\u{7f}", ".", "😀", "^"];

fn gen_ident(rng: &mut Rng, n: usize) -> String {
    let n = n.max(1);
    let mut s = String::new();
    s.push(*rng.pick(ID_FIRST) as char);
    while s.len() < n {
        s.push(*rng.pick(ID_REST) as char);
    }
    s
}

fn content_lines(s: &str) -> Vec<String> {
    let h = hex(s.as_bytes());
    let mut v = vec![
        format!("t.fromstr {h}"),
        format!("t.json {h}"),
        format!("t.postcard {h}"),
        format!("t.rkyv {h}"),
        format!("i.fromstr {h}"),
        format!("i.fromtext {h}"),
        format!("i.json {h}"),
        format!("i.postcard {h}"),
        format!("i.rkyv {h}"),
        format!("i.totext {h}"),
    ];
    if !s.as_bytes().contains(&0) {
        v.push(format!("t.cstr {h}"));
        v.push(format!("i.fromstatic {h}"));
    }
    v
}

fn main() {
    let args = Args::parse();
    vh::quiet_panics();
    let mut rec = Recorder::new(&args.out);
    if let Some(p) = &args.replay {
        for l in vh::read_replay_input(p) {
            rec.begin_case();
            exec(&mut rec, &l);
        }
        rec.finish(args.seed, &args.tier);
        return;
    }
    let mut rng = Rng::new(args.seed);
    // fixed: new, literals
    rec.begin_case();
    exec(&mut rec, "t.new");
    for (l, _) in LIT_TEXTS {
        exec(&mut rec, &format!("t.lit {}", hex(l.as_bytes())));
    }
    for (l, _) in LIT_IDENTS {
        exec(&mut rec, &format!("i.lit {}", hex(l.as_bytes())));
    }
    // every length 0..=40 and around 256, plain ASCII and identifier-shaped
    for n in (0..=40).chain([254, 255, 256, 257, 278]) {
        rec.begin_case();
        rec.count("case:length-sweep");
        let a: String = std::iter::repeat('q').take(n).collect();
        for l in content_lines(&a) {
            exec(&mut rec, &l);
        }
        rec.nontrivial(fnv(&a));
    }
    let n_cases = args.budget(900, 30000);
    let mut pool: Vec<String> = vec![];
    for k in 0..n_cases {
        rec.begin_case();
        let n = gen_len(&mut rng);
        let kind = rng.below(10);
        let s = match kind {
            0..=2 => {
                rec.count("case:text-valid");
                gen_text(&mut rng, n, false)
            }
            3 => {
                rec.count("case:text-with-nul");
                gen_text(&mut rng, n, true)
            }
            4..=5 => {
                rec.count("case:ident-valid");
                gen_ident(&mut rng, n)
            }
            6 => {
                rec.count("case:ident-bad-first");
                let mut s = gen_ident(&mut rng, n);
                s.replace_range(0..1, *rng.pick(BAD_FIRST));
                s
            }
            7..=8 => {
                rec.count("case:ident-bad-later");
                let mut s = gen_ident(&mut rng, n.max(2));
                let i = rng.range(1, s.len() as u64 - 1) as usize;
                s.replace_range(i..i + 1, *rng.pick(BAD_REST));
                if rng.chance(1, 4) {
                    s.push_str(*rng.pick(BAD_REST));
                }
                s
            }
            _ => {
                rec.count("case:ident-edge");
                rng.pick(&["", "a", "_", "a_", "A", "1a", "a1", "é", "aé", "a\0", "\0", "z".repeat(22).as_str(), "z".repeat(23).as_str()]).to_string()
            }
        };
        rec.count(&format!(
            "len:{}",
            match s.len() {
                0 => "0".to_string(),
                l if l + 3 >= MAX_INLINE_GUESS && l <= MAX_INLINE_GUESS + 3 => format!("{l}"),
                1..=8 => "1-8".into(),
                9..=18 => "9-18".into(),
                26..=253 => "26-253".into(),
                _ => "254+".into(),
            }
        ));
        rec.nontrivial(fnv(&s));
        if k < 3 {
            rec.sample(format!("content {:?} ({} bytes)", s, s.len()));
        }
        for l in content_lines(&s) {
            exec(&mut rec, &l);
        }
        // pairs: concatenation and comparison, with the previous contents
        if !pool.is_empty() {
            let other = rng.pick(&pool).clone();
            exec(&mut rec, &format!("t.add {} {}", hex(s.as_bytes()), hex(other.as_bytes())));
            exec(&mut rec, &format!("cmp {} {}", hex(s.as_bytes()), hex(other.as_bytes())));
            exec(&mut rec, &format!("cmp {} {}", hex(s.as_bytes()), hex(s.as_bytes())));
            // a prefix / a neighbour differing in the last byte: ordering edge cases
            if s.len() > 1 && s.is_char_boundary(s.len() - 1) {
                exec(&mut rec, &format!("cmp {} {}", hex(s.as_bytes()), hex(s[..s.len() - 1].as_bytes())));
                // concatenation across the inline boundary
                exec(&mut rec, &format!("t.add {} {}", hex(s[..s.len() - 1].as_bytes()), hex(s[s.len() - 1..].as_bytes())));
            }
        }
        if pool.len() < 64 {
            pool.push(s);
        } else {
            let i = rng.below(64) as usize;
            pool[i] = s;
        }
    }
    // raw byte strings (mostly invalid UTF-8) for the byte-level decoders
    for _ in 0..args.budget(400, 10000) {
        rec.begin_case();
        rec.count("case:raw-bytes");
        let n = gen_len(&mut rng).min(64);
        let mut b = if rng.chance(1, 2) { gen_text(&mut rng, n, false).into_bytes() } else { rng.bytes(n) };
        if !b.is_empty() && rng.chance(1, 2) {
            let i = rng.below(b.len() as u64) as usize;
            b[i] = *rng.pick(&[0x80u8, 0xbf, 0xc0, 0xc1, 0xe0, 0xed, 0xf4, 0xf5, 0xff, 0xa0]);
        }
        rec.nontrivial(fnv(&hex(&b)));
        let h = hex(&b);
        exec(&mut rec, &format!("t.postcard {h}"));
        exec(&mut rec, &format!("i.postcard {h}"));
        exec(&mut rec, &format!("t.rkyv {h}"));
        exec(&mut rec, &format!("i.rkyv {h}"));
        if !b.contains(&0) {
            exec(&mut rec, &format!("t.cstr {h}"));
        }
    }
    rec.finish(args.seed, &args.tier);
}
