//! C13 — reverting a perspective or a session to a checkpoint is exact.
//!
//! Part 1 (linear perspectives): random interleavings of insert / delete / add_command /
//! checkpoint / revert on REAL `LinearPerspective`s obtained through the public storage API
//! (`new_perspective`, `get_linear_perspective`), including the failed-rule pattern (checkpoint,
//! writes, revert at an equal command count), reverts across several commands, reverts to plain
//! indexes, out-of-range checkpoints; after reverting, the perspective is continued, written and
//! its segment re-read mid-segment, so stale pending updates would surface.
//! Part 2 (sessions): real `Session`s driven through `ClientState` with a script policy whose
//! actions / received commands write and then fail; `Session::action` / `receive` must leave the
//! session's observable state as it was.
//! Every request is also answered by the Lean model (`drv_c13`); the S-level oracle (flat map at
//! the checkpoint, command list, head address) is evaluated in `vh::factsworld` / `vh::sessworld`.

use vh::factsworld::{self, show_key, KeyPool};
use vh::sessworld::{self, gen_script, observe_all, SESS_OPS};
use vh::{fnv, hex, Args, Recorder, Rng};

fn run_case(rec: &mut Recorder, ops: &[String]) {
    let mut w = factsworld::World::new();
    let mut sw = sessworld::SWorld::new();
    for op in ops {
        let opc = op.clone();
        let nfail = rec.oracle_failures.len();
        let is_sess = SESS_OPS.contains(&op.split(' ').next().unwrap_or(""));
        let r = vh::catch(std::panic::AssertUnwindSafe(|| {
            if is_sess {
                sessworld::exec_sess(&mut sw, rec, &opc)
            } else {
                factsworld::exec(&mut w, rec, &opc)
            }
        }));
        match r {
            Ok(ans) => {
                rec.line(op.clone(), ans);
                let lines = rec.current_case_lines();
                for f in rec.oracle_failures[nfail..].iter_mut() {
                    f.input = lines.clone();
                }
            }
            Err(msg) => {
                rec.line(op.clone(), format!("panic {msg}"));
                rec.panics.push(format!("`{op}` panicked: {msg}"));
                rec.oracle_fail(format!("`{op}` panicked in the real code: {msg}"));
                return;
            }
        }
    }
}

// ------------------------------------------------------------------ part 1: perspectives

struct G<'a> {
    rng: &'a mut Rng,
    pool: KeyPool,
    ops: Vec<String>,
    /// model of the current perspective: number of commands, pending?, recorded checkpoints
    ncmds: usize,
    pending: bool,
    ckpts: Vec<usize>,
}

impl G<'_> {
    fn push(&mut self, s: impl Into<String>) {
        self.ops.push(s.into());
    }
    fn mutate(&mut self) {
        let k = self.pool.key(self.rng);
        if self.rng.chance(3, 5) {
            let v = KeyPool::val(self.rng);
            self.push(format!("ins {} {}", show_key(&k), hex(&v)));
        } else {
            self.push(format!("del {}", show_key(&k)));
        }
        self.pending = true;
    }
    fn query(&mut self) {
        if self.rng.chance(1, 2) {
            let k = self.pool.key(self.rng);
            self.push(format!("q {}", show_key(&k)));
        } else {
            let k = self.pool.prefix(self.rng);
            self.push(format!("qp {}", show_key(&k)));
        }
    }
    fn cmd(&mut self) {
        self.push("cmd");
        self.ncmds += 1;
        self.pending = false;
    }
    fn ckpt(&mut self) {
        self.push("ckpt");
        self.ckpts.push(self.ncmds);
    }
    fn revert(&mut self, n: usize) {
        self.push(format!("revert {n}"));
        if n <= self.ncmds {
            if !(n == self.ncmds && !self.pending) {
                self.pending = false;
            }
            self.ncmds = n;
            self.ckpts.retain(|c| *c <= n);
        }
    }
    /// a random interleaving on the current perspective, ending on a command boundary with at
    /// least one command
    fn interleave(&mut self, steps: u64) {
        for _ in 0..steps {
            match self.rng.below(100) {
                0..=29 => self.mutate(),
                30..=44 => {
                    // a successful rule: its writes become a command
                    let n = self.rng.below(3);
                    for _ in 0..n {
                        self.mutate();
                    }
                    self.cmd();
                }
                45..=59 => {
                    // a rule that writes and then fails: checkpoint, writes, revert
                    if self.pending {
                        self.cmd();
                    }
                    self.ckpt();
                    let n = self.rng.range(1, 3);
                    for _ in 0..n {
                        self.mutate();
                        if self.rng.chance(1, 3) {
                            self.query();
                        }
                    }
                    let c = self.ncmds;
                    self.revert(c);
                    self.query();
                }
                60..=69 => {
                    // checkpoint on a command boundary (rarely with a write pending)
                    if self.pending && !self.rng.chance(1, 8) {
                        self.cmd();
                    }
                    self.ckpt();
                }
                70..=81 => {
                    // revert to a recorded checkpoint (possibly several commands back)
                    if let Some(&c) = self.ckpts.get(self.rng.below(self.ckpts.len().max(1) as u64) as usize) {
                        self.revert(c);
                        self.query();
                    }
                }
                82..=86 => {
                    // revert to a plain index
                    let n = self.rng.below(self.ncmds as u64 + 1) as usize;
                    self.revert(n);
                }
                87 => {
                    let n = self.ncmds + 1 + self.rng.below(3) as usize;
                    self.revert(n); // beyond the command list: a Bug error
                }
                88..=91 => self.push("cmds"),
                _ => self.query(),
            }
        }
        if self.pending || self.ncmds == 0 {
            self.cmd();
        }
        self.push("cmds");
    }
}

fn gen_persp_case(rng: &mut Rng, thorough: bool) -> Vec<String> {
    let pool = KeyPool::new(rng);
    let mut g = G { rng, pool, ops: vec![], ncmds: 0, pending: false, ckpts: vec![] };
    g.push("new");
    let steps = g.rng.range(3, 12);
    g.interleave(steps);
    g.push("create");
    let mut segs: Vec<usize> = vec![g.ncmds];
    let nseg = g.rng.range(1, if thorough { 10 } else { 5 });
    for _ in 0..nseg {
        let s = if g.rng.chance(2, 3) { segs.len() - 1 } else { g.rng.below(segs.len() as u64) as usize };
        let i = if g.rng.chance(1, 2) { segs[s] - 1 } else { g.rng.below(segs[s] as u64) as usize };
        g.push(format!("lp {s} {i}"));
        g.ncmds = 0;
        g.pending = false;
        g.ckpts.clear();
        let steps = g.rng.range(3, if thorough { 30 } else { 16 });
        g.interleave(steps);
        g.push("write");
        segs.push(g.ncmds);
        let s = segs.len() - 1;
        // the segment and every command boundary inside it
        for k in g.pool.keys.clone().iter().take(4) {
            g.push(format!("sq {s} {}", show_key(k)));
        }
        let names: Vec<Vec<u8>> = {
            let mut n: Vec<Vec<u8>> = g.pool.keys.iter().map(|k| k.0.clone()).collect();
            n.sort();
            n.dedup();
            n
        };
        for i in 0..segs[s] {
            g.push(format!("fp {s} {i}"));
            for nm in &names {
                g.push(format!("fqp {}", show_key(&(nm.clone(), vec![]))));
            }
        }
        g.push(format!("sdump {s}"));
    }
    g.ops
}

// ------------------------------------------------------------------ part 2: sessions

fn gen_sess_case(rng: &mut Rng, thorough: bool) -> Vec<String> {
    let pool = KeyPool::new(rng);
    let mut ops: Vec<String> = vec!["snew".into()];
    let n = rng.range(0, 5);
    ops.push(format!("graph {}", gen_script(rng, &pool, n, false, true)));
    let nact = rng.range(0, if thorough { 20 } else { 6 });
    for _ in 0..nact {
        let n = rng.range(1, 5);
        let fail = rng.chance(1, 5);
        ops.push(format!("act {}", gen_script(rng, &pool, n, fail, true)));
    }
    ops.push("gdump".into());
    let nsess = rng.range(1, 3);
    for s in 0..nsess {
        ops.push("sess".into());
        let ncalls = rng.range(2, if thorough { 16 } else { 8 });
        for _ in 0..ncalls {
            let kind = if rng.chance(1, 3) { "srecv" } else { "sact" };
            let fail = rng.chance(2, 5);
            let n = rng.range(1, 6);
            let publish = kind == "sact" && rng.chance(1, 2);
            ops.push(format!("{kind} {s} {}", gen_script(rng, &pool, n, fail, publish)));
            if fail || rng.chance(1, 3) {
                // the session's whole observable state right after a (failed) call
                ops.push(format!("sact {s} {}", observe_all(&pool)));
            }
        }
    }
    ops.push("gdump".into());
    ops
}

fn main() {
    let args = Args::parse();
    vh::quiet_panics();
    let mut rec = Recorder::new(&args.out);
    if let Some(p) = &args.replay {
        let ops = vh::read_replay_input(p);
        rec.begin_case();
        run_case(&mut rec, &ops);
        rec.finish(args.seed, &args.tier);
        return;
    }
    let mut rng = Rng::new(args.seed);
    let thorough = args.thorough() || args.search;
    let cases = args.budget(500, 8000);
    for c in 0..cases {
        let sess = c % 3 == 2;
        let ops = if sess { gen_sess_case(&mut rng, thorough) } else { gen_persp_case(&mut rng, thorough) };
        rec.begin_case();
        rec.count(if sess { "case:session" } else { "case:perspective" });
        for o in &ops {
            let t = o.split(' ').next().unwrap();
            rec.count(&format!("op:{t}"));
            if (t == "sact" || t == "srecv" || t == "act") && o.contains("fail") {
                rec.count(&format!("{t}:failing"));
            }
        }
        rec.count_n("ops", ops.len() as u64);
        let reverts = ops.iter().filter(|o| o.starts_with("revert") || o.contains("fail")).count();
        if reverts >= 1 {
            rec.nontrivial(fnv(&ops.join(";")));
        }
        if rec.cases() <= 3 {
            rec.sample(ops.iter().take(40).cloned().collect::<Vec<_>>().join("; "));
        }
        run_case(&mut rec, &ops);
    }
    rec.finish(args.seed, &args.tier);
}
