//! C18 — sync message decoding and processing never panics, never reads beyond the received
//! bytes, and the requester only accepts commands of its own session, in sequence.
//!
//! Real code: `SyncIncoming::decode`, `SyncRequester::{new, new_session_id, receive,
//! receive_push, poll, ready}`, `SyncResponder::{new, receive, ready, poll}` (provider without
//! the graph).  Request lines: see lean/Driver/C18.lean.
//!
//! S-level oracle (independent of the Lean model): no panic; every `policy`/`data` slice handed
//! out by the requester lies inside the received buffer, after the message header, in order and
//! contiguous, with the announced lengths; commands are only returned for a `SyncResponse` whose
//! session id is the requester's and whose index is the number of responses accepted so far
//! (the message is re-decoded with the harness's own serde mirror of the wire types).

use aranya_crypto::Csprng;
use aranya_runtime::{
    storage::linear::testing::MemStorageProvider, Address, CmdId, Command, GraphId, MaxCut, PeerCache, Prior, Priority,
    SyncError, SyncIncoming, SyncHello, SyncRequester, SyncResponder, TraversalBuffer, TraversalBuffers,
    MAX_SYNC_MESSAGE_SIZE, PEER_HEAD_MAX,
};
use serde::{Deserialize, Serialize};
use std::time::Duration;
use vh::{
    fnv,
    gk::{self, KCmd, MemProvider, Replica},
    hex, unhex, Args, Recorder, Rng,
};

// ------------------------------------------------------------------ serde mirror of the wire types
// (field and variant order as in sync/{wire,requester,responder}.rs; std Vec instead of
// heapless::Vec so that over-long vectors can be produced)

#[derive(Serialize, Deserialize, Debug, Clone)]
struct MMeta {
    id: CmdId,
    priority: Priority,
    parent: Prior<Address>,
    policy_length: u32,
    length: u32,
}

#[derive(Serialize, Deserialize, Debug, Clone)]
enum MReq {
    SyncRequest { session_id: u128, graph_id: GraphId, max_bytes: u64, commands: Vec<Address> },
    RequestMissing { session_id: u128, indexes: Vec<u64> },
    SyncResume { session_id: u128, response_index: u64, max_bytes: u64 },
    EndSession { session_id: u128 },
}

#[derive(Serialize, Deserialize, Debug, Clone)]
enum MResp {
    SyncResponse { session_id: u128, response_index: u64, commands: Vec<MMeta> },
    SyncEnd { session_id: u128, max_index: u64, remaining: bool },
    Offer { session_id: u128, head: CmdId },
    EndSession { session_id: u128 },
}

impl MResp {
    fn session(&self) -> u128 {
        match self {
            MResp::SyncResponse { session_id, .. }
            | MResp::SyncEnd { session_id, .. }
            | MResp::Offer { session_id, .. }
            | MResp::EndSession { session_id } => *session_id,
        }
    }
}

#[derive(Serialize, Deserialize, Debug, Clone)]
enum MHello {
    Subscribe { graph_id: GraphId, graph_change_delay: Duration, duration: Duration, schedule_delay: Duration },
    Unsubscribe { graph_id: GraphId },
    Hello { graph_id: GraphId, head: Address },
}

#[derive(Serialize, Deserialize, Debug, Clone)]
enum MSyncType {
    Poll { request: MReq },
    Subscribe { remain_open: u64, max_bytes: u64, commands: Vec<Address>, graph_id: GraphId },
    Unsubscribe { graph_id: GraphId },
    Push { message: MResp, graph_id: GraphId },
    Hello(MHello),
}

fn pc<T: Serialize>(v: &T) -> Vec<u8> {
    postcard::to_allocvec(v).expect("serialize mirror")
}

struct FixedRng(u128);
impl Csprng for FixedRng {
    fn fill_bytes(&self, dst: &mut [u8]) {
        let b = self.0.to_le_bytes();
        for (i, d) in dst.iter_mut().enumerate() {
            *d = b[i % 16];
        }
    }
}

// ------------------------------------------------------------------ canonical rendering

fn show_addr(a: &Address) -> String {
    format!("{}:{}", hex(a.id.as_bytes()), a.max_cut)
}

fn show_priority(p: &Priority) -> String {
    match p {
        Priority::Merge => "merge".into(),
        Priority::Basic(n) => format!("basic:{n}"),
        Priority::Finalize => "finalize".into(),
        Priority::Init => "init".into(),
    }
}

fn show_prior(p: &Prior<Address>) -> String {
    match p {
        Prior::None => "none".into(),
        Prior::Single(a) => format!("single:{}", show_addr(a)),
        Prior::Merge(a, b) => format!("merge:{}:{}", show_addr(a), show_addr(b)),
    }
}

fn show_err(e: &SyncError) -> String {
    match e {
        SyncError::SessionMismatch => "err SessionMismatch".into(),
        SyncError::MissingSyncResponse => "err MissingSyncResponse".into(),
        SyncError::SessionState => "err SessionState".into(),
        SyncError::NotReady => "err NotReady".into(),
        SyncError::CommandOverflow => "err CommandOverflow".into(),
        SyncError::BufferTooSmall => "err BufferTooSmall".into(),
        SyncError::MalformedResponse => "err MalformedResponse".into(),
        SyncError::UnsupportedRequest => "err UnsupportedRequest".into(),
        SyncError::Storage(_) => "err Storage".into(),
        SyncError::Serialize(p) => format!("err Serialize {p:?}"),
        SyncError::Bug(_) => "err Bug".into(),
        other => format!("err other:{other:?}"),
    }
}

fn show_dur(d: Duration) -> String {
    format!("{}.{}", d.as_secs(), d.subsec_nanos())
}

fn show_incoming(i: &SyncIncoming<'_>) -> String {
    match i {
        SyncIncoming::Poll(p) => format!("ok poll {}", p.session_id()),
        SyncIncoming::Subscribe(s) => {
            let mut o = format!(
                "ok subscribe {} {} {} {}",
                hex(s.graph_id().as_bytes()),
                s.remain_open().as_secs(),
                s.max_bytes(),
                s.heads().as_slice().len()
            );
            for a in s.heads().iter() {
                o.push(' ');
                o.push_str(&show_addr(&a));
            }
            o
        }
        SyncIncoming::Unsubscribe(u) => format!("ok unsubscribe {}", hex(u.graph_id().as_bytes())),
        SyncIncoming::Push(p) => format!("ok push {} {}", hex(p.graph_id().as_bytes()), p.session_id()),
        SyncIncoming::Hello(h) => match h {
            SyncHello::Subscribe(s) => format!(
                "ok hello sub {} {} {} {}",
                hex(s.graph_id().as_bytes()),
                show_dur(s.graph_change_delay()),
                show_dur(s.duration()),
                show_dur(s.schedule_delay())
            ),
            SyncHello::Unsubscribe(u) => format!("ok hello unsub {}", hex(u.graph_id().as_bytes())),
            SyncHello::Hello(n) => format!("ok hello hello {} {}", hex(n.graph_id().as_bytes()), show_addr(&n.head())),
        },
    }
}

// ------------------------------------------------------------------ running a case

struct World {
    rq: SyncRequester,
    rq_session: u128,
    /// number of `SyncResponse`s that passed the requester's session/state/index checks since it
    /// was created (oracle's own count: results `Ok(Some(_))` and `Err(MalformedResponse)` — the
    /// requester consumes the index before it slices the command bytes)
    rq_accepted: u64,
    rs: SyncResponder,
    provider: MemStorageProvider,
    /// graph world (`world` line): responder-side replica holding the whole graph, requester-side
    /// replica holding a prefix of it
    a: Option<Replica<MemProvider>>,
    b: Option<Replica<MemProvider>>,
    b_trx: Option<gk::Trx<MemProvider>>,
    /// every address of the world graph
    addrs: Vec<Address>,
    resp_cache: PeerCache,
    /// bytes written by the last successful poll/push (for piping into the other side)
    last_out: Vec<u8>,
    /// commands returned by the requester's last accepted response
    last_cmds: Vec<KCmd>,
    buf: Vec<u8>,
}

impl World {
    fn new() -> Self {
        World {
            rq: SyncRequester::new_session_id(GraphId::default(), 0),
            rq_session: 0,
            rq_accepted: 0,
            rs: SyncResponder::new(),
            provider: MemStorageProvider::default(),
            a: None,
            b: None,
            b_trx: None,
            addrs: vec![],
            resp_cache: PeerCache::new(),
            last_out: vec![],
            last_cmds: vec![],
            buf: vec![0u8; MAX_SYNC_MESSAGE_SIZE],
        }
    }
}

/// The world graph for `(seed, nodes)`: check-free bodies (nothing is ever rejected).
fn world_cmds(seed: u64, nodes: usize) -> Vec<KCmd> {
    let mut rng = Rng::new(seed);
    let p = gk::DagParams { max_nodes: nodes.max(2), check_pct: 0, finalize_pct: 3, ..Default::default() };
    let mut d = gk::gen_dag(&mut rng, &p);
    // gen_dag draws the size; grow it to exactly `nodes` with a chain on the last node
    while d.nodes.len() < nodes {
        let k = d.nodes.len() - 1;
        d.nodes.push(gk::Node { parents: vec![k], prio: Priority::Basic(1), body: vec![] });
    }
    gk::realize(&d, seed)
}

fn build_replica(cmds: &[KCmd], graph: GraphId) -> Replica<MemProvider> {
    let mut r = gk::mem_replica(graph);
    if !cmds.is_empty() {
        let mut trx = r.transaction();
        r.add(&mut trx, cmds).expect("world graph: add_commands");
        r.commit(trx).expect("world graph: commit");
    }
    r
}

fn graph_of(h: &str) -> GraphId {
    let b = unhex(h).expect("graph hex");
    if b.is_empty() {
        GraphId::default()
    } else {
        GraphId::from_bytes(<[u8; 32]>::try_from(b.as_slice()).expect("graph id of 32 bytes"))
    }
}

/// oracle for the commands returned by the requester for the buffer `buf`
fn check_commands(
    line: &str,
    buf: &[u8],
    header: Option<(usize, &MResp)>,
    cmds: &[(Option<&[u8]>, &[u8])],
    w_session: u128,
    w_accepted: u64,
) -> (Vec<String>, bool) {
    let mut fails: Vec<String> = vec![];
    let mut unjudged = false;
    let lo = buf.as_ptr() as usize;
    let hi = lo + buf.len();
    // (a) every slice inside the received bytes, in order, contiguous
    let mut cursor: Option<usize> = header.map(|(consumed, _)| lo + consumed);
    for (k, (pol, data)) in cmds.iter().enumerate() {
        for (what, s) in [("policy", *pol), ("data", Some(*data))] {
            let Some(s) = s else { continue };
            let (a, b) = (s.as_ptr() as usize, s.as_ptr() as usize + s.len());
            if a < lo || b > hi {
                fails.push(format!("`{line}`: command {k} {what} slice [{a:#x},{b:#x}) lies outside the received buffer [{lo:#x},{hi:#x})"));
                return (fails, unjudged);
            }
            if let Some(c) = cursor {
                if a != c && !s.is_empty() {
                    fails.push(format!(
                        "`{line}`: command {k} {what} slice starts at offset {} but the previous slice/header ended at {}",
                        a - lo,
                        c - lo
                    ));
                    return (fails, unjudged);
                }
            }
            if !s.is_empty() || cursor.is_none() {
                cursor = Some(b);
            }
        }
    }
    // (b) session and sequence, (c) announced lengths
    match header {
        None => unjudged = true,
        Some((_, MResp::SyncResponse { session_id, response_index, commands })) => {
            if *session_id != w_session {
                fails.push(format!("`{line}`: commands accepted for session {session_id}, the requester's session is {w_session}"));
            }
            if *response_index != w_accepted {
                fails.push(format!(
                    "`{line}`: commands accepted out of sequence: response_index {response_index}, but {w_accepted} in-sequence responses were seen so far"
                ));
            }
            if commands.len() != cmds.len() {
                fails.push(format!("`{line}`: {} commands announced, {} returned", commands.len(), cmds.len()));
            } else {
                for (k, (m, (pol, data))) in commands.iter().zip(cmds).enumerate() {
                    let pl = pol.map_or(0, |p| p.len());
                    if pl != m.policy_length as usize || data.len() != m.length as usize || (m.policy_length == 0) != pol.is_none() {
                        fails.push(format!(
                            "`{line}`: command {k}: announced policy_length={} length={}, returned {} / {}",
                            m.policy_length,
                            m.length,
                            pl,
                            data.len()
                        ));
                    }
                }
            }
        }
        Some((_, other)) => fails.push(format!("`{line}`: commands returned for a message that is not a SyncResponse: {other:?}")),
    }
    (fails, unjudged)
}

fn run_case(rec: &mut Recorder, lines: &[String]) {
    let mut w = World::new();
    for line in lines {
        exec_line(&mut w, rec, line);
    }
}

/// Execute one request line against the real code and record it with the real answer.  For
/// `rs poll` / `rs push` the recorded request carries the one bit the model takes from storage
/// (was a `SyncResponse` / a non-empty push produced), observed here.
fn exec_line(w: &mut World, rec: &mut Recorder, line_in: &str) {
    let line = &line_in.to_string();
    {
        let t: Vec<&str> = line.split(' ').filter(|s| !s.is_empty()).collect();
        match t.as_slice() {
            ["decode", h] => {
                let buf = unhex(h).expect("hex");
                let r = vh::catch(std::panic::AssertUnwindSafe(|| SyncIncoming::decode(&buf).map(|i| show_incoming(&i))));
                match r {
                    Err(p) => {
                        rec.line(line.clone(), "panic");
                        rec.panics.push(format!("SyncIncoming::decode panicked ({p}) on `{line}`"));
                    }
                    Ok(Ok(s)) => {
                        rec.count(&format!("decode:{}", s.split(' ').nth(1).unwrap_or("?")));
                        rec.line(line.clone(), s);
                    }
                    Ok(Err(e)) => {
                        let s = show_err(&e);
                        rec.count(&format!("decode:{}", s.split(' ').last().unwrap_or("?")));
                        rec.line(line.clone(), s);
                    }
                }
            }
            ["rq", "new", g, s] | ["rq", "newsid", g, s] => {
                let sid: u128 = s.parse().expect("session");
                w.rq = if t[1] == "new" {
                    SyncRequester::new(graph_of(g), FixedRng(sid))
                } else {
                    SyncRequester::new_session_id(graph_of(g), sid)
                };
                w.rq_session = sid;
                w.rq_accepted = 0;
                w.last_cmds.clear();
                rec.line(line.clone(), "ok");
            }
            ["rq", op @ ("recv" | "push"), h] => {
                let buf = unhex(h).expect("hex");
                // the oracle's own view of the message (None if the mirror cannot decode it)
                let (header, mresp): (Option<usize>, Option<MResp>) = if *op == "recv" {
                    match postcard::take_from_bytes::<MResp>(&buf) {
                        Ok((m, rest)) => (Some(buf.len() - rest.len()), Some(m)),
                        Err(_) => (None, None),
                    }
                } else {
                    match postcard::take_from_bytes::<MSyncType>(&buf) {
                        Ok((MSyncType::Push { message, .. }, rest)) => (Some(buf.len() - rest.len()), Some(message)),
                        _ => (None, None),
                    }
                };
                let (sess, acc) = (w.rq_session, w.rq_accepted);
                let rq = &mut w.rq;
                let mut accepted = false;
                let mut fails: Vec<String> = vec![];
                let mut got: Vec<KCmd> = vec![];
                let out = vh::catch(std::panic::AssertUnwindSafe(|| {
                    let res = if *op == "recv" {
                        rq.receive(&buf)
                    } else {
                        match SyncIncoming::decode(&buf) {
                            Err(e) => return show_err(&e),
                            Ok(SyncIncoming::Push(p)) => rq.receive_push(p),
                            Ok(_) => return "notpush".to_string(),
                        }
                    };
                    match res {
                        Err(e) => {
                            if matches!(e, SyncError::MalformedResponse) {
                                accepted = true;
                            }
                            show_err(&e)
                        }
                        Ok(None) => {
                            if let Some(m) = &mresp {
                                if m.session() != sess {
                                    fails.push(format!("message of session {} processed by a requester of session {sess}", m.session()));
                                }
                            }
                            "ok none".to_string()
                        }
                        Ok(Some(cmds)) => {
                            accepted = true;
                            let mut o = format!("ok cmds {}", cmds.len());
                            let mut parts: Vec<(Option<&[u8]>, &[u8])> = vec![];
                            for c in cmds.iter() {
                                o.push_str(&format!(
                                    " {} {} {} {} {}",
                                    hex(c.id().as_bytes()),
                                    show_priority(&c.priority()),
                                    show_prior(&c.parent()),
                                    c.policy().map_or("none".to_string(), hex),
                                    hex(c.bytes())
                                ));
                                parts.push((c.policy(), c.bytes()));
                                got.push(KCmd {
                                    id: c.id(),
                                    parent: c.parent(),
                                    prio: c.priority(),
                                    policy: c.policy().map(|p| p.to_vec()),
                                    data: c.bytes().to_vec(),
                                });
                            }
                            let hdr = header.zip(mresp.as_ref());
                            let (f, unjudged) = check_commands(line, &buf, hdr, &parts, sess, acc);
                            fails.extend(f);
                            if unjudged {
                                fails.push("#count oracle:unjudged-accept".to_string());
                            }
                            o
                        }
                    }
                }));
                match out {
                    Err(p) => {
                        rec.line(line.clone(), "panic");
                        rec.panics.push(format!("requester panicked ({p}) on `{line}`"));
                    }
                    Ok(s) => {
                        rec.count(&format!("rq-{op}:{}", s.split(' ').take(2).collect::<Vec<_>>().join("-")));
                        rec.line(line.clone(), s);
                    }
                }
                for f in fails {
                    if let Some(k) = f.strip_prefix("#count ") {
                        rec.count(k);
                    } else {
                        rec.oracle_fail(f);
                    }
                }
                if accepted {
                    w.rq_accepted += 1;
                }
                if !got.is_empty() {
                    w.last_cmds = got;
                }
            }
            ["rq", "poll"] => {
                let mut target = vec![0u8; 4096];
                let cache = PeerCache::new();
                let mut tb = TraversalBuffer::new();
                let (rq, provider) = (&mut w.rq, &mut w.provider);
                let r = vh::catch(std::panic::AssertUnwindSafe(|| rq.poll(&mut target, provider, &cache.session_heads(), &mut tb)));
                let s = match r {
                    Err(p) => {
                        rec.panics.push(format!("SyncRequester::poll panicked ({p})"));
                        "panic".to_string()
                    }
                    Ok(Ok((n, _sent))) => format!("ok {}", hex(&target[..n])),
                    Ok(Err(e)) => show_err(&e),
                };
                rec.count(&format!("rq-poll:{}", if s.starts_with("ok") { "ok" } else { s.split(' ').last().unwrap_or("?") }));
                rec.line(line.clone(), s);
            }
            ["rq", "ready"] => rec.line(line.clone(), (w.rq.ready() as u8).to_string()),
            ["rs", "new"] => {
                w.rs = SyncResponder::new();
                rec.line(line.clone(), "ok");
            }
            ["rs", "recv", h] => {
                let buf = unhex(h).expect("hex");
                let rs = &mut w.rs;
                let r = vh::catch(std::panic::AssertUnwindSafe(|| match SyncIncoming::decode(&buf) {
                    Err(e) => show_err(&e),
                    Ok(SyncIncoming::Poll(p)) => match rs.receive(p) {
                        Ok(()) => "ok".to_string(),
                        Err(e) => show_err(&e),
                    },
                    Ok(_) => "notpoll".to_string(),
                }));
                let s = match r {
                    Err(p) => {
                        rec.panics.push(format!("SyncResponder::receive panicked ({p}) on `{line}`"));
                        "panic".to_string()
                    }
                    Ok(s) => s,
                };
                rec.count(&format!("rs-recv:{}", s.split(' ').last().unwrap_or("?")));
                rec.line(line.clone(), s);
            }
            ["rs", "ready"] => rec.line(line.clone(), (w.rs.ready() as u8).to_string()),
            ["rs", "poll"] | ["rs", "poll", _] | ["rs", "push", _] => {
                let is_push = t[1] == "push";
                let mut tb = TraversalBuffers::new();
                let rs = &mut w.rs;
                let cache = &mut w.resp_cache;
                let target = &mut w.buf;
                let provider: &mut MemStorageProvider = match &mut w.a {
                    Some(a) => a.client.provider(),
                    None => &mut w.provider,
                };
                let r = vh::catch(std::panic::AssertUnwindSafe(|| {
                    if is_push {
                        rs.push(target, provider, &mut tb)
                    } else {
                        rs.poll(target, provider, cache, &mut tb)
                    }
                }));
                let mut hint = false;
                let s = match r {
                    Err(p) => {
                        rec.panics.push(format!("SyncResponder::{} panicked ({p})", t[1]));
                        "panic".to_string()
                    }
                    Ok(Ok(n)) => {
                        w.last_out = w.buf[..n].to_vec();
                        if is_push {
                            match postcard::take_from_bytes::<MSyncType>(&w.last_out) {
                                _ if n == 0 => "ok empty".to_string(),
                                Ok((MSyncType::Push { message: MResp::SyncResponse { session_id, response_index, commands }, .. }, _)) => {
                                    hint = true;
                                    if commands.is_empty() {
                                        rec.oracle_fail(format!("`{line}`: push message without commands"));
                                    }
                                    format!("ok push {session_id} {response_index}")
                                }
                                _ => format!("ok {}", hex(&w.last_out)),
                            }
                        } else {
                            match postcard::take_from_bytes::<MResp>(&w.last_out) {
                                Ok((MResp::SyncResponse { session_id, response_index, commands }, _)) => {
                                    hint = true;
                                    if commands.is_empty() {
                                        rec.oracle_fail(format!("`{line}`: SyncResponse without commands"));
                                    }
                                    format!("ok resp {session_id} {response_index}")
                                }
                                _ => format!("ok {}", hex(&w.last_out)),
                            }
                        }
                    }
                    Ok(Err(e)) => show_err(&e),
                };
                // peer cache stays a subset of the graph, bounded
                if w.resp_cache.heads().len() > PEER_HEAD_MAX {
                    rec.oracle_fail(format!("`{line}`: peer cache holds {} heads", w.resp_cache.heads().len()));
                }
                for h in w.resp_cache.heads() {
                    if !w.addrs.iter().any(|a| a.id == h.id && a.max_cut == h.max_cut) {
                        rec.oracle_fail(format!("`{line}`: peer cache records {} which is not a command of the graph", show_addr(&h.address())));
                    }
                }
                rec.count(&format!(
                    "rs-{}:{}",
                    t[1],
                    if s.starts_with("ok") {
                        match s.split(' ').nth(1) {
                            Some(x @ ("resp" | "push" | "empty")) => x,
                            _ => "msg",
                        }
                    } else {
                        s.split(' ').last().unwrap_or("?")
                    }
                ));
                let req = if is_push {
                    format!("rs push {}", hint as u8)
                } else if hint {
                    "rs poll 1".to_string()
                } else {
                    "rs poll".to_string()
                };
                rec.line(req, s);
            }
            ["world", "none"] => {
                w.a = None;
                w.b = None;
                w.b_trx = None;
                w.addrs.clear();
                w.resp_cache = PeerCache::new();
                rec.line(line.clone(), "ok");
            }
            ["world", seed, nodes, prefix, g] => {
                let (seed, nodes, prefix): (u64, usize, usize) =
                    (seed.parse().expect("seed"), nodes.parse().expect("nodes"), prefix.parse().expect("prefix"));
                let cmds = world_cmds(seed, nodes);
                let graph = gk::graph_id_of(&cmds[0]);
                w.addrs = cmds.iter().map(|c| c.address()).collect();
                w.a = Some(build_replica(&cmds, graph));
                w.b = Some(build_replica(&cmds[..prefix.min(cmds.len())], graph));
                w.b_trx = None;
                w.resp_cache = PeerCache::new();
                rec.line(line.clone(), if hex(graph.as_bytes()) == *g { "ok" } else { "graph-mismatch" });
            }
            ["gheads", h] => {
                // what a transport does with the heads of a subscribe / hello: record them
                let buf = unhex(h).expect("hex");
                let cache = &mut w.resp_cache;
                let a = &mut w.a;
                let r = vh::catch(std::panic::AssertUnwindSafe(|| {
                    let heads: Vec<Address> = match SyncIncoming::decode(&buf) {
                        Err(e) => return show_err(&e),
                        Ok(SyncIncoming::Subscribe(s)) => s.heads().iter().collect(),
                        Ok(SyncIncoming::Hello(SyncHello::Hello(n))) => vec![n.head()],
                        Ok(_) => vec![],
                    };
                    if let Some(a) = a {
                        let graph = a.graph;
                        let mut tb = TraversalBuffer::new();
                        if let Ok(storage) = aranya_runtime::StorageProvider::get_storage(a.client.provider(), graph) {
                            for h in heads {
                                let _ = cache.add_command(storage, h, &mut tb);
                            }
                        }
                    }
                    "ok".to_string()
                }));
                let s = match r {
                    Err(p) => {
                        rec.panics.push(format!("PeerCache::add_command / decode panicked ({p}) on `{line}`"));
                        "panic".to_string()
                    }
                    Ok(s) => s,
                };
                if w.resp_cache.heads().len() > PEER_HEAD_MAX {
                    rec.oracle_fail(format!("`{line}`: peer cache holds {} heads", w.resp_cache.heads().len()));
                }
                for h in w.resp_cache.heads() {
                    if !w.addrs.iter().any(|a| a.id == h.id && a.max_cut == h.max_cut) {
                        rec.oracle_fail(format!("`{line}`: peer cache records {} which is not a command of the graph", show_addr(&h.address())));
                    }
                }
                rec.count(&format!("gheads:{}", s.split(' ').last().unwrap_or("?")));
                rec.line(line.clone(), s);
            }
            ["rq", "gpoll"] => {
                let cache = PeerCache::new();
                let mut tb = TraversalBuffer::new();
                let rq = &mut w.rq;
                let target = &mut w.buf;
                let provider: &mut MemStorageProvider = match &mut w.b {
                    Some(b) => b.client.provider(),
                    None => &mut w.provider,
                };
                let r = vh::catch(std::panic::AssertUnwindSafe(|| rq.poll(target, provider, &cache.session_heads(), &mut tb)));
                let s = match r {
                    Err(p) => {
                        rec.panics.push(format!("SyncRequester::poll panicked ({p})"));
                        "panic".to_string()
                    }
                    Ok(Ok((n, _sent))) => {
                        w.last_out = w.buf[..n].to_vec();
                        match postcard::take_from_bytes::<MSyncType>(&w.last_out) {
                            Ok((MSyncType::Poll { request: MReq::SyncRequest { session_id, commands, .. } }, _)) => {
                                if session_id != w.rq_session {
                                    rec.oracle_fail(format!("requester of session {} polls with session {session_id}", w.rq_session));
                                }
                                for c in &commands {
                                    if !w.addrs.iter().any(|a| a == c) {
                                        rec.oracle_fail(format!("requester sample contains {} which is not in its graph", show_addr(c)));
                                    }
                                }
                                "ok request".to_string()
                            }
                            _ => format!("ok {}", hex(&w.last_out)),
                        }
                    }
                    Ok(Err(e)) => show_err(&e),
                };
                rec.count(&format!("rq-gpoll:{}", if s.starts_with("ok") { "ok" } else { s.split(' ').last().unwrap_or("?") }));
                rec.line(line.clone(), s);
            }
            ["rq", "gsub"] => {
                // SyncRequester::subscribe / unsubscribe with real storage: what they write must decode
                let cache = PeerCache::new();
                let mut tb = TraversalBuffer::new();
                let rq = &mut w.rq;
                let target = &mut w.buf;
                let provider: &mut MemStorageProvider = match &mut w.b {
                    Some(b) => b.client.provider(),
                    None => &mut w.provider,
                };
                let r = vh::catch(std::panic::AssertUnwindSafe(|| {
                    let n = rq.subscribe(target, provider, &cache.session_heads(), 7, 9, &mut tb)?;
                    let sub = target[..n].to_vec();
                    let n = rq.unsubscribe(target)?;
                    Ok::<_, SyncError>((sub, target[..n].to_vec()))
                }));
                let s = match r {
                    Err(p) => {
                        rec.panics.push(format!("SyncRequester::subscribe panicked ({p})"));
                        "panic".to_string()
                    }
                    Ok(Ok((sub, unsub))) => {
                        match (SyncIncoming::decode(&sub), SyncIncoming::decode(&unsub)) {
                            (Ok(SyncIncoming::Subscribe(x)), Ok(SyncIncoming::Unsubscribe(_))) => {
                                if x.remain_open().as_secs() != 7 || x.max_bytes() != 9 {
                                    rec.oracle_fail("subscribe does not round-trip its fields".to_string());
                                }
                                for c in x.heads().iter() {
                                    if !w.addrs.iter().any(|a| *a == c) {
                                        rec.oracle_fail(format!("subscribe sample contains {} which is not in the requester's graph", show_addr(&c)));
                                    }
                                }
                            }
                            _ => rec.oracle_fail("subscribe/unsubscribe wrote messages that do not decode as such".to_string()),
                        }
                        w.last_out = sub;
                        "ok".to_string()
                    }
                    Ok(Err(e)) => show_err(&e),
                };
                rec.line(line.clone(), s);
            }
            ["rq", "gadd"] => {
                // the consumer of `receive`'s output: ClientState::add_commands on the requester's replica
                let cmds = std::mem::take(&mut w.last_cmds);
                let mut gadd_fail: Option<String> = None;
                if let Some(b) = &mut w.b {
                    let mut trx = w.b_trx.take().unwrap_or_else(|| b.transaction());
                    let r = vh::catch(std::panic::AssertUnwindSafe(|| b.add(&mut trx, &cmds)));
                    match r {
                        Err(p) => {
                            let parents: Vec<String> = cmds.iter().map(|c| show_prior(&c.parent)).collect();
                            let what = format!(
                                "add_commands panicked ({p}) on the {} commands SyncRequester::receive returned for the preceding message; parents: {}",
                                cmds.len(),
                                parents.join(" ")
                            );
                            rec.panics.push(what.clone());
                            gadd_fail = Some(what);
                        }
                        Ok(Ok(n)) => {
                            rec.count("gadd:ok");
                            rec.count_n("gadd:added", n as u64);
                            w.b_trx = Some(trx);
                        }
                        Ok(Err(e)) => {
                            rec.count(&format!("gadd:{}", gk::err_name(&e).split(':').next().unwrap_or("?")));
                            w.b_trx = Some(trx);
                        }
                    }
                }
                rec.line(line.clone(), "done");
                if let Some(f) = gadd_fail {
                    rec.oracle_fail(f);
                }
            }
            ["rq", "gcommit"] => {
                if let (Some(b), Some(trx)) = (&mut w.b, w.b_trx.take()) {
                    match vh::catch(std::panic::AssertUnwindSafe(|| b.commit(trx))) {
                        Err(p) => rec.panics.push(format!("commit panicked ({p}) after a sync session")),
                        Ok(Ok(_)) => rec.count("gcommit:ok"),
                        Ok(Err(e)) => rec.count(&format!("gcommit:{}", gk::err_name(&e).split(':').next().unwrap_or("?"))),
                    }
                }
                rec.line(line.clone(), "done");
            }
            _ => panic!("bad request line {line}"),
        }
    }
}

// ------------------------------------------------------------------ generators

fn gen_id32(r: &mut Rng) -> [u8; 32] {
    let mut b = [0u8; 32];
    match r.below(5) {
        0 => {}
        1 => b = [0xff; 32],
        _ => b.copy_from_slice(&r.bytes(32)),
    }
    b
}
fn gen_cmd_id(r: &mut Rng) -> CmdId {
    CmdId::from_bytes(gen_id32(r))
}
fn gen_graph(r: &mut Rng) -> GraphId {
    GraphId::from_bytes(gen_id32(r))
}
fn gen_u64(r: &mut Rng) -> u64 {
    match r.below(6) {
        0 => 0,
        1 => u64::MAX,
        2 => r.below(300),
        3 => 1u64 << r.below(64),
        4 => (1u64 << r.below(64)).wrapping_sub(1),
        _ => r.next_u64(),
    }
}
fn gen_u128(r: &mut Rng) -> u128 {
    match r.below(6) {
        0 => 0,
        1 => u128::MAX,
        2 => r.below(300) as u128,
        3 => 1u128 << r.below(128),
        4 => (1u128 << r.below(128)).wrapping_sub(1),
        _ => ((r.next_u64() as u128) << 64) | r.next_u64() as u128,
    }
}
fn gen_addr(r: &mut Rng) -> Address {
    Address { id: gen_cmd_id(r), max_cut: MaxCut::new(gen_u64(r)) }
}
fn gen_priority(r: &mut Rng) -> Priority {
    match r.below(4) {
        0 => Priority::Merge,
        1 => Priority::Basic(match r.below(3) {
            0 => 0,
            1 => u32::MAX,
            _ => r.next_u64() as u32,
        }),
        2 => Priority::Finalize,
        _ => Priority::Init,
    }
}
fn gen_prior(r: &mut Rng) -> Prior<Address> {
    match r.below(3) {
        0 => Prior::None,
        1 => Prior::Single(gen_addr(r)),
        _ => Prior::Merge(gen_addr(r), gen_addr(r)),
    }
}
fn gen_dur(r: &mut Rng) -> Duration {
    Duration::new(gen_u64(r) >> 1, (r.below(1_000_000_000)) as u32)
}
fn gen_addrs(r: &mut Rng, max: u64) -> Vec<Address> {
    let n = match r.below(8) {
        0 => 0,
        1 => max,
        _ => r.below(6),
    };
    (0..n).map(|_| gen_addr(r)).collect()
}

/// consistent metas + the command bytes they describe
fn gen_metas(r: &mut Rng, n: usize) -> (Vec<MMeta>, Vec<u8>) {
    let (mut metas, mut data) = (vec![], vec![]);
    for _ in 0..n {
        let pl = if r.chance(1, 2) { 0 } else { r.range(1, 6) as u32 };
        let l = match r.below(6) {
            0 => 0,
            1 => r.range(100, 300) as u32,
            _ => r.range(1, 12) as u32,
        };
        data.extend(r.bytes((pl + l) as usize));
        metas.push(MMeta { id: gen_cmd_id(r), priority: gen_priority(r), parent: gen_prior(r), policy_length: pl, length: l });
    }
    (metas, data)
}

fn gen_req(r: &mut Rng, session: u128) -> MReq {
    match r.below(6) {
        0 | 1 | 2 => MReq::SyncRequest { session_id: session, graph_id: gen_graph(r), max_bytes: gen_u64(r), commands: gen_addrs(r, 100) },
        3 => MReq::RequestMissing { session_id: session, indexes: (0..r.below(5)).map(|_| gen_u64(r)).collect() },
        4 => MReq::SyncResume { session_id: session, response_index: gen_u64(r), max_bytes: gen_u64(r) },
        _ => MReq::EndSession { session_id: session },
    }
}

fn gen_resp(r: &mut Rng, session: u128, index: u64) -> (MResp, Vec<u8>) {
    match r.below(8) {
        0..=4 => {
            let n = match r.below(10) {
                0 => 0,
                1 => 100,
                _ => r.range(1, 5),
            } as usize;
            let (metas, data) = gen_metas(r, n);
            (MResp::SyncResponse { session_id: session, response_index: index, commands: metas }, data)
        }
        5 => (MResp::SyncEnd { session_id: session, max_index: index, remaining: r.chance(1, 2) }, vec![]),
        6 => (MResp::Offer { session_id: session, head: gen_cmd_id(r) }, vec![]),
        _ => (MResp::EndSession { session_id: session }, vec![]),
    }
}

fn gen_sync_type(r: &mut Rng) -> (MSyncType, Vec<u8>) {
    match r.below(7) {
        0 | 1 => {
            let sid = gen_u128(r);
            (MSyncType::Poll { request: gen_req(r, sid) }, vec![])
        }
        2 => (
            MSyncType::Subscribe { remain_open: gen_u64(r), max_bytes: gen_u64(r), commands: gen_addrs(r, 100), graph_id: gen_graph(r) },
            vec![],
        ),
        3 => (MSyncType::Unsubscribe { graph_id: gen_graph(r) }, vec![]),
        4 => {
            let (sid, idx) = (gen_u128(r), gen_u64(r));
            let (m, d) = gen_resp(r, sid, idx);
            (MSyncType::Push { message: m, graph_id: gen_graph(r) }, d)
        }
        _ => (
            MSyncType::Hello(match r.below(3) {
                0 => MHello::Subscribe { graph_id: gen_graph(r), graph_change_delay: gen_dur(r), duration: gen_dur(r), schedule_delay: gen_dur(r) },
                1 => MHello::Unsubscribe { graph_id: gen_graph(r) },
                _ => MHello::Hello { graph_id: gen_graph(r), head: gen_addr(r) },
            }),
            vec![],
        ),
    }
}

fn varint(mut n: u128) -> Vec<u8> {
    let mut o = vec![];
    loop {
        if n < 128 {
            o.push(n as u8);
            return o;
        }
        o.push((n as u8 & 0x7f) | 0x80);
        n >>= 7;
    }
}

/// malformed variants of a valid encoding
fn mutations(r: &mut Rng, rec: &mut Recorder, enc: &[u8], k: usize) -> Vec<Vec<u8>> {
    let mut out = vec![];
    for _ in 0..k {
        let mut e = enc.to_vec();
        match r.below(9) {
            0 | 1 => {
                rec.count("gen:truncation");
                e.truncate(r.below(enc.len() as u64 + 1) as usize);
            }
            2 => {
                rec.count("gen:extension");
                let n = r.range(1, 6) as usize;
                e.extend(r.bytes(n));
            }
            3 | 4 if !e.is_empty() => {
                rec.count("gen:bitflip");
                let p = r.below(e.len() as u64) as usize;
                e[p] ^= 1 << r.below(8);
            }
            5 if !e.is_empty() => {
                rec.count("gen:byte-replace");
                let p = r.below(e.len() as u64) as usize;
                e[p] = *r.pick(&[0u8, 1, 2, 3, 4, 5, 31, 32, 33, 100, 101, 0x7f, 0x80, 0xff]);
            }
            6 if !e.is_empty() => {
                rec.count("gen:varint-insert");
                // splice a (possibly over-long / over-large) varint somewhere
                let p = r.below(e.len() as u64) as usize;
                let v: Vec<u8> = match r.below(5) {
                    0 => vec![0x80; 9].into_iter().chain([0x01]).collect(),
                    1 => vec![0xff; 9].into_iter().chain([0x02]).collect(),
                    2 => vec![0xff; 18].into_iter().chain([0x03]).collect(),
                    3 => vec![0xff; 18].into_iter().chain([0x04]).collect(),
                    _ => varint(gen_u128(r)),
                };
                e.splice(p..p + 1, v);
            }
            7 if e.len() > 2 => {
                rec.count("gen:delete-byte");
                let p = r.below(e.len() as u64) as usize;
                e.remove(p);
            }
            _ => {
                rec.count("gen:prefix-mutate");
                // the first bytes select the variants
                for p in 0..e.len().min(2) {
                    if r.chance(1, 2) {
                        e[p] = r.below(8) as u8;
                    }
                }
            }
        }
        out.push(e);
    }
    out
}

/// wire-level probes written by hand: over-long vectors, bad discriminants, bad bool,
/// id length, duration overflow, length lies
fn gen_wire_probes(r: &mut Rng, rec: &mut Recorder) -> Vec<String> {
    let mut lines = vec![];
    let g = GraphId::from_bytes([7; 32]);
    // over-long heapless vectors: cap+1 / cap+k elements present, or announced but absent
    for extra in [1usize, 2, 50] {
        rec.count("gen:vec-over-capacity");
        let addrs: Vec<Address> = (0..100 + extra).map(|_| gen_addr(r)).collect();
        lines.push(format!("decode {}", hex(&pc(&MSyncType::Subscribe { remain_open: 1, max_bytes: 2, commands: addrs.clone(), graph_id: g }))));
        lines.push(format!(
            "decode {}",
            hex(&pc(&MSyncType::Poll { request: MReq::SyncRequest { session_id: 5, graph_id: g, max_bytes: 9, commands: addrs } }))
        ));
        lines.push(format!(
            "decode {}",
            hex(&pc(&MSyncType::Poll { request: MReq::RequestMissing { session_id: 5, indexes: (0..100 + extra as u64).collect() } }))
        ));
        let (metas, data) = gen_metas(r, 100 + extra);
        let mut b = pc(&MResp::SyncResponse { session_id: 1, response_index: 0, commands: metas });
        b.extend(&data);
        lines.push("rq newsid - 1".to_string());
        lines.push(format!("rq recv {}", hex(&b)));
    }
    // announced length far beyond what is present
    for len in [101u128, 1 << 20, u64::MAX as u128, (u64::MAX as u128) + 1] {
        rec.count("gen:vec-length-lie");
        let mut b = vec![0u8]; // SyncResponse
        b.extend(varint(1)); // session
        b.extend(varint(0)); // index
        b.extend(varint(len));
        b.extend(r.bytes(10));
        lines.push("rq newsid - 1".to_string());
        lines.push(format!("rq recv {}", hex(&b)));
        let mut b = vec![1u8]; // Subscribe
        b.extend(varint(3));
        b.extend(varint(4));
        b.extend(varint(len));
        lines.push(format!("decode {}", hex(&b)));
    }
    // discriminants
    for d in [5u128, 6, 127, 128, 300, u32::MAX as u128, (u32::MAX as u128) + 1, u64::MAX as u128] {
        rec.count("gen:bad-discriminant");
        let mut b = varint(d);
        b.extend(r.bytes(8));
        lines.push(format!("decode {}", hex(&b)));
        lines.push(format!("rq recv {}", hex(&b)));
        let mut b = vec![0u8]; // Poll
        b.extend(varint(d));
        b.extend(r.bytes(8));
        lines.push(format!("decode {}", hex(&b)));
        let mut b = vec![4u8]; // Hello
        b.extend(varint(d));
        b.extend(r.bytes(8));
        lines.push(format!("decode {}", hex(&b)));
    }
    // bool
    for v in [0u8, 1, 2, 0x80, 0xff] {
        rec.count("gen:bool-byte");
        let mut b = vec![1u8]; // SyncEnd
        b.extend(varint(1));
        b.extend(varint(0));
        b.push(v);
        lines.push("rq newsid - 1".to_string());
        lines.push(format!("rq recv {}", hex(&b)));
    }
    // id length
    for l in [0usize, 1, 31, 33, 64, 200] {
        rec.count("gen:id-length");
        let mut b = vec![2u8]; // Unsubscribe
        b.extend(varint(l as u128));
        b.extend(r.bytes(l));
        lines.push(format!("decode {}", hex(&b)));
        let mut short = b.clone();
        short.truncate(b.len().saturating_sub(1));
        lines.push(format!("decode {}", hex(&short)));
    }
    // duration: secs + nanos/1e9 overflow, nanos >= 1e9
    for (s, n) in [(u64::MAX, 999_999_999u32), (u64::MAX, 1_000_000_000), (u64::MAX - 4, u32::MAX), (u64::MAX - 3, u32::MAX), (5, 3_500_000_000), (0, u32::MAX)] {
        rec.count("gen:duration");
        let mut b = vec![4u8, 0]; // Hello::Subscribe
        b.extend(varint(32));
        b.extend([9u8; 32]);
        for _ in 0..3 {
            b.extend(varint(s as u128));
            b.extend(varint(n as u128));
        }
        lines.push(format!("decode {}", hex(&b)));
    }
    // u128 session ids at the varint boundary (19 bytes, last byte <= 3)
    for last in [0u8, 1, 3, 4, 0x7f, 0x80] {
        rec.count("gen:u128-boundary");
        let mut b = vec![3u8]; // EndSession
        b.extend([0xffu8; 18]);
        b.push(last);
        lines.push(format!("rq recv {}", hex(&b)));
    }
    lines
}

fn recv_line(m: &MResp, data: &[u8]) -> String {
    let mut b = pc(m);
    b.extend_from_slice(data);
    format!("rq recv {}", hex(&b))
}

/// a requester session: mostly in-sequence responses with consistent and inconsistent
/// lengths, interleaved with wrong sessions, reordered indexes, ends, offers, polls
fn gen_requester_case(r: &mut Rng, rec: &mut Recorder) -> Vec<String> {
    let session = gen_u128(r);
    let g = gen_graph(r);
    let mut lines = vec![];
    let fresh = r.chance(1, 4);
    lines.push(format!("rq {} {} {}", if fresh { "new" } else { "newsid" }, hex(g.as_bytes()), session));
    if fresh {
        if r.chance(3, 4) {
            lines.push("rq ready".into());
            lines.push("rq poll".into());
        }
    }
    let mut next: u64 = 0; // generator's guess of the next index (only steers the distribution)
    let steps = r.range(3, 14);
    for _ in 0..steps {
        match r.below(100) {
            0..=39 => {
                rec.count("gen:in-sequence-response");
                let n = match r.below(12) {
                    0 => 0,
                    1 => 100,
                    _ => r.range(1, 5),
                } as usize;
                let (mut metas, mut data) = gen_metas(r, n);
                match r.below(10) {
                    0 if n > 0 => {
                        rec.count("gen:length-too-long");
                        let k = r.below(n as u64) as usize;
                        metas[k].length = metas[k].length.saturating_add(*r.pick(&[1u32, 2, 1000, u32::MAX]));
                    }
                    1 if n > 0 => {
                        rec.count("gen:policy-too-long");
                        let k = r.below(n as u64) as usize;
                        metas[k].policy_length = metas[k].policy_length.saturating_add(*r.pick(&[1u32, 7, 4096, u32::MAX]));
                    }
                    2 if !data.is_empty() => {
                        rec.count("gen:data-cut");
                        let cut = r.range(1, data.len().min(5) as u64) as usize;
                        data.truncate(data.len() - cut);
                    }
                    3 => {
                        rec.count("gen:data-extra");
                        let k = r.range(1, 9) as usize;
                        data.extend(r.bytes(k));
                    }
                    4 if n > 0 => {
                        rec.count("gen:length-shift");
                        // keep the total, move the boundary
                        let k = r.below(n as u64) as usize;
                        if metas[k].length > 0 {
                            metas[k].length -= 1;
                            metas[k].policy_length += 1;
                        }
                    }
                    _ => {}
                }
                let m = MResp::SyncResponse { session_id: session, response_index: next, commands: metas };
                let as_push = r.chance(1, 6);
                if as_push {
                    let mut b = pc(&MSyncType::Push { message: m, graph_id: g });
                    b.extend(&data);
                    lines.push(format!("rq push {}", hex(&b)));
                } else {
                    lines.push(recv_line(&m, &data));
                }
                next += 1;
            }
            40..=49 => {
                rec.count("gen:wrong-session");
                let other = if r.chance(1, 2) { session.wrapping_add(1) } else { gen_u128(r) };
                let (m, d) = gen_resp(r, other, next);
                lines.push(recv_line(&m, &d));
            }
            50..=61 => {
                rec.count("gen:out-of-sequence");
                let idx = match r.below(4) {
                    0 => next + 1,
                    1 => next.saturating_sub(1),
                    2 => 0,
                    _ => gen_u64(r),
                };
                let k = r.below(3) as usize;
                let (metas, data) = gen_metas(r, k);
                lines.push(recv_line(&MResp::SyncResponse { session_id: session, response_index: idx, commands: metas }, &data));
            }
            62..=67 => {
                rec.count("gen:sync-end");
                let idx = if r.chance(2, 3) { next } else { gen_u64(r) };
                lines.push(recv_line(&MResp::SyncEnd { session_id: session, max_index: idx, remaining: r.chance(1, 2) }, &[]));
            }
            68..=71 => {
                rec.count("gen:offer");
                lines.push(recv_line(&MResp::Offer { session_id: session, head: gen_cmd_id(r) }, &[]));
            }
            72..=74 => {
                rec.count("gen:end-session");
                lines.push(recv_line(&MResp::EndSession { session_id: session }, &[]));
            }
            75..=84 => {
                lines.push("rq ready".into());
                lines.push("rq poll".into());
            }
            85..=92 => {
                let (m, d) = gen_resp(r, session, next);
                let mut b = pc(&m);
                b.extend(&d);
                for e in mutations(r, rec, &b, 2) {
                    lines.push(format!("rq recv {}", hex(&e)));
                }
            }
            93..=96 => {
                rec.count("gen:push-not-push");
                let (t, d) = gen_sync_type(r);
                let mut b = pc(&t);
                b.extend(&d);
                lines.push(format!("rq push {}", hex(&b)));
            }
            _ => {
                rec.count("gen:random-bytes");
                let n = r.below(40) as usize;
                lines.push(format!("rq recv {}", hex(&r.bytes(n))));
            }
        }
    }
    lines.push("rq ready".into());
    lines.push("rq poll".into());
    lines
}

fn gen_responder_case(r: &mut Rng, rec: &mut Recorder) -> Vec<String> {
    let session = gen_u128(r);
    let mut lines = vec!["rs new".to_string(), "rs ready".to_string()];
    if r.chance(1, 4) {
        lines.push("rs poll".into());
    }
    for _ in 0..r.range(2, 8) {
        match r.below(10) {
            0..=5 => {
                rec.count("gen:poll-same-session");
                lines.push(format!("rs recv {}", hex(&pc(&MSyncType::Poll { request: gen_req(r, session) }))));
            }
            6 => {
                rec.count("gen:poll-other-session");
                lines.push(format!("rs recv {}", hex(&pc(&MSyncType::Poll { request: gen_req(r, session.wrapping_add(1)) }))));
            }
            7 => {
                rec.count("gen:poll-mutated");
                let b = pc(&MSyncType::Poll { request: gen_req(r, session) });
                for e in mutations(r, rec, &b, 2) {
                    lines.push(format!("rs recv {}", hex(&e)));
                }
            }
            8 => {
                rec.count("gen:not-a-poll");
                let (t, d) = gen_sync_type(r);
                let mut b = pc(&t);
                b.extend(&d);
                lines.push(format!("rs recv {}", hex(&b)));
            }
            _ => {
                let n = r.below(30) as usize;
                lines.push(format!("rs recv {}", hex(&r.bytes(n))));
            }
        }
        lines.push("rs ready".into());
        if r.chance(2, 3) {
            lines.push("rs poll".into());
            lines.push("rs ready".into());
        }
    }
    lines
}

fn gen_decode_case(r: &mut Rng, rec: &mut Recorder) -> Vec<String> {
    let mut lines = vec![];
    for _ in 0..r.range(2, 6) {
        let (t, d) = gen_sync_type(r);
        rec.count(&format!(
            "gen:valid-{}",
            match &t {
                MSyncType::Poll { .. } => "poll",
                MSyncType::Subscribe { .. } => "subscribe",
                MSyncType::Unsubscribe { .. } => "unsubscribe",
                MSyncType::Push { .. } => "push",
                MSyncType::Hello(_) => "hello",
            }
        ));
        let mut b = pc(&t);
        b.extend(&d);
        lines.push(format!("decode {}", hex(&b)));
        for e in mutations(r, rec, &b, 4) {
            lines.push(format!("decode {}", hex(&e)));
        }
    }
    for _ in 0..3 {
        rec.count("gen:random-bytes");
        let n = r.below(48) as usize;
        lines.push(format!("decode {}", hex(&r.bytes(n))));
    }
    lines
}

// ------------------------------------------------------------------ sessions over real graphs

/// a `commands` sample of a poll/subscribe: real addresses of the graph mixed with max_cut lies,
/// unknown ids, duplicates
fn garbage_sample(r: &mut Rng, addrs: &[Address], n: usize) -> Vec<Address> {
    let mut v = vec![];
    for _ in 0..n {
        let real = *r.pick(addrs);
        v.push(match r.below(8) {
            0 | 1 | 2 => real,
            3 => Address { id: real.id, max_cut: MaxCut::new(gk::mc(real.max_cut).wrapping_add(1)) },
            4 => Address { id: real.id, max_cut: MaxCut::new(*r.pick(&[0u64, u64::MAX, u64::MAX - 1, 1 << 32, u64::MAX - 100])) },
            5 => Address { id: gen_cmd_id(r), max_cut: real.max_cut },
            6 => Address { id: gen_cmd_id(r), max_cut: MaxCut::new(gen_u64(r)) },
            _ => Address { id: real.id, max_cut: MaxCut::new(gk::mc(real.max_cut).saturating_sub(1)) },
        });
    }
    v
}

/// variants of a real response: other session, other index, truncated, flipped, replay material
fn disturb_response(r: &mut Rng, rec: &mut Recorder, resp: &[u8]) -> Vec<Vec<u8>> {
    let mut out = vec![];
    if let Ok((m, rest)) = postcard::take_from_bytes::<MResp>(resp) {
        let rest = rest.to_vec();
        let mut with = |m: MResp| {
            let mut b = pc(&m);
            b.extend(&rest);
            b
        };
        match (&m, r.below(6)) {
            (MResp::SyncResponse { session_id, response_index, commands }, 0) => {
                rec.count("gen:g-wrong-session");
                out.push(with(MResp::SyncResponse { session_id: session_id.wrapping_add(1), response_index: *response_index, commands: commands.clone() }));
            }
            (MResp::SyncResponse { session_id, response_index, commands }, 1) => {
                rec.count("gen:g-wrong-index");
                let idx = *r.pick(&[response_index.wrapping_add(1), response_index.wrapping_add(7), u64::MAX]);
                out.push(with(MResp::SyncResponse { session_id: *session_id, response_index: idx, commands: commands.clone() }));
            }
            (MResp::SyncResponse { session_id, response_index, commands }, 2) if !commands.is_empty() => {
                rec.count("gen:g-length-lie");
                let mut c = commands.clone();
                let k = r.below(c.len() as u64) as usize;
                c[k].length = c[k].length.wrapping_add(*r.pick(&[1u32, 50_000, u32::MAX]));
                out.push(with(MResp::SyncResponse { session_id: *session_id, response_index: *response_index, commands: c }));
            }
            (MResp::SyncEnd { session_id, max_index, remaining }, _) => {
                rec.count("gen:g-wrong-end");
                out.push(with(MResp::SyncEnd { session_id: *session_id, max_index: max_index.wrapping_add(1), remaining: *remaining }));
            }
            _ => {}
        }
    }
    for e in mutations(r, rec, resp, 1) {
        out.push(e);
    }
    out
}

/// One interactive session between a real requester and a real responder that both have storage
/// with (part of) the same graph; the messages they produce are piped to each other, interleaved
/// with garbage, mutated and mis-sequenced ones.  Lines are executed as they are generated.
fn graph_case(r: &mut Rng, rec: &mut Recorder) {
    let mut w = World::new();
    let seed = r.below(1 << 30);
    let nodes = match r.below(12) {
        0 => 2,
        1 => 130, // more than COMMAND_RESPONSE_MAX commands: several responses
        2 => 45,
        _ => r.range(3, 14),
    } as usize;
    let cmds = world_cmds(seed, nodes);
    let n = cmds.len();
    let prefix = match r.below(5) {
        0 => 0,
        1 => 1,
        2 => n,
        _ => r.range(1, n as u64) as usize,
    };
    let graph = gk::graph_id_of(&cmds[0]);
    let g = hex(graph.as_bytes());
    let addrs: Vec<Address> = cmds.iter().map(|c| c.address()).collect();
    rec.count_n("gen:g-nodes", n as u64);
    exec_line(&mut w, rec, &format!("world {seed} {nodes} {prefix} {g}"));
    let session = gen_u128(r);
    exec_line(&mut w, rec, &format!("rq new {g} {session}"));
    exec_line(&mut w, rec, "rq ready");
    exec_line(&mut w, rec, "rq gpoll");
    let request = w.last_out.clone();
    exec_line(&mut w, rec, "rs new");
    // ---- the poll the responder sees
    let crafted = |r: &mut Rng, k: usize, sid: u128, gid: GraphId| {
        pc(&MSyncType::Poll { request: MReq::SyncRequest { session_id: sid, graph_id: gid, max_bytes: gen_u64(r), commands: garbage_sample(r, &addrs, k) } })
    };
    match r.below(10) {
        0..=3 => {
            rec.count("gen:g-poll-real");
            exec_line(&mut w, rec, &format!("rs recv {}", hex(&request)));
        }
        4..=6 => {
            rec.count("gen:g-poll-garbage-sample");
            let k = *r.pick(&[0usize, 1, 3, 10, 100]);
            let b = crafted(r, k, session, graph);
            exec_line(&mut w, rec, &format!("rs recv {}", hex(&b)));
        }
        7 => {
            rec.count("gen:g-poll-mutated");
            for e in mutations(r, rec, &request, 2) {
                exec_line(&mut w, rec, &format!("rs recv {}", hex(&e)));
                exec_line(&mut w, rec, "rs ready");
                exec_line(&mut w, rec, "rs poll");
            }
            exec_line(&mut w, rec, &format!("rs recv {}", hex(&request)));
        }
        8 => {
            rec.count("gen:g-poll-other-graph");
            let other = gen_graph(r);
            let b = crafted(r, 3, session, other);
            exec_line(&mut w, rec, &format!("rs recv {}", hex(&b)));
            exec_line(&mut w, rec, "rs poll");
            exec_line(&mut w, rec, "rs poll");
            exec_line(&mut w, rec, "rs new");
            exec_line(&mut w, rec, &format!("rs recv {}", hex(&request)));
        }
        _ => {
            rec.count("gen:g-poll-oversized-sample");
            let k = 101 + r.below(30) as usize;
            let b = crafted(r, k, session, graph);
            exec_line(&mut w, rec, &format!("rs recv {}", hex(&b)));
            exec_line(&mut w, rec, &format!("rs recv {}", hex(&request)));
        }
    }
    // ---- the session
    let mut prev: Option<Vec<u8>> = None;
    let mut last_index: u64 = 0;
    for _ in 0..12 {
        exec_line(&mut w, rec, "rs ready");
        if !w.rs.ready() {
            break;
        }
        // responder-side disturbances between polls
        match r.below(14) {
            0 => {
                rec.count("gen:g-mid-other-session-poll");
                let b = crafted(r, 2, session.wrapping_add(3), graph);
                exec_line(&mut w, rec, &format!("rs recv {}", hex(&b)));
            }
            1 => {
                rec.count("gen:g-mid-new-request");
                let b = crafted(r, 4, session, graph);
                exec_line(&mut w, rec, &format!("rs recv {}", hex(&b)));
            }
            2 => {
                rec.count("gen:g-mid-push");
                exec_line(&mut w, rec, "rs push 0");
                if !w.last_out.is_empty() && r.chance(1, 2) {
                    let b = w.last_out.clone();
                    exec_line(&mut w, rec, &format!("rq push {}", hex(&b)));
                    if !w.last_cmds.is_empty() {
                        exec_line(&mut w, rec, "rq gadd");
                    }
                }
            }
            5 => {
                rec.count("gen:g-mid-subscribe");
                exec_line(&mut w, rec, "rq gsub");
                let b = w.last_out.clone();
                exec_line(&mut w, rec, &format!("gheads {}", hex(&b)));
                exec_line(&mut w, rec, &format!("decode {}", hex(&b)));
            }
            3 => {
                rec.count("gen:g-mid-heads");
                let k = *r.pick(&[1usize, 5, 12, 100]);
                let b = if r.chance(1, 2) {
                    pc(&MSyncType::Subscribe { remain_open: gen_u64(r), max_bytes: gen_u64(r), commands: garbage_sample(r, &addrs, k), graph_id: graph })
                } else {
                    pc(&MSyncType::Hello(MHello::Hello { graph_id: graph, head: garbage_sample(r, &addrs, 1)[0] }))
                };
                exec_line(&mut w, rec, &format!("gheads {}", hex(&b)));
            }
            4 => {
                rec.count("gen:g-mid-garbage-poll");
                let k = r.below(40) as usize;
                exec_line(&mut w, rec, &format!("rs recv {}", hex(&r.bytes(k))));
            }
            _ => {}
        }
        exec_line(&mut w, rec, "rs poll");
        let resp = w.last_out.clone();
        if let Ok((MResp::SyncResponse { response_index, .. }, _)) = postcard::take_from_bytes::<MResp>(&resp) {
            last_index = response_index;
        }
        // requester-side disturbances before the genuine message
        if r.chance(1, 2) {
            for d in disturb_response(r, rec, &resp) {
                exec_line(&mut w, rec, &format!("rq recv {}", hex(&d)));
                if !w.last_cmds.is_empty() {
                    exec_line(&mut w, rec, "rq gadd");
                }
            }
        }
        if let (Some(p), true) = (&prev, r.chance(1, 12)) {
            rec.count("gen:g-replay-previous");
            let p = p.clone();
            exec_line(&mut w, rec, &format!("rq recv {}", hex(&p)));
            exec_line(&mut w, rec, "rq ready");
            exec_line(&mut w, rec, "rq gpoll");
        }
        rec.count("gen:g-genuine-response");
        exec_line(&mut w, rec, &format!("rq recv {}", hex(&resp)));
        if !w.last_cmds.is_empty() {
            exec_line(&mut w, rec, "rq gadd");
        }
        prev = Some(resp);
    }
    exec_line(&mut w, rec, "rq gcommit");
    exec_line(&mut w, rec, "rs ready");
    exec_line(&mut w, rec, "rs poll");
    // ---- make the requester's expected index observable: force Resync, then poll (SyncResume
    // carries `next_message_index - 1`)
    let (metas, data) = gen_metas(r, 1);
    let probe = MResp::SyncResponse { session_id: session, response_index: last_index.wrapping_add(1000), commands: metas };
    exec_line(&mut w, rec, &recv_line(&probe, &data));
    exec_line(&mut w, rec, "rq ready");
    exec_line(&mut w, rec, "rq gpoll");
    exec_line(&mut w, rec, "rq ready");
    // ---- a fresh requester session fed one in-sequence response whose commands carry extreme
    // parent addresses; whatever `receive` returns goes to add_commands like in a real client
    if r.chance(1, 3) {
        rec.count("gen:g-extreme-parent");
        let s2 = gen_u128(r);
        exec_line(&mut w, rec, &format!("rq newsid {g} {s2}"));
        let real = *r.pick(&addrs);
        let far = |m: u64| Address { id: real.id, max_cut: MaxCut::new(m) };
        let big = *r.pick(&[u64::MAX, u64::MAX - 1, 1u64 << 63]);
        let parent = match r.below(3) {
            0 => Prior::Single(far(big)),
            1 => Prior::Merge(real, far(big)),
            _ => Prior::Merge(far(big), far(u64::MAX)),
        };
        let (mut metas, data) = gen_metas(r, 2);
        metas[1].parent = parent;
        metas[0].parent = Prior::Single(real);
        let m = MResp::SyncResponse { session_id: s2, response_index: 0, commands: metas };
        exec_line(&mut w, rec, &recv_line(&m, &data));
        if !w.last_cmds.is_empty() {
            exec_line(&mut w, rec, "rq gadd");
        }
    }
}

fn main() {
    let args = Args::parse();
    vh::quiet_panics();
    let mut rec = Recorder::new(&args.out);
    if let Some(p) = &args.replay {
        let lines = vh::read_replay_input(p);
        rec.begin_case();
        run_case(&mut rec, &lines);
        rec.finish(args.seed, &args.tier);
        return;
    }
    let mut rng = Rng::new(args.seed);
    let cases = args.budget(1000, 12000);
    for i in 0..cases {
        if i % 4 == 3 {
            rec.begin_case();
            rec.count("case:graph-session");
            graph_case(&mut rng, &mut rec);
            let lines = rec.current_case_lines();
            rec.count_n("lines", lines.len() as u64);
            rec.nontrivial(fnv(&lines.join(";")));
            continue;
        }
        let lines = match i % 4 {
            0 => gen_decode_case(&mut rng, &mut rec),
            1 => gen_requester_case(&mut rng, &mut rec),
            _ => gen_responder_case(&mut rng, &mut rec),
        };
        rec.begin_case();
        rec.count(["case:decode", "case:requester", "case:responder"][i % 4]);
        rec.count_n("lines", lines.len() as u64);
        if lines.len() >= 3 {
            rec.nontrivial(fnv(&lines.join(";")));
        }
        if rec.cases() <= 3 {
            rec.sample(lines.iter().take(3).cloned().collect::<Vec<_>>().join(" ; "));
        }
        run_case(&mut rec, &lines);
    }
    let lines = gen_wire_probes(&mut rng, &mut rec);
    rec.begin_case();
    rec.count_n("lines", lines.len() as u64);
    run_case(&mut rec, &lines);
    rec.finish(args.seed, &args.tier);
}
