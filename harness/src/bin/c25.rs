//! C25 — The VM never panics on any bytecode.
//!
//! Drives the REAL `aranya_policy_vm::{Machine, RunState}` one `step()` at a time under
//! `catch_unwind` on generated machines: instruction sequences over EVERY `Instruction` variant
//! with arbitrary operands / targets / labels, arbitrary struct & fact schemas and globals,
//! arbitrary initial stacks, and an adversarial `MachineIO` (errors, malformed rows, FFI calls
//! that pop/push at will).  Any panic is a violation (that is the S-level oracle).  Every request
//! line is also answered by the Lean model (`drv_c25`): (outcome class, pc, stack depth, top).
//!
//! Line protocol: see `lean/Driver/C25.lean`.

use std::{
    cell::RefCell,
    collections::{BTreeMap, VecDeque},
    num::NonZeroUsize,
    panic::AssertUnwindSafe,
    str::FromStr,
};

use aranya_crypto::{policy::CmdId, BaseId, DeviceId};
use aranya_policy_vm::{
    ActionContext, ActionDef, CodeMap, CommandContext, CommandDef, ConstStruct, ConstValue,
    ExitReason, Fact, FactDef, FactKey, FactKeyList, FactValue, FactValueList, Field, HashableValue,
    Identifier, Instruction, KVPair, Label, LabelType, Machine, MachineError, MachineErrorType,
    MachineIO, MachineIOError, MachineStack, MachineStatus, Meta, Module, ModuleData, ModuleV0,
    OpenContext, Persistence, PolicyContext, ResultTypeKind, SealContext, Stack, Struct, StructDef, Target, Text,
    TypeKind, Value, WrapType,
};
use vh::{fnv, Args, Recorder, Rng};

// ------------------------------------------------------------------ crash attribution
//
// A stack overflow / abort in the real code cannot be caught in-process.  `main` therefore runs the
// work in a child process; every case writes its setup lines to `<out>/current_case.txt` before it
// runs, and if the child dies the parent re-runs only that case with `C25_TRACE=1` (every request
// line, I/O answers included, is appended to the side file before it is executed) and reports the
// crash as an oracle failure whose replay input is that file.

thread_local! {
    static TRACE: RefCell<Option<(std::path::PathBuf, Vec<String>)>> = const { RefCell::new(None) };
}
fn trace_init(path: std::path::PathBuf, lines: Vec<String>) {
    let _ = std::fs::write(&path, lines.join("\n") + "\n");
    if std::env::var("C25_TRACE").is_ok() {
        TRACE.with(|t| *t.borrow_mut() = Some((path, lines)));
    }
}
fn trace_push(line: String) {
    TRACE.with(|t| {
        if let Some((p, ls)) = t.borrow_mut().as_mut() {
            ls.push(line);
            let _ = std::fs::write(&*p, ls.join("\n") + "\n");
        }
    });
}
fn trace_replace_last(line: String) {
    TRACE.with(|t| {
        if let Some((p, ls)) = t.borrow_mut().as_mut() {
            ls.pop();
            ls.push(line);
            let _ = std::fs::write(&*p, ls.join("\n") + "\n");
        }
    });
}

// ------------------------------------------------------------------ interning

fn ident(k: usize) -> Identifier {
    let s = if k < 26 { ((b'a' + k as u8) as char).to_string() } else { format!("z{k}") };
    Identifier::from_str(&s).expect("identifier")
}
fn ident_id(i: &Identifier) -> usize {
    let s = i.to_string();
    if s.len() == 1 {
        (s.as_bytes()[0] - b'a') as usize
    } else if let Some(n) = s.strip_prefix('z').and_then(|r| r.parse::<usize>().ok()) {
        n
    } else {
        // not produced by this harness; intern by hash into a far range
        1_000_000 + (fnv(&s) % 1_000_000) as usize
    }
}
fn text(k: usize) -> Text {
    Text::from_str(&format!("t{k}")).expect("text")
}
fn text_id(t: &Text) -> usize {
    let s = t.to_string();
    s.strip_prefix('t').and_then(|r| r.parse().ok()).unwrap_or(1_000_000 + (fnv(&s) % 1_000_000) as usize)
}
fn base_id(k: usize) -> BaseId {
    BaseId::from_bytes([k as u8; 32])
}
fn base_id_id(b: &BaseId) -> usize {
    b.as_bytes()[0] as usize
}

/// byte strings are interned; ids < 8 are fixed patterns, later ones in order of appearance
#[derive(Default)]
struct BytesTab {
    extra: Vec<Vec<u8>>,
}
impl BytesTab {
    fn fixed(k: usize) -> Vec<u8> {
        match k {
            0 => vec![],
            1 => vec![0],
            2 => vec![1, 2, 3],
            3 => vec![0xff; 40],
            4 => vec![0x80, 0x80, 0x80, 0x80, 0x80, 0x80, 0x80, 0x80, 0x80, 0x80, 0x01],
            5 => (0..=255u8).collect(),
            6 => vec![1, 1, 1],
            _ => vec![7; 7],
        }
    }
    fn get(&mut self, k: usize) -> Vec<u8> {
        if k < 8 {
            Self::fixed(k)
        } else {
            while self.extra.len() <= k - 8 {
                let n = self.extra.len();
                self.extra.push(vec![n as u8; (n % 5) + 1]);
            }
            self.extra[k - 8].clone()
        }
    }
    fn id(&mut self, b: &[u8]) -> usize {
        for k in 0..8 {
            if Self::fixed(k) == b {
                return k;
            }
        }
        if let Some(p) = self.extra.iter().position(|x| x == b) {
            return p + 8;
        }
        self.extra.push(b.to_vec());
        self.extra.len() + 7
    }
}

// ------------------------------------------------------------------ encoding

fn enc_hv(h: &HashableValue) -> String {
    match h {
        HashableValue::Int(i) => format!("i{i}"),
        HashableValue::Bool(b) => (if *b { "t" } else { "f" }).into(),
        HashableValue::String(t) => format!("s{}", text_id(t)),
        HashableValue::Id(b) => format!("d{}", base_id_id(b)),
        HashableValue::Enum(n, i) => format!("e{}:{i}", ident_id(n)),
    }
}
fn enc_fact(f: &Fact, bt: &mut BytesTab) -> String {
    let ks: Vec<String> = f.keys.iter().map(|k| format!("{}={}", ident_id(&k.identifier), enc_hv(&k.value))).collect();
    let vs: Vec<String> = f.values.iter().map(|v| format!("{}={}", ident_id(&v.identifier), enc_value(&v.value, bt))).collect();
    format!("F{}[{}]{{{}}}", ident_id(&f.name), ks.join(","), vs.join(","))
}
fn enc_value(v: &Value, bt: &mut BytesTab) -> String {
    match v {
        Value::Unit => "u".into(),
        Value::Int(i) => format!("i{i}"),
        Value::Bool(b) => (if *b { "t" } else { "f" }).into(),
        Value::String(t) => format!("s{}", text_id(t)),
        Value::Bytes(b) => format!("y{}", bt.id(b)),
        Value::Struct(s) => {
            let fs: Vec<String> = s.fields.iter().map(|(k, v)| format!("{}={}", ident_id(k), enc_value(v, bt))).collect();
            format!("T{}{{{}}}", ident_id(&s.name), fs.join(","))
        }
        Value::Fact(f) => enc_fact(f, bt),
        Value::Id(b) => format!("d{}", base_id_id(b)),
        Value::Enum(n, i) => format!("e{}:{i}", ident_id(n)),
        Value::Identifier(n) => format!("n{}", ident_id(n)),
        Value::Option(None) => "N".into(),
        Value::Option(Some(x)) => format!("S({})", enc_value(x, bt)),
        Value::Result(Ok(x)) => format!("O({})", enc_value(x, bt)),
        Value::Result(Err(x)) => format!("E({})", enc_value(x, bt)),
    }
}
fn enc_ty(t: &TypeKind) -> String {
    match t {
        TypeKind::Unit => "u".into(),
        TypeKind::String => "s".into(),
        TypeKind::Bytes => "y".into(),
        TypeKind::Int => "i".into(),
        TypeKind::Bool => "b".into(),
        TypeKind::Id => "d".into(),
        TypeKind::Struct(n) => format!("T{}", ident_id(n)),
        TypeKind::Enum(n) => format!("e{}", ident_id(n)),
        TypeKind::Optional(t) => format!("o({})", enc_ty(t)),
        TypeKind::Never => "v".into(),
        TypeKind::Result(r) => format!("r({},{})", enc_ty(&r.ok), enc_ty(&r.err)),
    }
}
fn enc_target(t: &Target) -> String {
    match t {
        Target::Resolved(n) => format!("r{n}"),
        Target::Unresolved(l) => format!("u{}", ident_id(&l.name)),
    }
}
fn enc_reason(r: &ExitReason) -> &'static str {
    match r {
        ExitReason::Normal => "Normal",
        ExitReason::Yield => "Yield",
        ExitReason::Check => "Check",
        ExitReason::Panic => "Panic",
    }
}
fn enc_wrap(w: &WrapType) -> &'static str {
    match w {
        WrapType::Ok => "Ok",
        WrapType::Err => "Err",
        WrapType::Some => "Some",
    }
}
/// exhaustive on purpose: a new `Instruction` variant breaks the harness build (tie)
fn enc_instr(i: &Instruction, bt: &mut BytesTab) -> String {
    use Instruction as I;
    match i {
        I::Const(c) => format!("Const {}", enc_value(&Value::from(c.clone()), bt)),
        I::Identifier(n) => format!("Identifier {}", ident_id(n)),
        I::Def(n) => format!("Def {}", ident_id(n)),
        I::Get(n) => format!("Get {}", ident_id(n)),
        I::Dup => "Dup".into(),
        I::Pop => "Pop".into(),
        I::Block => "Block".into(),
        I::End => "End".into(),
        I::Jump(t) => format!("Jump {}", enc_target(t)),
        I::Branch(t) => format!("Branch {}", enc_target(t)),
        I::Next => "Next".into(),
        I::Last => "Last".into(),
        I::Call(t) => format!("Call {}", enc_target(t)),
        I::Recall(t) => format!("Recall {}", enc_target(t)),
        I::ExtCall(a, b) => format!("ExtCall {a} {b}"),
        I::Return => "Return".into(),
        I::Exit(r) => format!("Exit {}", enc_reason(r)),
        I::Add => "Add".into(),
        I::Sub => "Sub".into(),
        I::SaturatingAdd => "SaturatingAdd".into(),
        I::SaturatingSub => "SaturatingSub".into(),
        I::Not => "Not".into(),
        I::Gt => "Gt".into(),
        I::Lt => "Lt".into(),
        I::Eq => "Eq".into(),
        I::FactNew(n) => format!("FactNew {}", ident_id(n)),
        I::FactKeySet(n) => format!("FactKeySet {}", ident_id(n)),
        I::FactValueSet(n) => format!("FactValueSet {}", ident_id(n)),
        I::StructNew(n) => format!("StructNew {}", ident_id(n)),
        I::StructSet(n) => format!("StructSet {}", ident_id(n)),
        I::StructGet(n) => format!("StructGet {}", ident_id(n)),
        I::MStructSet(n) => format!("MStructSet {n}"),
        I::MStructGet(n) => format!("MStructGet {n}"),
        I::Cast(n) => format!("Cast {}", ident_id(n)),
        I::Wrap(w) => format!("Wrap {}", enc_wrap(w)),
        I::Is(w) => format!("Is {}", enc_wrap(w)),
        I::Unwrap(w) => format!("Unwrap {}", enc_wrap(w)),
        I::Publish => "Publish".into(),
        I::Create => "Create".into(),
        I::Delete => "Delete".into(),
        I::Update => "Update".into(),
        I::Emit => "Emit".into(),
        I::Query => "Query".into(),
        I::FactCount(n) => format!("FactCount {n}"),
        I::QueryStart => "QueryStart".into(),
        I::QueryNext(n) => format!("QueryNext {}", ident_id(n)),
        I::Serialize => "Serialize".into(),
        I::Deserialize => "Deserialize".into(),
        I::SaveSP => "SaveSP".into(),
        I::RestoreSP => "RestoreSP".into(),
        I::Meta(_) => "Meta".into(),
    }
}

// ------------------------------------------------------------------ decoding (replay + single code path)

struct Cur<'a> {
    s: &'a [u8],
    i: usize,
}
impl<'a> Cur<'a> {
    fn new(s: &'a str) -> Self {
        Cur { s: s.as_bytes(), i: 0 }
    }
    fn peek(&self) -> Option<u8> {
        self.s.get(self.i).copied()
    }
    fn eat(&mut self, c: u8) -> Option<()> {
        if self.peek()? == c {
            self.i += 1;
            Some(())
        } else {
            None
        }
    }
    fn nat(&mut self) -> Option<usize> {
        let st = self.i;
        while self.peek().map_or(false, |c| c.is_ascii_digit()) {
            self.i += 1;
        }
        if st == self.i {
            return None;
        }
        std::str::from_utf8(&self.s[st..self.i]).ok()?.parse().ok()
    }
    fn int(&mut self) -> Option<i64> {
        let st = self.i;
        if self.peek()? == b'-' {
            self.i += 1;
        }
        while self.peek().map_or(false, |c| c.is_ascii_digit()) {
            self.i += 1;
        }
        std::str::from_utf8(&self.s[st..self.i]).ok()?.parse().ok()
    }
    fn done(&self) -> bool {
        self.i == self.s.len()
    }
}

fn dec_hv(c: &mut Cur) -> Option<HashableValue> {
    let t = c.peek()?;
    c.i += 1;
    Some(match t {
        b'i' => HashableValue::Int(c.int()?),
        b't' => HashableValue::Bool(true),
        b'f' => HashableValue::Bool(false),
        b's' => HashableValue::String(text(c.nat()?)),
        b'd' => HashableValue::Id(base_id(c.nat()?)),
        b'e' => {
            let n = c.nat()?;
            c.eat(b':')?;
            HashableValue::Enum(ident(n), c.int()?)
        }
        _ => return None,
    })
}
fn dec_fields(c: &mut Cur, bt: &mut BytesTab) -> Option<Vec<(Identifier, Value)>> {
    let mut out = vec![];
    loop {
        match c.peek()? {
            b'}' => {
                c.i += 1;
                return Some(out);
            }
            b',' => c.i += 1,
            _ => {
                let k = c.nat()?;
                c.eat(b'=')?;
                out.push((ident(k), dec_value(c, bt)?));
            }
        }
    }
}
fn dec_value(c: &mut Cur, bt: &mut BytesTab) -> Option<Value> {
    let t = c.peek()?;
    c.i += 1;
    Some(match t {
        b'u' => Value::Unit,
        b'i' => Value::Int(c.int()?),
        b't' => Value::Bool(true),
        b'f' => Value::Bool(false),
        b's' => Value::String(text(c.nat()?)),
        b'y' => Value::Bytes(bt.get(c.nat()?)),
        b'd' => Value::Id(base_id(c.nat()?)),
        b'n' => Value::Identifier(ident(c.nat()?)),
        b'e' => {
            let n = c.nat()?;
            c.eat(b':')?;
            Value::Enum(ident(n), c.int()?)
        }
        b'N' => Value::Option(None),
        b'S' | b'O' | b'E' => {
            c.eat(b'(')?;
            let v = dec_value(c, bt)?;
            c.eat(b')')?;
            match t {
                b'S' => Value::Option(Some(Box::new(v))),
                b'O' => Value::Result(Ok(Box::new(v))),
                _ => Value::Result(Err(Box::new(v))),
            }
        }
        b'T' => {
            let n = c.nat()?;
            c.eat(b'{')?;
            let fs = dec_fields(c, bt)?;
            Value::Struct(Struct { name: ident(n), fields: fs.into_iter().collect() })
        }
        b'F' => {
            let n = c.nat()?;
            c.eat(b'[')?;
            let mut keys = vec![];
            loop {
                match c.peek()? {
                    b']' => {
                        c.i += 1;
                        break;
                    }
                    b',' => c.i += 1,
                    _ => {
                        let k = c.nat()?;
                        c.eat(b'=')?;
                        keys.push(FactKey::new(ident(k), dec_hv(c)?));
                    }
                }
            }
            c.eat(b'{')?;
            let vs = dec_fields(c, bt)?;
            Value::Fact(Fact {
                name: ident(n),
                keys,
                values: vs.into_iter().map(|(k, v)| FactValue::new(k, v)).collect(),
            })
        }
        _ => return None,
    })
}
fn value_of(s: &str, bt: &mut BytesTab) -> Option<Value> {
    let mut c = Cur::new(s);
    let v = dec_value(&mut c, bt)?;
    c.done().then_some(v)
}
fn const_of(v: &Value) -> Option<ConstValue> {
    Some(match v {
        Value::Unit => ConstValue::Unit,
        Value::Int(i) => ConstValue::Int(*i),
        Value::Bool(b) => ConstValue::Bool(*b),
        Value::String(t) => ConstValue::String(t.clone()),
        Value::Struct(s) => {
            let mut fields = BTreeMap::new();
            for (k, v) in &s.fields {
                fields.insert(k.clone(), const_of(v)?);
            }
            ConstValue::Struct(ConstStruct { name: s.name.clone(), fields })
        }
        Value::Enum(n, i) => ConstValue::Enum(n.clone(), *i),
        Value::Option(None) => ConstValue::Option(None),
        Value::Option(Some(x)) => ConstValue::Option(Some(Box::new(const_of(x)?))),
        Value::Result(Ok(x)) => ConstValue::Result(Ok(Box::new(const_of(x)?))),
        Value::Result(Err(x)) => ConstValue::Result(Err(Box::new(const_of(x)?))),
        _ => return None,
    })
}
fn dec_ty(c: &mut Cur) -> Option<TypeKind> {
    let t = c.peek()?;
    c.i += 1;
    Some(match t {
        b'u' => TypeKind::Unit,
        b's' => TypeKind::String,
        b'y' => TypeKind::Bytes,
        b'i' => TypeKind::Int,
        b'b' => TypeKind::Bool,
        b'd' => TypeKind::Id,
        b'v' => TypeKind::Never,
        b'T' => TypeKind::Struct(ident(c.nat()?)),
        b'e' => TypeKind::Enum(ident(c.nat()?)),
        b'o' => {
            c.eat(b'(')?;
            let t = dec_ty(c)?;
            c.eat(b')')?;
            TypeKind::Optional(Box::new(t))
        }
        b'r' => {
            c.eat(b'(')?;
            let a = dec_ty(c)?;
            c.eat(b',')?;
            let b = dec_ty(c)?;
            c.eat(b')')?;
            TypeKind::Result(Box::new(ResultTypeKind { ok: a, err: b }))
        }
        _ => return None,
    })
}
fn field_of(s: &str) -> Option<Field> {
    let mut c = Cur::new(s);
    let k = c.nat()?;
    c.eat(b':')?;
    let ty = dec_ty(&mut c)?;
    c.done().then_some(Field { name: ident(k), ty })
}
fn target_of(s: &str) -> Option<Target> {
    let n: usize = s.get(1..)?.parse().ok()?;
    match s.as_bytes().first()? {
        b'r' => Some(Target::Resolved(n)),
        b'u' => Some(Target::Unresolved(Label::new(ident(n), LabelType::Temporary))),
        _ => None,
    }
}
fn instr_of(t: &[&str], bt: &mut BytesTab) -> Option<Instruction> {
    use Instruction as I;
    let id = |i: usize| -> Option<Identifier> { Some(ident(t.get(i)?.parse().ok()?)) };
    let wrap = |i: usize| -> Option<WrapType> {
        Some(match *t.get(i)? {
            "Ok" => WrapType::Ok,
            "Err" => WrapType::Err,
            "Some" => WrapType::Some,
            _ => return None,
        })
    };
    let nz = |i: usize| -> Option<NonZeroUsize> { NonZeroUsize::new(t.get(i)?.parse().ok()?) };
    Some(match (t[0], t.len()) {
        ("Const", 2) => I::Const(const_of(&value_of(t[1], bt)?)?),
        ("Identifier", 2) => I::Identifier(id(1)?),
        ("Def", 2) => I::Def(id(1)?),
        ("Get", 2) => I::Get(id(1)?),
        ("Dup", 1) => I::Dup,
        ("Pop", 1) => I::Pop,
        ("Block", 1) => I::Block,
        ("End", 1) => I::End,
        ("Jump", 2) => I::Jump(target_of(t[1])?),
        ("Branch", 2) => I::Branch(target_of(t[1])?),
        ("Next", 1) => I::Next,
        ("Last", 1) => I::Last,
        ("Call", 2) => I::Call(target_of(t[1])?),
        ("Recall", 2) => I::Recall(target_of(t[1])?),
        ("ExtCall", 3) => I::ExtCall(t[1].parse().ok()?, t[2].parse().ok()?),
        ("Return", 1) => I::Return,
        ("Exit", 2) => I::Exit(match t[1] {
            "Normal" => ExitReason::Normal,
            "Yield" => ExitReason::Yield,
            "Check" => ExitReason::Check,
            "Panic" => ExitReason::Panic,
            _ => return None,
        }),
        ("Add", 1) => I::Add,
        ("Sub", 1) => I::Sub,
        ("SaturatingAdd", 1) => I::SaturatingAdd,
        ("SaturatingSub", 1) => I::SaturatingSub,
        ("Not", 1) => I::Not,
        ("Gt", 1) => I::Gt,
        ("Lt", 1) => I::Lt,
        ("Eq", 1) => I::Eq,
        ("FactNew", 2) => I::FactNew(id(1)?),
        ("FactKeySet", 2) => I::FactKeySet(id(1)?),
        ("FactValueSet", 2) => I::FactValueSet(id(1)?),
        ("StructNew", 2) => I::StructNew(id(1)?),
        ("StructSet", 2) => I::StructSet(id(1)?),
        ("StructGet", 2) => I::StructGet(id(1)?),
        ("MStructSet", 2) => I::MStructSet(nz(1)?),
        ("MStructGet", 2) => I::MStructGet(nz(1)?),
        ("Cast", 2) => I::Cast(id(1)?),
        ("Wrap", 2) => I::Wrap(wrap(1)?),
        ("Is", 2) => I::Is(wrap(1)?),
        ("Unwrap", 2) => I::Unwrap(wrap(1)?),
        ("Publish", 1) => I::Publish,
        ("Create", 1) => I::Create,
        ("Delete", 1) => I::Delete,
        ("Update", 1) => I::Update,
        ("Emit", 1) => I::Emit,
        ("Query", 1) => I::Query,
        ("FactCount", 2) => I::FactCount(t[1].parse().ok()?),
        ("QueryStart", 1) => I::QueryStart,
        ("QueryNext", 2) => I::QueryNext(id(1)?),
        ("Serialize", 1) => I::Serialize,
        ("Deserialize", 1) => I::Deserialize,
        ("SaveSP", 1) => I::SaveSP,
        ("RestoreSP", 1) => I::RestoreSP,
        ("Meta", 1) => I::Meta(Meta::Finish(true)),
        _ => return None,
    })
}
fn ctx_of(s: &str) -> Option<CommandContext> {
    let p: Vec<&str> = s.split(':').collect();
    let pol = |name: Identifier| PolicyContext { name, id: CmdId::default(), author: DeviceId::default(), version: BaseId::default() };
    Some(match (p[0], p.len()) {
        ("action", 1) => CommandContext::Action(ActionContext { name: ident(0), head_id: CmdId::default() }),
        ("policy", 1) => CommandContext::Policy(pol(ident(0))),
        ("recall", 1) => CommandContext::Recall(pol(ident(0))),
        ("action", 2) => CommandContext::Action(ActionContext { name: ident(p[1].parse().ok()?), head_id: CmdId::default() }),
        ("policy", 2) => CommandContext::Policy(pol(ident(p[1].parse().ok()?))),
        ("recall", 2) => CommandContext::Recall(pol(ident(p[1].parse().ok()?))),
        ("seal", 2) => CommandContext::Seal(SealContext { name: ident(p[1].parse().ok()?), head_id: CmdId::default() }),
        ("open", 2) => CommandContext::Open(OpenContext { name: ident(p[1].parse().ok()?) }),
        _ => return None,
    })
}

// ------------------------------------------------------------------ adversarial MachineIO

type Row = Result<(FactKeyList, FactValueList), MachineIOError>;
enum Op {
    Pop,
    Push(Value),
}
enum Ans {
    Unit(bool),
    Rows(Option<Vec<Option<(FactKeyList, FactValueList)>>>),
    Ext(Vec<Op>, bool),
}
#[derive(Default)]
struct AdvIo {
    script: RefCell<VecDeque<Ans>>,
}
impl AdvIo {
    fn unit(&self) -> Result<(), MachineIOError> {
        match self.script.borrow_mut().pop_front() {
            Some(Ans::Unit(true)) => Ok(()),
            _ => Err(MachineIOError::Internal),
        }
    }
}
impl<S: Stack> MachineIO<S> for AdvIo {
    type QueryIterator = std::vec::IntoIter<Row>;
    fn fact_insert(
        &mut self,
        _name: Identifier,
        _key: impl IntoIterator<Item = FactKey>,
        _value: impl IntoIterator<Item = FactValue>,
    ) -> Result<(), MachineIOError> {
        self.unit()
    }
    fn fact_delete(&mut self, _name: Identifier, _key: impl IntoIterator<Item = FactKey>) -> Result<(), MachineIOError> {
        self.unit()
    }
    fn fact_query(&self, _name: Identifier, _key: impl IntoIterator<Item = FactKey>) -> Result<Self::QueryIterator, MachineIOError> {
        match self.script.borrow_mut().pop_front() {
            Some(Ans::Rows(Some(rows))) => Ok(rows
                .into_iter()
                .map(|r| r.ok_or(MachineIOError::FactNotFound))
                .collect::<Vec<Row>>()
                .into_iter()),
            _ => Err(MachineIOError::Internal),
        }
    }
    fn effect(&mut self, _name: Identifier, _fields: impl IntoIterator<Item = KVPair>, _command: CmdId, _recalled: bool) {}
    fn call(&self, _module: usize, _procedure: usize, stack: &mut S, _ctx: &CommandContext) -> Result<(), MachineError> {
        match self.script.borrow_mut().pop_front() {
            Some(Ans::Ext(ops, ok)) => {
                for op in ops {
                    match op {
                        Op::Pop => {
                            let _ = stack.pop_value();
                        }
                        Op::Push(v) => {
                            let _ = stack.push_value(v);
                        }
                    }
                }
                if ok {
                    Ok(())
                } else {
                    Err(MachineError::new(MachineErrorType::IO(MachineIOError::Internal)))
                }
            }
            _ => Err(MachineError::new(MachineErrorType::IO(MachineIOError::Internal))),
        }
    }
}

// ------------------------------------------------------------------ generators

struct G<'a> {
    r: &'a mut Rng,
    /// struct definitions of the machine under construction (name id, fields)
    sdefs: Vec<(usize, Vec<(usize, TypeKind)>)>,
    fdefs: Vec<(usize, Vec<(usize, TypeKind)>, Vec<(usize, TypeKind)>)>,
    plen: usize,
}

impl<'a> G<'a> {
    fn small(&mut self) -> usize {
        self.r.below(8) as usize
    }
    fn int(&mut self) -> i64 {
        match self.r.below(8) {
            0 => i64::MAX,
            1 => i64::MIN,
            2 => -1,
            3 => 0,
            4 => i64::MAX - 1,
            _ => self.r.below(20) as i64 - 5,
        }
    }
    fn ty(&mut self, depth: u32) -> TypeKind {
        match self.r.below(if depth == 0 { 8 } else { 11 }) {
            0 => TypeKind::Int,
            1 => TypeKind::Bool,
            2 => TypeKind::String,
            3 => TypeKind::Bytes,
            4 => TypeKind::Id,
            5 => TypeKind::Unit,
            6 => TypeKind::Struct(ident(self.r.below(4) as usize)),
            7 => TypeKind::Enum(ident(self.small())),
            8 => TypeKind::Optional(Box::new(self.ty(depth - 1))),
            9 => TypeKind::Never,
            _ => TypeKind::Result(Box::new(ResultTypeKind { ok: self.ty(depth - 1), err: self.ty(depth - 1) })),
        }
    }
    fn hv(&mut self) -> HashableValue {
        match self.r.below(5) {
            0 => HashableValue::Int(self.int()),
            1 => HashableValue::Bool(self.r.chance(1, 2)),
            2 => HashableValue::String(text(self.small())),
            3 => HashableValue::Id(base_id(self.small())),
            _ => HashableValue::Enum(ident(self.small()), self.int()),
        }
    }
    fn hv_of(&mut self, t: &TypeKind) -> HashableValue {
        match t {
            TypeKind::Int => HashableValue::Int(self.int()),
            TypeKind::Bool => HashableValue::Bool(self.r.chance(1, 2)),
            TypeKind::String => HashableValue::String(text(self.small())),
            TypeKind::Id => HashableValue::Id(base_id(self.small())),
            TypeKind::Enum(n) => HashableValue::Enum(n.clone(), self.int()),
            _ => self.hv(),
        }
    }
    /// a value that fits `t` (mostly)
    fn value_of(&mut self, t: &TypeKind, depth: u32) -> Value {
        if self.r.chance(1, 12) {
            return self.value(depth);
        }
        match t {
            TypeKind::Unit => Value::Unit,
            TypeKind::Int => Value::Int(self.int()),
            TypeKind::Bool => Value::Bool(self.r.chance(1, 2)),
            TypeKind::String => Value::String(text(self.small())),
            TypeKind::Bytes => Value::Bytes(BytesTab::fixed(self.small())),
            TypeKind::Id => Value::Id(base_id(self.small())),
            TypeKind::Enum(n) => Value::Enum(n.clone(), self.int()),
            TypeKind::Struct(n) => self.struct_named(ident_id(n), depth),
            TypeKind::Optional(t) => {
                if depth == 0 || self.r.chance(1, 3) {
                    Value::Option(None)
                } else {
                    Value::Option(Some(Box::new(self.value_of(t, depth - 1))))
                }
            }
            TypeKind::Result(r) => {
                let d = depth.saturating_sub(1);
                if self.r.chance(1, 2) {
                    Value::Result(Ok(Box::new(self.value_of(&r.ok, d))))
                } else {
                    Value::Result(Err(Box::new(self.value_of(&r.err, d))))
                }
            }
            TypeKind::Never => Value::Unit,
        }
    }
    fn struct_named(&mut self, name: usize, depth: u32) -> Value {
        let mut fields = BTreeMap::new();
        if depth == 0 {
            // struct definitions may be (mutually) recursive: stop here
            return Value::Struct(Struct { name: ident(name), fields });
        }
        if let Some((_, fs)) = self.sdefs.iter().find(|d| d.0 == name).cloned() {
            for (f, t) in fs {
                if !self.r.chance(1, 10) {
                    fields.insert(ident(f), self.value_of(&t, depth - 1));
                }
            }
        }
        if self.r.chance(1, 10) {
            fields.insert(ident(8 + self.small()), Value::Int(1));
        }
        Value::Struct(Struct { name: ident(name), fields })
    }
    fn fact_named(&mut self, name: usize, partial: bool) -> Fact {
        let mut f = Fact::new(ident(name));
        if let Some((_, ks, vs)) = self.fdefs.iter().find(|d| d.0 == name).cloned() {
            let nk = if partial { self.r.below(ks.len() as u64 + 1) as usize } else { ks.len() };
            for (k, t) in ks.iter().take(nk) {
                let h = self.hv_of(t);
                f.keys.push(FactKey::new(ident(*k), h));
            }
            for (v, t) in &vs {
                if !partial || self.r.chance(1, 2) {
                    let val = self.value_of(t, 1);
                    f.values.push(FactValue::new(ident(*v), val));
                }
            }
        }
        if self.r.chance(1, 12) {
            let h = self.hv();
            f.keys.push(FactKey::new(ident(self.small()), h));
        }
        f
    }
    fn value(&mut self, depth: u32) -> Value {
        match self.r.below(if depth == 0 { 9 } else { 14 }) {
            0 => Value::Unit,
            1 | 2 => Value::Int(self.int()),
            3 => Value::Bool(self.r.chance(1, 2)),
            4 => Value::String(text(self.small())),
            5 => Value::Bytes(BytesTab::fixed(self.small())),
            6 => Value::Id(base_id(self.small())),
            7 => Value::Enum(ident(self.small()), self.int()),
            8 => Value::Identifier(ident(self.small())),
            9 => Value::Option(if self.r.chance(1, 3) { None } else { Some(Box::new(self.value(depth - 1))) }),
            10 => {
                if self.r.chance(1, 2) {
                    Value::Result(Ok(Box::new(self.value(depth - 1))))
                } else {
                    Value::Result(Err(Box::new(self.value(depth - 1))))
                }
            }
            11 | 12 => {
                let n = self.r.below(4) as usize;
                self.struct_named(n, depth)
            }
            _ => {
                let n = 4 + self.r.below(3) as usize;
                let partial = self.r.chance(1, 2);
                Value::Fact(self.fact_named(n, partial))
            }
        }
    }
    fn const_value(&mut self, depth: u32) -> ConstValue {
        loop {
            let v = self.value(depth);
            if let Some(c) = const_of(&v) {
                return c;
            }
        }
    }
    fn target(&mut self) -> Target {
        match self.r.below(12) {
            0 => Target::Unresolved(Label::new(ident(self.small()), LabelType::Temporary)),
            1 => Target::Resolved(usize::MAX),
            2 => Target::Resolved(self.plen),
            3 => Target::Resolved(self.plen + 1 + self.small()),
            _ => Target::Resolved(self.r.below(self.plen as u64 + 1) as usize),
        }
    }
    fn wrap(&mut self) -> WrapType {
        *self.r.pick(&[WrapType::Ok, WrapType::Err, WrapType::Some])
    }
    fn reason(&mut self) -> ExitReason {
        self.r.pick(&[ExitReason::Normal, ExitReason::Yield, ExitReason::Check, ExitReason::Panic]).clone()
    }
    fn nz(&mut self) -> NonZeroUsize {
        let n = match self.r.below(12) {
            0 => usize::MAX,
            1 => usize::MAX / 2 + 1,
            2 => usize::MAX / 2,
            3 => isize::MAX as usize / 8,
            4 => 101,
            5 => 100,
            _ => 1 + self.r.below(4) as usize,
        };
        NonZeroUsize::new(n).unwrap()
    }
    fn sname(&mut self) -> Identifier {
        ident(self.r.below(5) as usize)
    }
    fn fname(&mut self) -> Identifier {
        ident(8 + self.small())
    }
    /// one instruction drawn uniformly from ALL variants, operands arbitrary
    fn any_instr(&mut self) -> Instruction {
        use Instruction as I;
        match self.r.below(51) {
            0 => I::Const(self.const_value(2)),
            1 => I::Identifier(self.fname()),
            2 => I::Def(ident(self.small())),
            3 => I::Get(ident(self.small())),
            4 => I::Dup,
            5 => I::Pop,
            6 => I::Block,
            7 => I::End,
            8 => I::Jump(self.target()),
            9 => I::Branch(self.target()),
            10 => I::Next,
            11 => I::Last,
            12 => I::Call(self.target()),
            13 => I::Recall(self.target()),
            14 => I::ExtCall(self.small(), if self.r.chance(1, 4) { usize::MAX } else { self.small() }),
            15 => I::Return,
            16 => I::Exit(self.reason()),
            17 => I::Add,
            18 => I::Sub,
            19 => I::SaturatingAdd,
            20 => I::SaturatingSub,
            21 => I::Not,
            22 => I::Gt,
            23 => I::Lt,
            24 => I::Eq,
            25 => I::FactNew(ident(4 + self.r.below(4) as usize)),
            26 => I::FactKeySet(self.fname()),
            27 => I::FactValueSet(self.fname()),
            28 => I::StructNew(self.sname()),
            29 => I::StructSet(self.fname()),
            30 => I::StructGet(self.fname()),
            31 => I::MStructSet(self.nz()),
            32 => I::MStructGet(self.nz()),
            33 => I::Cast(self.sname()),
            34 => I::Wrap(self.wrap()),
            35 => I::Is(self.wrap()),
            36 => I::Unwrap(self.wrap()),
            37 => I::Publish,
            38 => I::Create,
            39 => I::Delete,
            40 => I::Update,
            41 => I::Emit,
            42 => I::Query,
            43 => I::FactCount(match self.r.below(5) {
                0 => i64::MAX,
                1 => i64::MIN,
                2 => 0,
                _ => self.r.below(5) as i64,
            }),
            44 => I::QueryStart,
            45 => I::QueryNext(ident(self.small())),
            46 => I::Serialize,
            47 => I::Deserialize,
            48 => I::SaveSP,
            49 => I::RestoreSP,
            _ => I::Meta(if self.r.chance(1, 2) { Meta::Finish(self.r.chance(1, 2)) } else { Meta::FFI(ident(0), ident(1)) }),
        }
    }
    fn push_const_of(&mut self, t: &TypeKind, out: &mut Vec<Instruction>) {
        loop {
            let v = self.value_of(t, 1);
            if let Some(c) = const_of(&v) {
                out.push(Instruction::Const(c));
                return;
            }
            if matches!(t, TypeKind::Bytes | TypeKind::Id) {
                // not expressible as a constant: use whatever is on the stack
                out.push(Instruction::Dup);
                return;
            }
        }
    }
    fn build_struct(&mut self, out: &mut Vec<Instruction>) -> usize {
        use Instruction as I;
        let (name, fs) = if self.sdefs.is_empty() || self.r.chance(1, 10) {
            (self.r.below(5) as usize, vec![])
        } else {
            self.r.pick(&self.sdefs).clone()
        };
        out.push(I::StructNew(ident(name)));
        if self.r.chance(1, 2) {
            for (f, t) in &fs {
                self.push_const_of(t, out);
                out.push(I::StructSet(ident(*f)));
            }
        } else if !fs.is_empty() {
            for (f, t) in &fs {
                out.push(I::Identifier(ident(*f)));
                self.push_const_of(t, out);
            }
            let n = if self.r.chance(1, 8) { self.nz() } else { NonZeroUsize::new(fs.len()).unwrap() };
            out.push(I::MStructSet(n));
        }
        name
    }
    fn build_fact(&mut self, out: &mut Vec<Instruction>, partial: bool) {
        use Instruction as I;
        let name = if self.fdefs.is_empty() || self.r.chance(1, 10) { 4 + self.r.below(4) as usize } else { self.r.pick(&self.fdefs).0 };
        let f = self.fact_named(name, partial);
        out.push(I::FactNew(f.name.clone()));
        for k in &f.keys {
            out.push(I::Const(const_of(&Value::from(k.value.clone())).unwrap_or(ConstValue::Int(0))));
            out.push(I::FactKeySet(k.identifier.clone()));
        }
        for v in &f.values {
            if let Some(c) = const_of(&v.value) {
                out.push(I::Const(c));
                out.push(I::FactValueSet(v.identifier.clone()));
            }
        }
    }
    /// a short, mostly well-formed instruction group exercising one instruction kind
    fn snippet(&mut self, out: &mut Vec<Instruction>) {
        use Instruction as I;
        match self.r.below(26) {
            0 | 1 => {
                out.push(I::Const(ConstValue::Int(self.int())));
                out.push(I::Const(ConstValue::Int(self.int())));
                out.push(self.r.pick(&[I::Add, I::Sub, I::SaturatingAdd, I::SaturatingSub, I::Gt, I::Lt, I::Eq]).clone());
            }
            2 => {
                out.push(I::Const(ConstValue::Bool(self.r.chance(1, 2))));
                out.push(I::Not);
                out.push(I::Branch(self.target()));
            }
            3 => {
                out.push(I::Const(self.const_value(2)));
                out.push(I::Const(self.const_value(2)));
                out.push(I::Eq);
            }
            4 => {
                let x = ident(self.small());
                out.push(I::Const(self.const_value(1)));
                out.push(I::Def(x.clone()));
                out.push(I::Get(if self.r.chance(1, 6) { ident(self.small()) } else { x }));
            }
            5 => {
                out.push(I::Block);
                self.snippet(out);
                if !self.r.chance(1, 6) {
                    out.push(I::End);
                }
            }
            6 => {
                out.push(I::Call(self.target()));
            }
            7 => out.push(I::Return),
            8 => {
                out.push(I::SaveSP);
                let n = self.r.below(3);
                for _ in 0..n {
                    out.push(I::Const(self.const_value(1)));
                }
                if self.r.chance(1, 4) {
                    out.push(I::Pop);
                }
                out.push(I::RestoreSP);
            }
            9 => {
                out.push(I::Const(self.const_value(1)));
                let w = self.wrap();
                out.push(I::Wrap(w));
                out.push(I::Dup);
                out.push(I::Is(self.wrap()));
                out.push(I::Pop);
                out.push(I::Unwrap(if self.r.chance(3, 4) { w } else { self.wrap() }));
            }
            10 => {
                self.build_struct(out);
                out.push(I::Publish);
            }
            11 => {
                self.build_struct(out);
                out.push(I::Emit);
            }
            12 => {
                self.build_struct(out);
                out.push(I::Serialize);
                if self.r.chance(1, 2) {
                    out.push(I::Deserialize);
                }
            }
            13 => {
                let n = self.build_struct(out);
                let fs = self.sdefs.iter().find(|d| d.0 == n).map(|d| d.1.clone()).unwrap_or_default();
                if !fs.is_empty() && self.r.chance(1, 2) {
                    let k = self.r.range(1, fs.len() as u64) as usize;
                    for (f, _) in fs.iter().take(k) {
                        out.push(I::Identifier(ident(*f)));
                    }
                    // identifiers must be below the struct: rotate by building the struct last is
                    // not expressible, so this mostly exercises the error path
                    out.push(I::MStructGet(NonZeroUsize::new(k).unwrap()));
                } else {
                    let f = if fs.is_empty() || self.r.chance(1, 5) { self.fname() } else { ident(self.r.pick(&fs).0) };
                    out.push(I::StructGet(f));
                }
            }
            14 => {
                self.build_struct(out);
                out.push(I::Cast(self.sname()));
            }
            15 => {
                self.build_fact(out, false);
                out.push(self.r.pick(&[I::Create, I::Delete]).clone());
            }
            16 | 17 => {
                self.build_fact(out, true);
                let lim = self.r.below(4) as i64;
                out.push(self.r.pick(&[I::Query, I::FactCount(lim), I::FactCount(i64::MAX), I::QueryStart]).clone());
            }
            18 => {
                self.build_fact(out, true);
                out.push(I::QueryStart);
                let x = ident(self.small());
                out.push(I::QueryNext(x.clone()));
                out.push(I::Pop);
                out.push(I::QueryNext(if self.r.chance(1, 2) { x } else { ident(self.small()) }));
            }
            19 => {
                self.build_fact(out, true);
                self.build_fact(out, false);
                out.push(I::Update);
            }
            20 => out.push(I::ExtCall(self.small(), self.small())),
            21 => out.push(I::Deserialize),
            22 => out.push(I::Recall(self.target())),
            23 => out.push(I::Jump(self.target())),
            _ => {
                // identifiers first, struct below them: the shape MStructGet expects
                let (name, fs) = if self.sdefs.is_empty() { (0, vec![]) } else { self.r.pick(&self.sdefs).clone() };
                let v = self.struct_named(name, 1);
                if let Some(c) = const_of(&v) {
                    out.push(I::Const(c));
                    let k = fs.len().min(1 + self.small());
                    for (f, _) in fs.iter().take(k) {
                        out.push(I::Identifier(ident(*f)));
                    }
                    if k > 0 {
                        out.push(I::MStructGet(NonZeroUsize::new(k).unwrap()));
                    }
                }
            }
        }
    }
}

// ------------------------------------------------------------------ a case: setup lines + steps

fn err_class(e: &MachineErrorType) -> &'static str {
    use MachineErrorType as E;
    match e {
        E::StackUnderflow => "StackUnderflow",
        E::StackOverflow => "StackOverflow",
        E::AlreadyDefined(_) => "AlreadyDefined",
        E::NotDefined(_) => "NotDefined",
        E::InvalidType { .. } => "InvalidType",
        E::InvalidStructMember(_) => "InvalidStructMember",
        E::InvalidFact(_) => "InvalidFact",
        E::InvalidSchema(_) => "InvalidSchema",
        E::UnresolvedTarget(_) => "UnresolvedTarget",
        E::InvalidAddress(_) => "InvalidAddress",
        E::BadState(_) => "BadState",
        E::IntegerOverflow => "IntegerOverflow",
        E::InvalidInstruction => "InvalidInstruction",
        E::CallStack => "CallStack",
        E::IO(_) => "IO",
        E::FfiModuleNotDefined(_) => "FfiModuleNotDefined",
        E::FfiProcedureNotDefined(..) => "FfiProcedureNotDefined",
        E::ContextMismatch => "ContextMismatch",
        E::Serialize(_) => "Serialize",
        E::Deserialize(_) => "Deserialize",
        E::Bug(_) => "Bug",
        E::Unknown(_) => "Unknown",
    }
}

fn top_of(st: &MachineStack) -> String {
    match st.as_slice().last() {
        None => "-".into(),
        Some(v) => match v {
            Value::Unit => "u".into(),
            Value::Int(i) => format!("i{i}"),
            Value::Bool(b) => (if *b { "t" } else { "f" }).into(),
            Value::String(_) => "s".into(),
            Value::Bytes(_) => "y".into(),
            Value::Struct(s) => format!("T{}", ident_id(&s.name)),
            Value::Fact(f) => format!("F{}", ident_id(&f.name)),
            Value::Id(_) => "d".into(),
            Value::Enum(n, i) => format!("e{}:{i}", ident_id(n)),
            Value::Identifier(n) => format!("n{}", ident_id(n)),
            Value::Option(None) => "N".into(),
            Value::Option(Some(_)) => "S".into(),
            Value::Result(Ok(_)) => "O".into(),
            Value::Result(Err(_)) => "E".into(),
        },
    }
}

/// machine + initial state parsed from setup lines
struct Setup {
    ctx: CommandContext,
    machine: Machine,
    init: Vec<Value>,
}

fn parse_setup(lines: &[String], bt: &mut BytesTab) -> Result<Setup, String> {
    let mut s = Setup {
        ctx: ctx_of("action").unwrap(),
        machine: Machine::new(Vec::<Instruction>::new()),
        init: vec![],
    };
    for l in lines {
        let t: Vec<&str> = l.split(' ').collect();
        let bad = || format!("bad setup line `{l}`");
        match t[0] {
            "new" if t.len() == 2 => s.ctx = ctx_of(t[1]).ok_or_else(bad)?,
            "sdef" if t.len() >= 2 => {
                let name = ident(t[1].parse().map_err(|_| bad())?);
                let items: Option<Vec<Field>> = t[2..].iter().map(|f| field_of(f)).collect();
                s.machine.struct_defs.insert(StructDef { name, items: items.ok_or_else(bad)? });
            }
            "fdef" if t.len() >= 3 => {
                let name = ident(t[1].parse().map_err(|_| bad())?);
                let nk: usize = t[2].parse().map_err(|_| bad())?;
                let items: Option<Vec<Field>> = t[3..].iter().map(|f| field_of(f)).collect();
                let items = items.ok_or_else(bad)?;
                if nk > items.len() {
                    return Err(bad());
                }
                s.machine.fact_defs.insert(FactDef { name, key: items[..nk].to_vec(), value: items[nk..].to_vec(), immutable: false });
            }
            "label" if t.len() == 4 => {
                let name = ident(t[1].parse().map_err(|_| bad())?);
                let lt = label_type_of(t[2]).ok_or_else(bad)?;
                s.machine.labels.insert(Label::new(name, lt), t[3].parse().map_err(|_| bad())?);
            }
            "adef" | "cdef" if t.len() >= 2 => {
                let name = ident(t[1].parse().map_err(|_| bad())?);
                let items: Option<Vec<Field>> = t[2..].iter().map(|f| field_of(f)).collect();
                let items = items.ok_or_else(bad)?;
                if t[0] == "adef" {
                    s.machine.action_defs.insert(ActionDef { name, persistence: Persistence::Persistent, params: items, result_type: TypeKind::Unit });
                } else {
                    s.machine.command_defs.insert(CommandDef { name, persistence: Persistence::Persistent, attributes: vec![], fields: items });
                }
            }
            "cmap" if t.len() >= 2 => {
                let text = String::from_utf8(vh::unhex(t[1]).ok_or_else(bad)?).map_err(|_| bad())?;
                let mut cm = CodeMap::new(text);
                for e in &t[2..] {
                    let p: Vec<usize> = e.split(':').filter_map(|x| x.parse().ok()).collect();
                    if p.len() != 3 || p[1] > p[2] {
                        return Err(bad());
                    }
                    // unsorted entries are refused by the code map itself
                    let _ = cm.map_instruction(p[0], aranya_policy_vm::ast::Span::new(p[1], p[2]));
                }
                s.machine.codemap = Some(cm);
            }
            "glob" if t.len() == 3 => {
                let v = value_of(t[2], bt).and_then(|v| const_of(&v)).ok_or_else(bad)?;
                s.machine.globals.insert(ident(t[1].parse().map_err(|_| bad())?), v);
            }
            "ins" if t.len() >= 2 => s.machine.progmem.push(instr_of(&t[1..], bt).ok_or_else(bad)?),
            "push" if t.len() == 2 => s.init.push(value_of(t[1], bt).ok_or_else(bad)?),
            _ => return Err(bad()),
        }
    }
    Ok(s)
}

enum Steps<'a> {
    Gen(&'a mut Rng, usize),
    Replay(Vec<String>),
}

/// io answers for the instruction about to run: (script for the real IO, request tokens)
fn gen_io(r: &mut Rng, instr: Option<&Instruction>, fdefs: &[(usize, Vec<(usize, TypeKind)>, Vec<(usize, TypeKind)>)], top: Option<&Value>, bt: &mut BytesTab) -> (Vec<Ans>, Vec<String>) {
    use Instruction as I;
    let mut ans = vec![];
    let mut toks = vec![];
    let mut unit = |r: &mut Rng, ans: &mut Vec<Ans>, toks: &mut Vec<String>| {
        let ok = !r.chance(1, 5);
        ans.push(Ans::Unit(ok));
        toks.push(format!("U{}", ok as u8));
    };
    let mut rows = |r: &mut Rng, ans: &mut Vec<Ans>, toks: &mut Vec<String>, bt: &mut BytesTab| {
        if r.chance(1, 8) {
            ans.push(Ans::Rows(None));
            toks.push("Qe".into());
            return;
        }
        let n = r.below(5) as usize;
        let mut out = vec![];
        let mut t = vec![format!("Q{n}")];
        for _ in 0..n {
            if r.chance(1, 8) {
                out.push(None);
                t.push("E".into());
                continue;
            }
            // rows resembling the fact on top of the stack (so that some match), or a schema, or junk
            let mut g = G { r, sdefs: vec![], fdefs: fdefs.to_vec(), plen: 0 };
            let mut f = match top {
                Some(Value::Fact(tf)) if g.r.chance(2, 3) => {
                    let mut f = g.fact_named(ident_id(&tf.name), false);
                    // copy the query's bound keys/values so the row matches
                    if g.r.chance(2, 3) {
                        for (i, k) in tf.keys.iter().enumerate() {
                            if i < f.keys.len() {
                                f.keys[i] = k.clone();
                            } else {
                                f.keys.push(k.clone());
                            }
                        }
                        for v in &tf.values {
                            match f.values.iter_mut().find(|x| x.identifier == v.identifier) {
                                Some(x) => x.value = v.value.clone(),
                                None => f.values.push(v.clone()),
                            }
                        }
                    }
                    f
                }
                _ => {
                    let n = 4 + g.r.below(4) as usize;
                    let partial = g.r.chance(1, 2);
                    g.fact_named(n, partial)
                }
            };
            // no duplicate value identifiers (sort order of duplicates is unspecified in `Update`)
            let mut seen = vec![];
            f.values.retain(|v| {
                let k = v.identifier.clone();
                if seen.contains(&k) {
                    false
                } else {
                    seen.push(k);
                    true
                }
            });
            t.push(enc_fact(&f, bt));
            out.push(Some((f.keys, f.values)));
        }
        ans.push(Ans::Rows(Some(out)));
        toks.extend(t);
    };
    match instr {
        Some(I::Create) | Some(I::Delete) => unit(r, &mut ans, &mut toks),
        Some(I::Update) => {
            rows(r, &mut ans, &mut toks, bt);
            unit(r, &mut ans, &mut toks);
            unit(r, &mut ans, &mut toks);
        }
        Some(I::Query) | Some(I::FactCount(_)) | Some(I::QueryStart) => rows(r, &mut ans, &mut toks, bt),
        Some(I::ExtCall(..)) => {
            let ok = !r.chance(1, 4);
            let n = match r.below(6) {
                0 => 0,
                1 => 120,
                _ => r.below(5) as usize,
            };
            let mut ops = vec![];
            let mut t = vec![format!("X{}:{n}", ok as u8)];
            let push_heavy = r.chance(1, 2);
            for _ in 0..n {
                if r.chance(if push_heavy { 1 } else { 3 }, 4) {
                    ops.push(Op::Pop);
                    t.push("P".into());
                } else {
                    let mut g = G { r, sdefs: vec![], fdefs: fdefs.to_vec(), plen: 0 };
                    let v = g.value(2);
                    t.push(format!("V{}", enc_value(&v, bt)));
                    ops.push(Op::Push(v));
                }
            }
            ans.push(Ans::Ext(ops, ok));
            toks.extend(t);
        }
        _ => {}
    }
    (ans, toks)
}

fn parse_io(toks: &[&str], bt: &mut BytesTab) -> Option<Vec<Ans>> {
    let mut out = vec![];
    let mut i = 0;
    while i < toks.len() {
        let t = toks[i];
        i += 1;
        if t == "U0" || t == "U1" {
            out.push(Ans::Unit(t == "U1"));
        } else if t == "Qe" {
            out.push(Ans::Rows(None));
        } else if let Some(n) = t.strip_prefix('Q') {
            let n: usize = n.parse().ok()?;
            let mut rows = vec![];
            for _ in 0..n {
                let r = *toks.get(i)?;
                i += 1;
                if r == "E" {
                    rows.push(None);
                } else {
                    match value_of(r, bt)? {
                        Value::Fact(f) => rows.push(Some((f.keys, f.values))),
                        _ => return None,
                    }
                }
            }
            out.push(Ans::Rows(Some(rows)));
        } else if let Some(x) = t.strip_prefix('X') {
            let (ok, n) = x.split_once(':')?;
            let n: usize = n.parse().ok()?;
            let mut ops = vec![];
            for _ in 0..n {
                let o = *toks.get(i)?;
                i += 1;
                if o == "P" {
                    ops.push(Op::Pop);
                } else {
                    ops.push(Op::Push(value_of(o.strip_prefix('V')?, bt)?));
                }
            }
            out.push(Ans::Ext(ops, ok == "1"));
        } else if t.starts_with('C') {
            // codec results are recomputed from the real machine
        } else {
            return None;
        }
    }
    Some(out)
}

/// result of `serialize_struct` / `deserialize_struct` for the step about to run (public API of the
/// machine, called independently of `step`)
fn codec_token(machine: &Machine, ctx: &CommandContext, instr: Option<&Instruction>, top: Option<&Value>, bt: &mut BytesTab, rec: &mut Recorder) -> Option<String> {
    match (instr, ctx, top) {
        (Some(Instruction::Serialize), CommandContext::Seal(c), Some(Value::Struct(s))) if s.name == c.name => {
            let r = vh::catch(AssertUnwindSafe(|| machine.serialize_struct(s)));
            Some(match r {
                Ok(Ok(bytes)) => format!("C{}", enc_value(&Value::Bytes(bytes), bt)),
                Ok(Err(_)) => "C-".into(),
                Err(msg) => {
                    rec.oracle_fail(format!("PANIC in Machine::serialize_struct: {msg}"));
                    rec.panics.push(format!("serialize_struct: {msg}"));
                    "C-".into()
                }
            })
        }
        (Some(Instruction::Deserialize), CommandContext::Open(c), Some(Value::Bytes(b))) => {
            let name = c.name.clone();
            let r = vh::catch(AssertUnwindSafe(|| machine.deserialize_struct(name, b)));
            Some(match r {
                Ok(Ok(s)) => format!("C{}", enc_value(&Value::Struct(s), bt)),
                Ok(Err(_)) => "C-".into(),
                Err(msg) => {
                    rec.oracle_fail(format!("PANIC in Machine::deserialize_struct: {msg}"));
                    rec.panics.push(format!("deserialize_struct: {msg}"));
                    "C-".into()
                }
            })
        }
        (Some(Instruction::Serialize), ..) | (Some(Instruction::Deserialize), ..) => Some("C-".into()),
        _ => None,
    }
}

/// `RunState::source_location()` at the current pc: the same code-map lookup the VM performs while
/// building a `MachineError` (`CodeMap::span_from_instruction`, `SpannedText::start_linecol`, `as_str`)
fn record_loc(rec: &mut Recorder, rs: &aranya_policy_vm::RunState<'_, AdvIo>) {
    match vh::catch(AssertUnwindSafe(|| rs.source_location())) {
        Err(msg) => {
            rec.line("loc", "panic");
            rec.count("loc:PANIC");
            rec.oracle_fail(format!("PANIC in RunState::source_location at pc={}: {msg}", rs.pc()));
            rec.panics.push(format!("source_location: pc={}: {msg}", rs.pc()));
        }
        Ok(None) => {
            rec.line("loc", "loc=-");
            rec.count("loc:none");
        }
        Ok(Some(s)) => {
            // "at row R col C:\n\t<text>"
            let head = s.lines().next().unwrap_or("");
            let nums: Vec<&str> = head.trim_end_matches(':').split(' ').collect();
            let ans = if nums.len() == 5 { format!("loc={}:{}", nums[2], nums[4]) } else { format!("loc=?{head}") };
            rec.line("loc", ans);
            rec.count("loc:some");
        }
    }
}

fn instr_name(i: &Instruction) -> String {
    let mut bt = BytesTab::default();
    enc_instr(i, &mut bt).split(' ').next().unwrap().to_string()
}

/// run one case; returns false if a panic was seen
fn run_case(rec: &mut Recorder, setup_lines: &[String], steps: Steps, fdefs: &[(usize, Vec<(usize, TypeKind)>, Vec<(usize, TypeKind)>)]) {
    rec.begin_case();
    let mut bt = BytesTab::default();
    let setup = match parse_setup(setup_lines, &mut bt) {
        Ok(s) => s,
        Err(e) => {
            rec.notes.push(e);
            return;
        }
    };
    let Setup { ctx, machine, init } = setup;
    let mut io = AdvIo::default();
    let mut rs = machine.create_run_state(&mut io, ctx.clone());
    for l in setup_lines {
        if let Some(v) = l.strip_prefix("push ") {
            let v = value_of(v, &mut bt).unwrap();
            let r = rs.stack.push_value(v);
            rec.line(l.clone(), if r.is_ok() { "ok".to_string() } else { "err StackOverflow".to_string() });
        } else {
            rec.line(l.clone(), "ok");
        }
    }
    let _ = init;
    let mut cur_ctx = ctx;
    let (mut rng_opt, budget, replay) = match steps {
        Steps::Gen(r, b) => (Some(r), b, vec![]),
        Steps::Replay(v) => {
            let n = v.len();
            (None, n, v)
        }
    };
    let mut fp = String::new();
    let mut executed = 0usize;
    for k in 0..budget {
        let pc = rs.pc();
        let instr = machine.progmem.get(pc).cloned();
        let top = rs.stack.as_slice().last().cloned();
        let (ans, mut toks) = match rng_opt.as_mut() {
            Some(r) => gen_io(r, instr.as_ref(), fdefs, top.as_ref(), &mut bt),
            None => {
                let t: Vec<&str> = replay[k].split(' ').skip(1).filter(|x| !x.is_empty()).collect();
                match parse_io(&t, &mut bt) {
                    Some(a) => (a, t.iter().filter(|x| !x.starts_with('C')).map(|x| x.to_string()).collect()),
                    None => {
                        rec.notes.push(format!("replay: bad io answers in `{}`", replay[k]));
                        return;
                    }
                }
            }
        };
        trace_push(if toks.is_empty() { "step".to_string() } else { format!("step {}", toks.join(" ")) });
        if let Some(c) = codec_token(&machine, &cur_ctx, instr.as_ref(), top.as_ref(), &mut bt, rec) {
            toks.push(c);
        }
        *rs.io.script.borrow_mut() = ans.into();
        let req = if toks.is_empty() { "step".to_string() } else { format!("step {}", toks.join(" ")) };
        let name = instr.as_ref().map(instr_name).unwrap_or_else(|| "<pc out of range>".into());
        rec.count(&format!("instr:{name}"));
        let res = vh::catch(AssertUnwindSafe(|| rs.step()));
        match res {
            Err(msg) => {
                rec.line(req, "panic");
                rec.count("outcome:PANIC");
                rec.oracle_fail(format!("PANIC in RunState::step at pc={pc} on `{name}`: {msg}"));
                rec.panics.push(format!("step: pc={pc} instr={name}: {msg}"));
                break;
            }
            Ok(Ok(MachineStatus::Executing)) => {
                rec.line(req, format!("exec pc={} sp={} top={}", rs.pc(), rs.stack.len(), top_of(&rs.stack)));
                rec.count("outcome:exec");
                executed += 1;
                fp.push_str(&name);
                if matches!(instr, Some(Instruction::Recall(_))) {
                    if let CommandContext::Policy(c) = &cur_ctx {
                        cur_ctx = CommandContext::Recall(c.clone());
                    }
                }
            }
            Ok(Ok(MachineStatus::Exited(r))) => {
                rec.line(req, format!("exit {} pc={} sp={} top={}", enc_reason(&r), rs.pc(), rs.stack.len(), top_of(&rs.stack)));
                rec.count(&format!("outcome:exit-{}", enc_reason(&r)));
                executed += 1;
                fp.push_str(&name);
                // `Yield` (publish) is resumable; everything else ends the run
                if r != ExitReason::Yield || !matches!(instr, Some(Instruction::Publish)) {
                    break;
                }
            }
            Ok(Err(e)) => {
                rec.line(req, format!("err {} pc={} sp={}", err_class(&e.err_type), rs.pc(), rs.stack.len()));
                rec.count(&format!("outcome:err-{}", err_class(&e.err_type)));
                rec.count(&format!("err-at:{name}:{}", err_class(&e.err_type)));
                break;
            }
        }
    }
    if machine.codemap.is_some() && !rec.current_case_lines().last().map_or(false, |l| l == "loc") {
        let panicked = rec.panics.len();
        let _ = panicked;
        record_loc(rec, &rs);
    }
    rec.count_n("steps-executed", executed as u64);
    if executed >= 3 {
        rec.nontrivial(fnv(&format!("{}|{fp}", setup_lines.join("\n"))));
    }
    // Display of the run state / machine must not panic either (used in error reporting paths)
    let r = vh::catch(AssertUnwindSafe(|| format!("{rs}").len() + format!("{machine}").len()));
    if let Err(msg) = r {
        rec.oracle_fail(format!("PANIC in Display for RunState/Machine: {msg}"));
        rec.panics.push(format!("display: {msg}"));
    }
}

// ------------------------------------------------------------------ entry calls (setup_* / call_*)

fn label_type_of(s: &str) -> Option<LabelType> {
    Some(match s {
        "Action" => LabelType::Action,
        "CommandPolicy" => LabelType::CommandPolicy,
        "CommandRecall" => LabelType::CommandRecall,
        "CommandSeal" => LabelType::CommandSeal,
        "CommandOpen" => LabelType::CommandOpen,
        "Temporary" => LabelType::Temporary,
        "Function" => LabelType::Function,
        _ => return None,
    })
}

#[derive(Clone)]
enum EntryCall {
    Action(Identifier, Vec<Value>),
    Policy(Struct, Struct),
    Seal(Struct, Vec<u8>),
    Open(Struct, Vec<u8>, Struct),
}

fn enc_entry(e: &EntryCall, bt: &mut BytesTab) -> String {
    match e {
        EntryCall::Action(n, args) => {
            let a: Vec<String> = args.iter().map(|v| enc_value(v, bt)).collect();
            format!("action {} {} {}", ident_id(n), args.len(), a.join(" ")).trim_end().to_string()
        }
        EntryCall::Policy(t, e) => format!("policy {} {}", enc_value(&Value::Struct(t.clone()), bt), enc_value(&Value::Struct(e.clone()), bt)),
        EntryCall::Seal(t, p) => format!("seal {} {}", enc_value(&Value::Struct(t.clone()), bt), enc_value(&Value::Bytes(p.clone()), bt)),
        EntryCall::Open(t, p, e) => format!(
            "open {} {} {}",
            enc_value(&Value::Struct(t.clone()), bt),
            enc_value(&Value::Bytes(p.clone()), bt),
            enc_value(&Value::Struct(e.clone()), bt)
        ),
    }
}

fn entry_of(t: &[&str], bt: &mut BytesTab) -> Option<EntryCall> {
    let st = |s: &str, bt: &mut BytesTab| match value_of(s, bt)? {
        Value::Struct(s) => Some(s),
        _ => None,
    };
    let by = |s: &str, bt: &mut BytesTab| match value_of(s, bt)? {
        Value::Bytes(b) => Some(b),
        _ => None,
    };
    Some(match (*t.first()?, t.len()) {
        ("action", n) if n >= 3 => {
            let cnt: usize = t[2].parse().ok()?;
            if t.len() != 3 + cnt {
                return None;
            }
            let args: Option<Vec<Value>> = t[3..].iter().map(|a| value_of(a, bt)).collect();
            EntryCall::Action(ident(t[1].parse().ok()?), args?)
        }
        ("policy", 3) => EntryCall::Policy(st(t[1], bt)?, st(t[2], bt)?),
        ("seal", 3) => EntryCall::Seal(st(t[1], bt)?, by(t[2], bt)?),
        ("open", 4) => EntryCall::Open(st(t[1], bt)?, by(t[2], bt)?, st(t[3], bt)?),
        _ => return None,
    })
}

/// what `call_*` does before `self.run()`, re-enacted on a FRESH run state through the public
/// API (`setup_action`, `setup_command`, `set_pc_by_label`, the `Stack` trait); returns whether
/// the wrapper would go on to `run`
fn emulate_enter(rs: &mut aranya_policy_vm::RunState<'_, AdvIo>, ctx: &CommandContext, e: &EntryCall) -> bool {
    match e {
        EntryCall::Action(name, args) => {
            matches!(ctx, CommandContext::Action(c) if c.name == *name) && rs.setup_action(name.clone(), args.clone()).is_ok()
        }
        EntryCall::Policy(this, env) => {
            matches!(ctx, CommandContext::Policy(c) if c.name == this.name)
                && rs.setup_command(Label::new(this.name.clone(), LabelType::CommandPolicy), this.clone()).is_ok()
                && rs.stack.push_value(Value::Struct(env.clone())).is_ok()
        }
        EntryCall::Seal(this, payload) => {
            matches!(ctx, CommandContext::Seal(c) if c.name == this.name)
                && rs.set_pc_by_label(&Label::new(this.name.clone(), LabelType::CommandSeal)).is_ok()
                && rs.stack.push_value(Value::Struct(this.clone())).is_ok()
                && rs.stack.push_value(Value::Bytes(payload.clone())).is_ok()
        }
        EntryCall::Open(this, payload, env) => {
            matches!(ctx, CommandContext::Open(c) if c.name == this.name)
                && rs.set_pc_by_label(&Label::new(this.name.clone(), LabelType::CommandOpen)).is_ok()
                && rs.stack.push_value(Value::Struct(this.clone())).is_ok()
                && rs.stack.push_value(Value::Bytes(payload.clone())).is_ok()
                && rs.stack.push_value(Value::Struct(env.clone())).is_ok()
        }
    }
}

/// One entry-call case: the real `call_action` / `call_command_policy` / `call_seal` / `call_open`
/// (which end in the unbounded `run()`) is only invoked after a budgeted single-step
/// pre-simulation on a second fresh run state with the same scripted I/O has shown that the run
/// ends; the I/O answers of that pre-simulation are replayed to the real call and sent to the model.
fn run_entry_case(rec: &mut Recorder, setup_lines: &[String], entry_toks: &[String], steps: Steps, fdefs: &[(usize, Vec<(usize, TypeKind)>, Vec<(usize, TypeKind)>)]) {
    rec.begin_case();
    let mut bt = BytesTab::default();
    let setup = match parse_setup(setup_lines, &mut bt) {
        Ok(s) => s,
        Err(e) => {
            rec.notes.push(e);
            return;
        }
    };
    let Setup { ctx, machine, init } = setup;
    let et: Vec<&str> = entry_toks.iter().map(|x| x.as_str()).collect();
    let Some(entry) = entry_of(&et, &mut bt) else {
        rec.notes.push(format!("bad entry `{}`", entry_toks.join(" ")));
        return;
    };
    let mut io1 = AdvIo::default();
    let mut io2 = AdvIo::default();
    let mut rs1 = machine.create_run_state(&mut io1, ctx.clone());
    let mut rs2 = machine.create_run_state(&mut io2, ctx.clone());
    let mut k = 0;
    for l in setup_lines {
        if l.starts_with("push ") {
            let r1 = rs1.stack.push_value(init[k].clone());
            let _ = rs2.stack.push_value(init[k].clone());
            k += 1;
            rec.line(l.clone(), if r1.is_ok() { "ok".to_string() } else { "err StackOverflow".to_string() });
        } else {
            rec.line(l.clone(), "ok");
        }
    }
    let kind = entry_toks[0].clone();
    rec.count(&format!("entry:{kind}"));
    // ---- pre-simulation
    let entered = match vh::catch(AssertUnwindSafe(|| emulate_enter(&mut rs1, &ctx, &entry))) {
        Ok(b) => b,
        Err(msg) => {
            rec.oracle_fail(format!("PANIC in setup of entry `{kind}`: {msg}"));
            rec.panics.push(format!("entry setup {kind}: {msg}"));
            return;
        }
    };
    let (mut rng_opt, budget, replay) = match steps {
        Steps::Gen(r, b) => (Some(r), b, vec![]),
        Steps::Replay(v) => {
            let n = v.len();
            (None, n, v)
        }
    };
    let mut groups: Vec<Vec<String>> = vec![];
    let mut io_toks: Vec<String> = vec![];
    let mut sim_outcome: Option<String> = None;
    if entered {
        let mut cur_ctx = ctx.clone();
        for step in 0..budget {
            let pc = rs1.pc();
            let instr = machine.progmem.get(pc).cloned();
            let top = rs1.stack.as_slice().last().cloned();
            let (ans, mut toks) = match rng_opt.as_mut() {
                Some(r) => gen_io(r, instr.as_ref(), fdefs, top.as_ref(), &mut bt),
                None => {
                    let t: Vec<&str> = replay[step].split(' ').filter(|x| !x.is_empty()).collect();
                    match parse_io(&t, &mut bt) {
                        Some(a) => (a, t.iter().filter(|x| !x.starts_with('C')).map(|x| x.to_string()).collect()),
                        None => {
                            rec.notes.push(format!("replay: bad io answers in `{}`", replay[step]));
                            return;
                        }
                    }
                }
            };
            io_toks.extend(toks.iter().cloned());
            {
                let mut l = format!("call {}", entry_toks.join(" "));
                for g in groups.iter().chain(std::iter::once(&toks)) {
                    l.push_str(" S");
                    for t in g {
                        l.push(' ');
                        l.push_str(t);
                    }
                }
                trace_replace_last(l);
            }
            if let Some(c) = codec_token(&machine, &cur_ctx, instr.as_ref(), top.as_ref(), &mut bt, rec) {
                toks.push(c);
            }
            groups.push(toks);
            *rs1.io.script.borrow_mut() = ans.into();
            let name = instr.as_ref().map(instr_name).unwrap_or_else(|| "<pc out of range>".into());
            match vh::catch(AssertUnwindSafe(|| rs1.step())) {
                Err(msg) => {
                    rec.oracle_fail(format!("PANIC in RunState::step (entry `{kind}`) at pc={pc} on `{name}`: {msg}"));
                    rec.panics.push(format!("entry {kind} step: pc={pc} instr={name}: {msg}"));
                    return;
                }
                Ok(Ok(MachineStatus::Executing)) => {
                    if matches!(instr, Some(Instruction::Recall(_))) {
                        if let CommandContext::Policy(c) = &cur_ctx {
                            cur_ctx = CommandContext::Recall(c.clone());
                        }
                    }
                }
                Ok(Ok(MachineStatus::Exited(r))) => {
                    sim_outcome = Some(format!("exit {} pc={} sp={} top={}", enc_reason(&r), rs1.pc(), rs1.stack.len(), top_of(&rs1.stack)));
                    break;
                }
                Ok(Err(e)) => {
                    sim_outcome = Some(format!("err {} pc={} sp={}", err_class(&e.err_type), rs1.pc(), rs1.stack.len()));
                    break;
                }
            }
        }
        if sim_outcome.is_none() {
            // the run did not end within the budget: calling the real `run()` might never return
            rec.count("entry:budget-exhausted(no real call)");
            return;
        }
    }
    // ---- the real entry call, with the same scripted I/O
    let flat: Vec<&str> = io_toks.iter().map(|x| x.as_str()).collect();
    let script = parse_io(&flat, &mut bt).unwrap_or_default();
    *rs2.io.script.borrow_mut() = script.into();
    let e2 = entry.clone();
    let res = vh::catch(AssertUnwindSafe(|| match e2 {
        EntryCall::Action(n, a) => rs2.call_action(n, a),
        EntryCall::Policy(t, e) => rs2.call_command_policy(t, e),
        EntryCall::Seal(t, p) => rs2.call_seal(t, p),
        EntryCall::Open(t, p, e) => rs2.call_open(t, p, e),
    }));
    let mut req = format!("call {}", entry_toks.join(" "));
    for g in &groups {
        req.push_str(" S");
        for t in g {
            req.push(' ');
            req.push_str(t);
        }
    }
    let real = match res {
        Err(msg) => {
            rec.line(req, "panic");
            rec.count("entry-outcome:PANIC");
            rec.oracle_fail(format!("PANIC in call_{kind}: {msg}"));
            rec.panics.push(format!("call_{kind}: {msg}"));
            return;
        }
        Ok(Ok(r)) => format!("exit {} pc={} sp={} top={}", enc_reason(&r), rs2.pc(), rs2.stack.len(), top_of(&rs2.stack)),
        Ok(Err(e)) => format!("err {} pc={} sp={}", err_class(&e.err_type), rs2.pc(), rs2.stack.len()),
    };
    let class: String = real.split(' ').take(2).collect::<Vec<_>>().join(" ");
    rec.count(&format!("entry-outcome:{class}"));
    rec.count(&format!("entry:{kind}:{}", if entered { "entered" } else { "rejected-by-wrapper" }));
    if let Some(sim) = &sim_outcome {
        if *sim != real {
            rec.oracle_fail(format!("call_{kind} returned `{real}` but setup + single-stepping the same run gives `{sim}`"));
        }
    } else if !real.starts_with("err ") {
        rec.oracle_fail(format!("call_{kind} returned `{real}` although its checks must reject the call"));
    }
    if entered && groups.len() >= 2 {
        rec.nontrivial(fnv(&format!("{}|{req}", setup_lines.join("\n"))));
    }
    rec.line(req, real);
    if machine.codemap.is_some() {
        record_loc(rec, &rs2);
    }
}

type FDefs = Vec<(usize, Vec<(usize, TypeKind)>, Vec<(usize, TypeKind)>)>;

/// `entry`: generate an entry-call case (label table, action/command definitions, a `call` request)
fn gen_setup(r: &mut Rng, entry: bool) -> (Vec<String>, FDefs, Option<Vec<String>>) {
    let mut bt = BytesTab::default();
    let mut lines = vec![];
    let ctxs = ["action", "policy", "policy", "recall", "seal:0", "seal:1", "open:0", "open:1", "action:2", "policy:1", "recall:3"];
    // entry cases: kind and callee name first, so that the context mostly matches
    let ekind = r.below(4); // 0 action, 1 policy, 2 seal, 3 open
    let ename = r.below(4) as usize;
    if entry && !r.chance(1, 8) {
        let c = ["action", "policy", "seal", "open"][ekind as usize];
        let n = if r.chance(1, 10) { r.below(4) as usize } else { ename };
        lines.push(format!("new {c}:{n}"));
    } else {
        lines.push(format!("new {}", r.pick(&ctxs)));
    }
    let mut g = G { r, sdefs: vec![], fdefs: vec![], plen: 0 };
    // struct definitions: names 0..3, fields 8..15
    let ns = g.r.below(4) as usize;
    for name in 0..ns {
        let nf = g.r.below(4) as usize;
        let mut fs = vec![];
        for k in 0..nf {
            let t = g.ty(1);
            fs.push((8 + k + (name % 2), t));
        }
        g.sdefs.push((name, fs));
    }
    // cyclic struct definitions, regularly: direct, mutual, through optional / result
    let mut deser_probe: Option<usize> = None;
    if g.r.chance(1, 4) {
        while g.sdefs.len() < 2 {
            let n = g.sdefs.len();
            g.sdefs.push((n, vec![]));
        }
        let k = g.r.below(g.sdefs.len() as u64) as usize;
        let k2 = (k + 1) % g.sdefs.len();
        let t = |n: usize| TypeKind::Struct(ident(n));
        match g.r.below(5) {
            0 => g.sdefs[k].1.insert(0, (12, t(k))),
            1 => {
                g.sdefs[k].1.push((12, t(k2)));
                g.sdefs[k2].1.push((13, t(k)));
            }
            2 => g.sdefs[k].1.push((12, TypeKind::Optional(Box::new(t(k))))),
            3 => g.sdefs[k].1.push((12, TypeKind::Result(Box::new(ResultTypeKind { ok: t(k), err: TypeKind::Int })))),
            _ => {
                g.sdefs[k].1.push((12, TypeKind::Optional(Box::new(t(k2)))));
                g.sdefs[k2].1.insert(0, (13, TypeKind::Result(Box::new(ResultTypeKind { ok: TypeKind::Bool, err: t(k) }))));
            }
        }
        if !entry && g.r.chance(2, 3) {
            // make `Deserialize` of that struct the first thing the program does
            deser_probe = Some(k);
            lines[0] = format!("new open:{k}");
        }
    }
    for (name, fs) in &g.sdefs {
        lines.push(format!("sdef {name} {}", fs.iter().map(|(f, t)| format!("{f}:{}", enc_ty(t))).collect::<Vec<_>>().join(" ")).trim_end().to_string());
    }
    // fact definitions: names 4..6
    let nfd = g.r.below(3) as usize;
    for name in 4..4 + nfd {
        let nk = g.r.below(3) as usize;
        let nv = g.r.below(3) as usize;
        let key_tys = [TypeKind::Int, TypeKind::Bool, TypeKind::String, TypeKind::Id, TypeKind::Enum(ident(1))];
        let ks: Vec<(usize, TypeKind)> = (0..nk).map(|k| (k, g.r.pick(&key_tys).clone())).collect();
        let vs: Vec<(usize, TypeKind)> = (0..nv).map(|k| (3 + k, g.ty(1))).collect();
        let all: Vec<String> = ks.iter().chain(vs.iter()).map(|(f, t)| format!("{f}:{}", enc_ty(t))).collect();
        lines.push(format!("fdef {name} {nk} {}", all.join(" ")).trim_end().to_string());
        g.fdefs.push((name, ks, vs));
    }
    let ng = g.r.below(3) as usize;
    for k in 0..ng {
        let c = g.const_value(1);
        lines.push(format!("glob {} {}", 5 + k, enc_value(&Value::from(c), &mut bt)));
    }
    // program
    let mode = g.r.below(10);
    let mut prog: Vec<Instruction> = vec![];
    let target_len = 1 + g.r.below(24) as usize;
    g.plen = target_len;
    // ---- code map (a third of the machines): empty table / first entry > 0 / gaps / beyond the
    //      program; spans inside the text, empty at its very end, or outside it; empty text
    if g.r.chance(1, 3) {
        let tlen = match g.r.below(6) {
            0 => 0,
            1 => 1,
            _ => g.r.below(40) as usize,
        };
        let text: Vec<u8> = (0..tlen).map(|_| if g.r.chance(1, 6) { b'\n' } else { b'a' + g.r.below(26) as u8 }).collect();
        let mut entries: Vec<String> = vec![];
        let n = match g.r.below(5) {
            0 => 0,
            _ => g.r.below(6) as usize,
        };
        let mut ip = match g.r.below(4) {
            0 => 0,
            1 => 1 + g.r.below(4) as usize,
            2 => target_len + g.r.below(3) as usize,
            _ => g.r.below(target_len as u64 + 1) as usize,
        };
        for _ in 0..n {
            let (a, b) = match g.r.below(8) {
                0 => (tlen, tlen),
                1 => (0, 0),
                2 => (tlen, tlen + 1 + g.r.below(3) as usize),
                3 => (0, tlen),
                _ => {
                    let a = g.r.below(tlen as u64 + 1) as usize;
                    (a, a + g.r.below((tlen - a) as u64 + 1) as usize)
                }
            };
            entries.push(format!("{ip}:{a}:{b}"));
            ip += 1 + g.r.below(5) as usize;
        }
        lines.push(format!("cmap {} {}", vh::hex(&text), entries.join(" ")).trim_end().to_string());
    }
    // ---- entry call: definitions, label, arguments
    let mut entry_req: Option<Vec<String>> = None;
    if entry {
        let addr = match g.r.below(10) {
            0 => target_len + 3,
            1 => usize::MAX,
            _ => g.r.below(target_len as u64) as usize,
        };
        let lt = ["Action", "CommandPolicy", "CommandSeal", "CommandOpen"][ekind as usize];
        if !g.r.chance(1, 10) {
            lines.push(format!("label {ename} {lt} {addr}"));
        }
        if g.r.chance(1, 6) {
            // a label of another type / name as a decoy
            lines.push(format!("label {} {} 0", g.r.below(4), g.r.pick(&["Action", "CommandPolicy", "CommandRecall", "CommandSeal", "CommandOpen", "Function", "Temporary"])));
        }
        let call_name = if g.r.chance(1, 12) { g.r.below(5) as usize } else { ename };
        let e = if ekind == 0 {
            let np = g.r.below(4) as usize;
            let params: Vec<(usize, TypeKind)> = (0..np).map(|k| (8 + k, g.ty(1))).collect();
            if !g.r.chance(1, 10) {
                lines.push(format!("adef {ename} {}", params.iter().map(|(f, t)| format!("{f}:{}", enc_ty(t))).collect::<Vec<_>>().join(" ")).trim_end().to_string());
            }
            let mut args: Vec<Value> = params.iter().map(|(_, t)| g.value_of(t, 2)).collect();
            match g.r.below(12) {
                0 => {
                    args.pop();
                }
                1 => args.push(g.value(1)),
                2 if !args.is_empty() => {
                    let i = g.r.below(args.len() as u64) as usize;
                    args[i] = g.value(1);
                }
                _ => {}
            }
            EntryCall::Action(ident(call_name), args)
        } else {
            // the command's fields: those of the struct definition of that name, if any
            let fields = g.sdefs.iter().find(|d| d.0 == ename).map(|d| d.1.clone()).unwrap_or_default();
            if ekind == 1 && !g.r.chance(1, 10) {
                let mut fs = fields.clone();
                if g.r.chance(1, 10) {
                    fs.push((15, TypeKind::Int));
                }
                lines.push(format!("cdef {ename} {}", fs.iter().map(|(f, t)| format!("{f}:{}", enc_ty(t))).collect::<Vec<_>>().join(" ")).trim_end().to_string());
            }
            let as_struct = |v: Value| match v {
                Value::Struct(s) => s,
                _ => Struct { name: ident(0), fields: BTreeMap::new() },
            };
            let this = as_struct(g.struct_named(call_name, 2));
            let en = g.r.below(4) as usize;
            let env = as_struct(g.struct_named(en, 1));
            let payload = BytesTab::fixed(g.small());
            match ekind {
                1 => EntryCall::Policy(this, env),
                2 => EntryCall::Seal(this, payload),
                _ => EntryCall::Open(this, payload, env),
            }
        };
        entry_req = Some(enc_entry(&e, &mut bt).split(' ').map(|x| x.to_string()).collect());
    }
    if deser_probe.is_some() {
        prog.push(Instruction::Deserialize);
    }
    while prog.len() < target_len {
        if mode < 3 || (mode < 8 && g.r.chance(1, 3)) {
            prog.push(g.any_instr());
        } else {
            g.snippet(&mut prog);
        }
    }
    if mode == 9 {
        // every variant at least once, shuffled
        let mut seen = std::collections::BTreeSet::new();
        let mut extra = vec![];
        for _ in 0..2000 {
            let i = g.any_instr();
            if seen.insert(instr_name(&i)) {
                extra.push(i);
            }
        }
        g.r.shuffle(&mut extra);
        prog.extend(extra);
    }
    if entry {
        // mostly forward control flow, so that most runs end (the pre-simulation budget catches the rest)
        for (idx, i) in prog.iter_mut().enumerate() {
            let fwd = |t: &mut Target, r: &mut Rng| {
                if let Target::Resolved(n) = t {
                    if *n <= idx && !r.chance(1, 10) {
                        *n = idx + 1 + r.below(4) as usize;
                    }
                }
            };
            match i {
                Instruction::Jump(t) | Instruction::Branch(t) | Instruction::Call(t) | Instruction::Recall(t) => fwd(t, g.r),
                _ => {}
            }
        }
    }
    for i in &prog {
        lines.push(format!("ins {}", enc_instr(i, &mut bt)));
    }
    // initial stack
    let ninit = match g.r.below(24) {
        0 | 1 | 2 => 0,
        3 => 100,
        4 => 99,
        5 => 101,
        6 => 97,
        _ => g.r.below(7) as usize,
    };
    let ninit = if deser_probe.is_some() { ninit.min(90) } else { ninit };
    for _ in 0..ninit {
        let v = g.value(2);
        lines.push(format!("push {}", enc_value(&v, &mut bt)));
    }
    if deser_probe.is_some() {
        // a payload on top of the stack: tag-like bytes so that optional/result arms are taken
        lines.push(format!("push y{}", g.r.pick(&[0usize, 1, 2, 3, 4, 6])));
    }
    let fdefs = g.fdefs.clone();
    (lines, fdefs, entry_req)
}

/// `Machine::from_module` must be total and agree with the directly built machine
fn check_from_module(rec: &mut Recorder, lines: &[String]) {
    let mut bt = BytesTab::default();
    let Ok(s) = parse_setup(lines, &mut bt) else { return };
    let m = s.machine;
    let module = Module {
        data: ModuleData::V0(ModuleV0 {
            progmem: m.progmem.clone().into_boxed_slice(),
            labels: m.labels.clone(),
            action_defs: vec![ActionDef { name: ident(0), persistence: Persistence::Persistent, params: vec![], result_type: TypeKind::Unit }],
            command_defs: vec![CommandDef { name: ident(0), persistence: Persistence::Persistent, attributes: vec![], fields: vec![] }],
            fact_defs: m.fact_defs.iter().cloned().collect(),
            struct_defs: m.struct_defs.iter().cloned().collect(),
            enum_defs: vec![],
            codemap: m.codemap.clone(),
            globals: m.globals.clone(),
        }),
    };
    match vh::catch(AssertUnwindSafe(|| Machine::from_module(module))) {
        Err(msg) => {
            rec.oracle_fail(format!("PANIC in Machine::from_module: {msg}"));
            rec.panics.push(format!("from_module: {msg}"));
        }
        Ok(Err(_)) => rec.oracle_fail("Machine::from_module rejected a V0 module"),
        Ok(Ok(m2)) => {
            if m2.progmem != m.progmem || m2.struct_defs != m.struct_defs || m2.fact_defs != m.fact_defs || m2.globals != m.globals {
                rec.oracle_fail("Machine::from_module changed the program, schemas or globals");
            }
            rec.count("from_module:ok");
        }
    }
}

/// parent: run the work in a child; attribute an uncatchable crash to its case
fn supervise(args: &Args) -> ! {
    let exe = std::env::current_exe().expect("current_exe");
    let argv: Vec<String> = std::env::args().skip(1).collect();
    let side = args.out.join("current_case.txt");
    let _ = std::fs::remove_file(&side);
    let st = std::process::Command::new(&exe).args(&argv).env("C25_CHILD", "1").status().expect("spawn child");
    if st.success() {
        std::process::exit(0);
    }
    // the child died: which case?
    let head = std::fs::read_to_string(&side).unwrap_or_default();
    let first = head.lines().next().unwrap_or("").to_string();
    let idx: Option<usize> = first.strip_prefix("case ").and_then(|r| r.split(' ').next()).and_then(|x| x.parse().ok());
    let mut lines: Vec<String> = head.lines().skip(1).map(|x| x.to_string()).collect();
    if let (Some(i), None) = (idx, &args.replay) {
        // re-run only that case, tracing every request line before it is executed
        let _ = std::process::Command::new(&exe)
            .args(&argv)
            .env("C25_CHILD", "1")
            .env("C25_TRACE", "1")
            .env("C25_ONLY", i.to_string())
            .status();
        let t = std::fs::read_to_string(&side).unwrap_or_default();
        if t.lines().count() > 1 {
            lines = t.lines().skip(1).map(|x| x.to_string()).collect();
        }
    }
    let mut rec = Recorder::new(&args.out);
    rec.begin_case();
    let what = format!(
        "HOST CRASH (not a catchable panic): the harness process died with {st} while running {}; stack overflow / abort in the real code",
        if first.is_empty() { "an unknown case".to_string() } else { first.clone() }
    );
    rec.count("outcome:HOST-CRASH");
    rec.panics.push(what.clone());
    rec.oracle_fail_with(what, lines);
    rec.finish(args.seed, &args.tier);
    std::process::exit(0);
}

fn main() {
    let args = Args::parse();
    vh::quiet_panics();
    if std::env::var("C25_CHILD").is_err() {
        supervise(&args);
    }
    let only_case: Option<usize> = std::env::var("C25_ONLY").ok().and_then(|x| x.parse().ok());
    let mut rec = Recorder::new(&args.out);

    if let Some(rp) = &args.replay {
        let lines = vh::read_replay_input(rp);
        {
            let mut side = vec!["case replay".to_string()];
            side.extend(lines.iter().cloned());
            let _ = std::fs::write(args.out.join("current_case.txt"), side.join("\n") + "\n");
        }
        // split into cases at `new`
        let mut cases: Vec<Vec<String>> = vec![];
        for l in lines {
            if l.starts_with("new ") || cases.is_empty() {
                cases.push(vec![]);
            }
            cases.last_mut().unwrap().push(l);
        }
        for c in cases {
            let setup: Vec<String> = c.iter().filter(|l| !l.starts_with("step") && !l.starts_with("call ")).cloned().collect();
            if let Some(call) = c.iter().find(|l| l.starts_with("call ")) {
                // `call <entry…> [S <io answers…>]*`
                let toks: Vec<&str> = call.split(' ').skip(1).filter(|x| !x.is_empty()).collect();
                let mut parts: Vec<Vec<String>> = vec![vec![]];
                for t in toks {
                    if t == "S" {
                        parts.push(vec![]);
                    } else {
                        parts.last_mut().unwrap().push(t.to_string());
                    }
                }
                let entry = parts.remove(0);
                let groups: Vec<String> = parts.iter().map(|g| g.join(" ")).collect();
                run_entry_case(&mut rec, &setup, &entry, Steps::Replay(groups), &[]);
                continue;
            }
            let steps: Vec<String> = c.iter().filter(|l| l.starts_with("step")).cloned().collect();
            // fact schemas are only needed by the generator
            run_case(&mut rec, &setup, Steps::Replay(steps), &[]);
        }
        rec.finish(args.seed, &args.tier);
        return;
    }

    let mut rng = Rng::new(args.seed);
    let cases = args.budget(12000, 150000);
    let budget = args.budget(60, 200);
    for i in 0..cases {
        let mut r = rng.fork();
        let entry = i % 4 == 3;
        let (lines, fdefs, entry_req) = gen_setup(&mut r, entry);
        if i < 2 {
            rec.sample(lines.join(" ; "));
        }
        if i % 10 == 0 {
            check_from_module(&mut rec, &lines);
        }
        if let Some(only) = only_case {
            if i != only {
                continue;
            }
        }
        // a crash that cannot be caught (stack overflow, abort) is attributed to its case: the
        // case's lines are on disk before it runs
        {
            let mut side = vec![format!("case {i} seed {}", args.seed)];
            side.extend(lines.iter().cloned());
            if let Some(e) = &entry_req {
                side.push(format!("call {}", e.join(" ")));
            }
            trace_init(args.out.join("current_case.txt"), side);
        }
        match entry_req {
            Some(e) => run_entry_case(&mut rec, &lines, &e, Steps::Gen(&mut r, budget), &fdefs),
            None => run_case(&mut rec, &lines, Steps::Gen(&mut r, budget), &fdefs),
        }
    }
    // the malformed stream: lines the driver must refuse (never default)
    rec.begin_case();
    for bad in ["new nowhere", "ins Frobnicate", "ins Const q", "ins Jump 5", "push T1{", "step U2", "step Q1", "glob x u", "sdef 1 2:zz", "label 1 Nope 0", "call action 1 2 i1", "call seal T1{} i3", "adef q"] {
        rec.line(bad, "bad-op");
        rec.count("malformed");
    }
    rec.finish(args.seed, &args.tier);
}
