//! Type-directed generator of policy source text over the C22–C24 fragment.
//!
//! `Gen::program()` produces a complete policy (enums, structs, `use t`, functions) whose
//! functions are well-typed by construction; `Knobs` tune how often side-effecting / failing
//! expressions (`t::mark(k)`, `todo()`, `t::boom(k)`, early `return`) are placed in operand and
//! branch positions (C23), and whether near-miss / ill-typed mutations are injected (C24 tie).

use crate::Rng;

#[derive(Clone, Debug, PartialEq, Eq)]
pub enum Ty {
    Unit,
    Int,
    Bool,
    Str,
    Id,
    Enum(usize),
    Struct(usize),
    Opt(Box<Ty>),
    Res(Box<Ty>, Box<Ty>),
}

#[derive(Clone, Debug)]
pub struct FunSig {
    pub name: String,
    pub params: Vec<(String, Ty)>,
    pub ret: Ty,
}

#[derive(Clone, Debug, Default)]
pub struct Schema {
    pub enums: Vec<(String, Vec<String>)>,
    pub structs: Vec<(String, Vec<(String, Ty)>)>,
    pub funs: Vec<FunSig>,
}

impl Schema {
    pub fn ty_src(&self, t: &Ty) -> String {
        match t {
            Ty::Unit => "unit".into(),
            Ty::Int => "int".into(),
            Ty::Bool => "bool".into(),
            Ty::Str => "string".into(),
            Ty::Id => "id".into(),
            Ty::Enum(i) => format!("enum {}", self.enums[*i].0),
            Ty::Struct(i) => format!("struct {}", self.structs[*i].0),
            Ty::Opt(t) => format!("option[{}]", self.ty_src(t)),
            Ty::Res(a, b) => format!("result[{}, {}]", self.ty_src(a), self.ty_src(b)),
        }
    }
}

#[derive(Clone, Debug)]
pub struct Knobs {
    pub max_depth: usize,
    /// per-mille chance that an expression position is wrapped in / replaced by a logged FFI call
    pub ffi: u64,
    /// per-mille chance of `todo()` / `t::boom(k)` / `(return e)` in an expression position
    pub fail: u64,
    /// per-mille chance of one ill-typed / near-miss mutation somewhere in the program
    pub ill: u64,
    /// per-mille chance of the suspicious-but-plausible forms (binding alternations, partial
    /// struct literals, field-order twins) in the well-typed stream
    pub odd: u64,
    /// place one dedicated extra function built around a typing rule of the lowering pass:
    /// `(kind index, mistyped)`.  `mistyped = true`: two same-NAMED things differ only in TYPE
    /// (the front end has to reject); `false`: the same template with equal types (control: has
    /// to be accepted and is executed).
    pub near: Option<(usize, bool)>,
}

impl Knobs {
    pub fn c22(depth: usize) -> Self {
        Knobs { max_depth: depth, ffi: 40, fail: 15, ill: 0, odd: 0, near: None }
    }
    pub fn c23(depth: usize) -> Self {
        Knobs { max_depth: depth, ffi: 300, fail: 120, ill: 0, odd: 0, near: None }
    }
    pub fn c24(depth: usize) -> Self {
        Knobs { max_depth: depth, ffi: 40, fail: 30, ill: 0, odd: 0, near: None }
    }
}

pub struct Gen<'a> {
    pub rng: &'a mut Rng,
    pub k: Knobs,
    pub s: Schema,
    scope: Vec<Vec<(String, Ty)>>,
    names: usize,
    marks: i64,
    ret: Ty,
    cur_fn: usize,
    /// one pending ill-typed mutation to place (consumed at a random expression position)
    ill_pending: bool,
    /// the next `expr` call must not be a bare `Never`-typed form (`todo()`, `return`): the checker
    /// needs the operand's shape there (`.f`, `is`, `or` lhs, `as`, `substruct`, binding scrutinee)
    nn: bool,
    pub ill_kind: Option<&'static str>,
    pub stats: Vec<&'static str>,
    /// source text of the dedicated near-miss / control functions (appended after the others)
    extra_src: String,
    /// global `let`s: (name, type), and their source text
    globals: Vec<(String, Ty)>,
    globals_src: String,
}

/// the typing rules covered by `Knobs::near`
pub const NEAR_KINDS: &[&str] = &[
    "substruct-field-type",
    "cast-field-type",
    "source-field-type",
    "struct-lit-field-type",
    "call-arg-type",
    "return-type",
    "match-arm-type",
    "if-branch-type",
    "field-access-type",
    "coalesce-default-type",
    "some-payload-type",
    "let-var-type",
    "binding-payload-type",
    "nominal-struct",
    "enum-of-other-enum",
    "eq-operand-types",
    "ffi-arg-type",
    "result-payload-type",
    "substruct-nested-field-type",
    "stmt-match-scrutinee-pattern-type",
    "coalesce-never-hole-result",
    "coalesce-never-hole-option",
    "if-never-hole-result",
    "global-struct-field-type",
    "global-struct-missing-field",
    "global-struct-extra-field",
    "global-struct-duplicate-field",
    "binding-shadows-param",
    "binding-shadows-local",
    "binding-shadows-global",
    "binding-shadows-outer-binding",
    "binding-shadows-param-expr",
];

const INTS: &[i64] = &[
    0,
    1,
    -1,
    2,
    -2,
    i64::MAX,
    i64::MIN,
    i64::MAX - 1,
    i64::MIN + 1,
    i64::MAX / 2,
    i64::MIN / 2,
    i64::MAX / 2 + 1,
    42,
    7,
];

impl<'a> Gen<'a> {
    pub fn new(rng: &'a mut Rng, k: Knobs) -> Self {
        Gen {
            rng,
            k,
            s: Schema::default(),
            scope: vec![],
            names: 0,
            marks: 0,
            ret: Ty::Int,
            cur_fn: 0,
            ill_pending: false,
            nn: false,
            ill_kind: None,
            stats: vec![],
            extra_src: String::new(),
            globals: vec![],
            globals_src: String::new(),
        }
    }

    fn pm(&mut self, p: u64) -> bool {
        p > 0 && self.rng.below(1000) < p
    }

    // -------------------------------------------------------------- schema

    fn simple_ty(&mut self) -> Ty {
        match self.rng.below(10) {
            0..=3 => Ty::Int,
            4..=5 => Ty::Bool,
            6 => Ty::Str,
            7 if !self.s.enums.is_empty() => Ty::Enum(self.rng.below(self.s.enums.len() as u64) as usize),
            8 => Ty::Opt(Box::new(Ty::Int)),
            _ => Ty::Int,
        }
    }

    fn gen_schema(&mut self) {
        let ne = self.rng.range(1, 2);
        for i in 0..ne {
            let nv = self.rng.range(2, 4) as usize;
            let vs = ["A", "B", "C", "D"][..nv].iter().map(|s| s.to_string()).collect();
            self.s.enums.push((format!("E{i}"), vs));
        }
        let nbase = self.rng.range(1, 2);
        for _ in 0..nbase {
            let nf = self.rng.range(1, 3) as usize;
            let base = self.s.structs.len();
            let mut fields = vec![];
            for j in 0..nf {
                let t = self.simple_ty();
                fields.push((format!("a{}", base * 4 + j), t));
            }
            self.s.structs.push((format!("S{base}"), fields.clone()));
            if self.rng.chance(1, 2) {
                // twin: same fields, other order (cast-compatible)
                let mut tw = fields.clone();
                tw.reverse();
                let n = self.s.structs.len();
                self.s.structs.push((format!("S{n}"), tw));
            }
            if self.rng.chance(2, 3) {
                // super: more fields (substruct source, `...src` target)
                let mut sp = fields.clone();
                let extra = self.rng.range(1, 2) as usize;
                for j in 0..extra {
                    let t = self.simple_ty();
                    sp.push((format!("b{}", base * 4 + j), t));
                }
                if self.rng.chance(1, 2) {
                    sp.rotate_left(1);
                }
                let n = self.s.structs.len();
                self.s.structs.push((format!("S{n}"), sp));
            }
            if self.rng.chance(1, 3) {
                // wrapper with a nested struct field
                let n = self.s.structs.len();
                self.s.structs.push((format!("S{n}"), vec![(format!("w{n}"), Ty::Struct(base)), (format!("x{n}"), Ty::Int)]));
            }
        }
    }

    fn gen_special_structs(&mut self) {
        if self.rng.chance(1, 3) {
            let n = self.s.structs.len();
            self.s.structs.push((format!("S{n}"), vec![]));
        }
        if self.rng.chance(1, 3) {
            let n = self.s.structs.len();
            let mut fs = vec![(format!("p{n}"), Ty::Bool)];
            if self.rng.chance(1, 2) {
                fs.push((format!("q{n}"), Ty::Bool));
            }
            self.s.structs.push((format!("S{n}"), fs));
        }
    }

    pub fn any_ty(&mut self, d: usize) -> Ty {
        match self.rng.below(16) {
            0..=4 => Ty::Int,
            5..=7 => Ty::Bool,
            8 => Ty::Str,
            9 => Ty::Enum(self.rng.below(self.s.enums.len() as u64) as usize),
            10..=11 => Ty::Struct(self.rng.below(self.s.structs.len() as u64) as usize),
            12..=13 if d > 0 => Ty::Opt(Box::new(self.any_ty(d - 1))),
            14 if d > 0 => Ty::Res(Box::new(self.any_ty(d - 1)), Box::new(self.any_ty(d - 1))),
            15 => Ty::Unit,
            _ => Ty::Int,
        }
    }

    // -------------------------------------------------------------- scope

    fn fresh(&mut self) -> String {
        self.names += 1;
        format!("v{}", self.names)
    }
    fn mark(&mut self) -> i64 {
        self.marks += 1;
        self.marks
    }
    fn vars_of(&self, t: &Ty) -> Vec<String> {
        self.scope.iter().flatten().filter(|(_, vt)| vt == t).map(|(n, _)| n.clone()).collect()
    }
    fn push_var(&mut self, n: String, t: Ty) {
        self.scope.last_mut().unwrap().push((n, t));
    }

    // -------------------------------------------------------------- literals

    fn int_lit(&mut self) -> i64 {
        match self.rng.below(10) {
            0..=5 => *self.rng.pick(INTS),
            6..=7 => self.rng.below(20) as i64 - 10,
            8 => self.rng.next_u64() as i64,
            _ => {
                let b = *self.rng.pick(&[i64::MAX, i64::MIN, 0]);
                b.wrapping_add(self.rng.below(5) as i64 - 2)
            }
        }
    }

    pub fn literal(&mut self, t: &Ty) -> String {
        match t {
            Ty::Unit => "Unit".into(),
            Ty::Int => self.int_lit().to_string(),
            Ty::Bool => if self.rng.chance(1, 2) { "true" } else { "false" }.into(),
            Ty::Str => format!("\"{}\"", self.rng.pick(&["", "a", "b", "ab", "policy", "x y"])),
            Ty::Id => {
                // ids have no literal; callers make sure a variable exists
                let vs = self.vars_of(&Ty::Id);
                vs.first().cloned().unwrap_or_else(|| "todo()".into())
            }
            Ty::Enum(i) => {
                let (n, vs) = self.s.enums[*i].clone();
                format!("{n}::{}", self.rng.pick(&vs))
            }
            Ty::Struct(i) => {
                let (n, fs) = self.s.structs[*i].clone();
                let parts: Vec<String> = fs.iter().map(|(f, ft)| format!("{f}: {}", self.literal(ft))).collect();
                format!("{n} {{ {} }}", parts.join(", "))
            }
            Ty::Opt(t) => {
                if self.rng.chance(1, 3) {
                    "None".into()
                } else {
                    format!("Some({})", self.literal(t))
                }
            }
            Ty::Res(a, b) => {
                if self.rng.chance(1, 2) {
                    format!("Ok({})", self.literal(a))
                } else {
                    format!("Err({})", self.literal(b))
                }
            }
        }
    }

    fn leaf(&mut self, t: &Ty) -> String {
        let vs = self.vars_of(t);
        if !vs.is_empty() && (self.rng.chance(3, 5) || *t == Ty::Id) {
            return self.rng.pick(&vs).clone();
        }
        self.literal(t)
    }

    // -------------------------------------------------------------- expressions

    fn other_ty(&mut self, t: &Ty) -> Ty {
        for _ in 0..8 {
            let u = self.any_ty(1);
            if &u != t && !matches!(u, Ty::Id) {
                return u;
            }
        }
        if *t == Ty::Int {
            Ty::Bool
        } else {
            Ty::Int
        }
    }

    /// block body `{ [lets] : e }`
    fn block(&mut self, t: &Ty, d: usize) -> String {
        self.scope.push(vec![]);
        let mut s = String::from("{ ");
        let n = if self.rng.chance(1, 3) { self.rng.range(1, 2) } else { 0 };
        for _ in 0..n {
            let lt = self.any_ty(1);
            let e = self.expr(&lt, d.saturating_sub(1));
            let v = self.fresh();
            s.push_str(&format!("let {v} = {e} "));
            self.push_var(v, lt);
        }
        let e = self.expr(t, d);
        s.push_str(&format!(": {e} }}"));
        self.scope.pop();
        s
    }

    /// Arms of a match on a scrutinee of type `st`; `body` renders one arm body (the arm's binding,
    /// if any, is in scope while it runs).
    fn arms(&mut self, st: &Ty, body: &mut dyn FnMut(&mut Self) -> String) -> String {
        let mut plan: Vec<(String, Option<(String, Ty)>)> = vec![];
        match st {
            Ty::Bool => {
                let tf = self.rng.chance(1, 2);
                if self.rng.chance(2, 3) {
                    plan.push((tf.to_string(), None));
                    plan.push(((!tf).to_string(), None));
                } else {
                    plan.push((tf.to_string(), None));
                    plan.push(("_".into(), None));
                }
            }
            Ty::Enum(i) => {
                let (n, vs) = self.s.enums[*i].clone();
                let mut vs = vs;
                self.rng.shuffle(&mut vs);
                let all = self.rng.chance(1, 2);
                let take = if all { vs.len() } else { self.rng.range(1, vs.len() as u64 - 1) as usize };
                let mut k = 0;
                while k < take {
                    let grp = if k + 1 < take && self.rng.chance(1, 3) { 2 } else { 1 };
                    let pat = vs[k..k + grp].iter().map(|v| format!("{n}::{v}")).collect::<Vec<_>>().join(" | ");
                    plan.push((pat, None));
                    k += grp;
                }
                if !all {
                    plan.push(("_".into(), None));
                }
            }
            Ty::Struct(i) if !self.s.structs[*i].1.is_empty() && self.s.structs[*i].1.iter().all(|f| f.1 == Ty::Bool) => {
                // enumerate every combination of the bool fields: exhaustive without a default
                let (n, fs) = self.s.structs[*i].clone();
                let combos = 1usize << fs.len();
                let mut pats: Vec<String> = (0..combos)
                    .map(|m| {
                        let parts: Vec<String> = fs.iter().enumerate().map(|(k, (f, _))| format!("{f}: {}", (m >> k) & 1 == 1)).collect();
                        format!("{n} {{ {} }}", parts.join(", "))
                    })
                    .collect();
                if fs.len() > 1 && self.pm(self.k.odd * 4) {
                    // same value as the first pattern, fields in the other order
                    self.stats.push("odd:permuted-struct-pattern");
                    let parts: Vec<String> = fs.iter().rev().map(|(f, _)| format!("{f}: false")).collect();
                    let last = pats.len() - 1;
                    pats[last] = format!("{n} {{ {} }}", parts.join(", "));
                }
                for p in pats {
                    plan.push((p, None));
                }
            }
            Ty::Opt(it) if self.pm(self.k.odd * 3) => {
                self.stats.push("odd:binding-alternation");
                let x = self.fresh();
                plan.push((format!("Some({x}) | None"), Some((x, (**it).clone()))));
            }
            Ty::Res(a, b) if self.pm(self.k.odd * 3) => {
                self.stats.push("odd:binding-alternation");
                let x = self.fresh();
                let y = self.fresh();
                let _ = b;
                plan.push((format!("Ok({x}) | Err({y})"), Some((x, (**a).clone()))));
            }
            Ty::Opt(it) if matches!(**it, Ty::Bool | Ty::Enum(_)) && self.rng.chance(1, 2) => {
                // exhaustive by counting nested literals, no default arm, no binding
                let mut pats: Vec<String> = match &**it {
                    Ty::Bool => vec!["Some(true)".into(), "Some(false)".into()],
                    Ty::Enum(i) => {
                        let (n, vs) = self.s.enums[*i].clone();
                        vs.iter().map(|v| format!("Some({n}::{v})")).collect()
                    }
                    _ => vec![],
                };
                pats.push("None".into());
                self.rng.shuffle(&mut pats);
                for p in pats {
                    plan.push((p, None));
                }
            }
            Ty::Res(a, b) if **a == Ty::Bool && **b == Ty::Bool && self.rng.chance(1, 2) => {
                let mut pats: Vec<String> = vec!["Ok(true)".into(), "Ok(false)".into(), "Err(true)".into(), "Err(false)".into()];
                self.rng.shuffle(&mut pats);
                for p in pats {
                    plan.push((p, None));
                }
            }
            Ty::Opt(it) => {
                let x = self.fresh();
                let it = (**it).clone();
                match self.rng.below(4) {
                    0 => {
                        plan.push((format!("Some({x})"), Some((x, it))));
                        plan.push(("None".into(), None));
                    }
                    1 => {
                        plan.push(("None".into(), None));
                        plan.push((format!("Some({x})"), Some((x, it))));
                    }
                    2 => {
                        let l = self.literal(&it);
                        plan.push((format!("Some({l})"), None));
                        plan.push((format!("Some({x})"), Some((x, it))));
                        plan.push(("None".into(), None));
                    }
                    _ => {
                        plan.push(("None".into(), None));
                        plan.push(("_".into(), None));
                    }
                }
            }
            Ty::Res(a, b) => {
                let x = self.fresh();
                let y = self.fresh();
                let (a, b) = ((**a).clone(), (**b).clone());
                match self.rng.below(3) {
                    0 => {
                        plan.push((format!("Ok({x})"), Some((x, a))));
                        plan.push((format!("Err({y})"), Some((y, b))));
                    }
                    1 => {
                        let l = self.literal(&a);
                        plan.push((format!("Ok({l})"), None));
                        plan.push((format!("Err({y})"), Some((y, b))));
                        plan.push((format!("Ok({x})"), Some((x, a))));
                    }
                    _ => {
                        plan.push((format!("Err({y})"), Some((y, b))));
                        plan.push(("_".into(), None));
                    }
                }
            }
            _ => {
                // int / string / struct / unit: distinct literals + default
                let n = self.rng.range(1, 3);
                let mut seen: Vec<String> = vec![];
                for _ in 0..n {
                    let grp = if self.rng.chance(1, 3) { 2 } else { 1 };
                    let mut pats: Vec<String> = vec![];
                    for _ in 0..grp {
                        let mut l = self.literal(st);
                        // a negative literal directly after an arm body would parse as `body - n`
                        if l.starts_with('-') && !(plan.is_empty() && pats.is_empty()) {
                            l = l.trim_start_matches('-').to_string();
                            if l == "9223372036854775808" {
                                l = "3".into();
                            }
                        }
                        if !seen.contains(&l) {
                            seen.push(l.clone());
                            pats.push(l);
                        }
                    }
                    if !pats.is_empty() {
                        plan.push((pats.join(" | "), None));
                    }
                }
                plan.push(("_".into(), None));
            }
        }
        let mut out = String::new();
        for (pat, bind) in plan {
            self.scope.push(vec![]);
            if let Some((n, t)) = bind {
                self.push_var(n, t);
            }
            let b = body(self);
            self.scope.pop();
            out.push_str(&format!("{pat} => {b} "));
        }
        out
    }

    fn scrutinee_ty(&mut self) -> Ty {
        let bools: Vec<usize> = self
            .s
            .structs
            .iter()
            .enumerate()
            .filter(|(_, (_, fs))| !fs.is_empty() && fs.iter().all(|f| f.1 == Ty::Bool))
            .map(|(i, _)| i)
            .collect();
        if !bools.is_empty() && self.rng.chance(1, 6) {
            return Ty::Struct(*self.rng.pick(&bools));
        }
        match self.rng.below(10) {
            0..=2 => Ty::Int,
            3 => Ty::Bool,
            4..=5 => Ty::Enum(self.rng.below(self.s.enums.len() as u64) as usize),
            6..=7 => Ty::Opt(Box::new(self.any_ty(0))),
            8 => Ty::Res(Box::new(self.any_ty(0)), Box::new(self.any_ty(0))),
            _ => Ty::Str,
        }
    }

    /// a struct type + field whose type is `t`
    fn field_of(&mut self, t: &Ty) -> Option<(usize, String)> {
        let mut c = vec![];
        for (i, (_, fs)) in self.s.structs.iter().enumerate() {
            for (f, ft) in fs {
                if ft == t {
                    c.push((i, f.clone()));
                }
            }
        }
        if c.is_empty() {
            None
        } else {
            Some(self.rng.pick(&c).clone())
        }
    }

    fn struct_rel(&self, i: usize) -> (Vec<usize>, Vec<usize>) {
        // (same field set, strict supersets) of struct i
        let fi = &self.s.structs[i].1;
        let mut same = vec![];
        let mut sup = vec![];
        for (j, (_, fj)) in self.s.structs.iter().enumerate() {
            if j == i {
                continue;
            }
            let sub_ij = fi.iter().all(|f| fj.contains(f));
            let sub_ji = fj.iter().all(|f| fi.contains(f));
            if sub_ij && sub_ji {
                same.push(j);
            } else if sub_ij {
                sup.push(j);
            }
        }
        (same, sup)
    }

    fn expr_nn(&mut self, t: &Ty, d: usize) -> String {
        self.nn = true;
        self.expr(t, d)
    }

    pub fn expr(&mut self, t: &Ty, d: usize) -> String {
        let nn = std::mem::take(&mut self.nn);
        // ill-typed mutation: an expression of some other type
        if self.ill_pending && self.rng.chance(1, 6) {
            self.ill_pending = false;
            self.ill_kind = Some("wrong-type-expr");
            let u = self.other_ty(t);
            return self.expr(&u, d.min(1));
        }
        // failing / side-effecting decoration
        if !nn && self.pm(self.k.fail) {
            match self.rng.below(3) {
                0 => return "todo()".into(),
                1 if *t == Ty::Int => {
                    let k = self.mark();
                    return format!("t::boom({k})");
                }
                _ => {
                    let rt = self.ret.clone();
                    let e = self.expr(&rt, d.min(1));
                    return format!("(return {e})");
                }
            }
        }
        if self.pm(self.k.ffi) {
            match t {
                Ty::Int => {
                    let e = if d > 0 && self.rng.chance(1, 2) { self.expr(&Ty::Int, d - 1) } else { self.mark().to_string() };
                    return format!("t::mark({e})");
                }
                Ty::Bool => {
                    let k = self.mark();
                    let e = self.expr(&Ty::Bool, d.saturating_sub(1));
                    return format!("t::flag({k}, {e})");
                }
                Ty::Opt(i) if **i == Ty::Int => {
                    let e = self.expr(&Ty::Int, d.saturating_sub(1));
                    return format!("t::pick({e})");
                }
                _ => {}
            }
        }
        if d == 0 {
            return self.leaf(t);
        }
        let d1 = d - 1;
        for _ in 0..6 {
            let choice = self.rng.below(20);
            let r = match choice {
                0..=2 => Some(self.leaf(t)),
                3 => {
                    let c = self.expr(&Ty::Bool, d1);
                    let a = self.block(t, d1);
                    let b = self.block(t, d1);
                    Some(format!("if ({c}) {a} else {b}"))
                }
                4 => Some(self.block(t, d1)),
                5 => {
                    let st = self.scrutinee_ty();
                    let sc = self.expr_nn(&st, d1);
                    let t2 = t.clone();
                    let arms = self.arms(&st, &mut |g| {
                        let e = g.expr(&t2, d1);
                        format!("({e})")
                    });
                    Some(format!("match ({sc}) {{ {arms}}}"))
                }
                6 if !matches!(t, Ty::Unit) => {
                    let o = self.expr_nn(&Ty::Opt(Box::new(t.clone())), d1);
                    let e = self.expr(t, d1);
                    Some(format!("(({o}) or ({e}))"))
                }
                7 => self.field_of(t).map(|(si, f)| {
                    let s = self.expr_nn(&Ty::Struct(si), d1);
                    format!("(({s}).{f})")
                }),
                8 => {
                    let cands: Vec<FunSig> = self.s.funs[..self.cur_fn].iter().filter(|f| &f.ret == t).cloned().collect();
                    if cands.is_empty() {
                        None
                    } else {
                        let f = self.rng.pick(&cands).clone();
                        let args: Vec<String> = f.params.iter().map(|(_, pt)| self.expr(pt, d1)).collect();
                        Some(format!("{}({})", f.name, args.join(", ")))
                    }
                }
                _ => match t {
                    Ty::Int => {
                        let a = self.expr(&Ty::Int, d1);
                        let b = self.expr(&Ty::Int, d1);
                        let f = if self.rng.chance(1, 2) { "saturating_add" } else { "saturating_sub" };
                        Some(format!("{f}({a}, {b})"))
                    }
                    Ty::Bool => match self.rng.below(9) {
                        0..=2 => {
                            let a = self.expr(&Ty::Int, d1);
                            let b = self.expr(&Ty::Int, d1);
                            let op = self.rng.pick(&["<", ">", "<=", ">="]);
                            Some(format!("(({a}) {op} ({b}))"))
                        }
                        3..=4 => {
                            let u = self.any_ty(1);
                            let a = self.expr(&u, d1);
                            let b = self.expr(&u, d1);
                            let op = self.rng.pick(&["==", "!="]);
                            Some(format!("(({a}) {op} ({b}))"))
                        }
                        5..=6 => {
                            let a = self.expr(&Ty::Bool, d1);
                            let b = self.expr(&Ty::Bool, d1);
                            let op = self.rng.pick(&["&&", "||"]);
                            Some(format!("(({a}) {op} ({b}))"))
                        }
                        7 => {
                            let a = self.expr(&Ty::Bool, d1);
                            Some(format!("(!({a}))"))
                        }
                        _ => {
                            let u = self.any_ty(0);
                            let a = self.expr_nn(&Ty::Opt(Box::new(u)), d1);
                            let w = self.rng.pick(&["Some", "None"]);
                            Some(format!("(({a}) is {w})"))
                        }
                    },
                    Ty::Opt(i) => {
                        if **i == Ty::Int && self.rng.chance(1, 2) {
                            let a = self.expr(&Ty::Int, d1);
                            let b = self.expr(&Ty::Int, d1);
                            let f = if self.rng.chance(1, 2) { "add" } else { "sub" };
                            Some(format!("{f}({a}, {b})"))
                        } else if self.rng.chance(1, 5) {
                            Some("None".into())
                        } else {
                            let e = self.expr(i, d1);
                            Some(format!("Some({e})"))
                        }
                    }
                    Ty::Res(a, b) => {
                        if self.rng.chance(1, 2) {
                            let e = self.expr(a, d1);
                            Some(format!("Ok({e})"))
                        } else {
                            let e = self.expr(b, d1);
                            Some(format!("Err({e})"))
                        }
                    }
                    Ty::Struct(i) => {
                        let (same, sup) = self.struct_rel(*i);
                        let (n, fs) = self.s.structs[*i].clone();
                        match self.rng.below(6) {
                            0 if !same.is_empty() => {
                                let j = *self.rng.pick(&same);
                                let e = self.expr_nn(&Ty::Struct(j), d1);
                                Some(format!("(({e}) as {n})"))
                            }
                            1 if !sup.is_empty() => {
                                let j = *self.rng.pick(&sup);
                                let e = self.expr_nn(&Ty::Struct(j), d1);
                                Some(format!("(({e}) substruct {n})"))
                            }
                            2 => {
                                // `...src` from a variable whose struct fields are a strict subset
                                let mut cands = vec![];
                                for (j, (_, fj)) in self.s.structs.iter().enumerate() {
                                    if j != *i && fj.len() < fs.len() && fj.iter().all(|f| fs.contains(f)) {
                                        for v in self.vars_of(&Ty::Struct(j)) {
                                            cands.push((j, v));
                                        }
                                    }
                                }
                                if cands.is_empty() {
                                    None
                                } else {
                                    let (j, v) = self.rng.pick(&cands).clone();
                                    let fj = self.s.structs[j].1.clone();
                                    let parts: Vec<String> = fs
                                        .iter()
                                        .filter(|f| !fj.contains(f))
                                        .map(|(f, ft)| format!("{f}: {}", self.expr(ft, d1)))
                                        .collect();
                                    if parts.is_empty() {
                                        None
                                    } else {
                                        Some(format!("{n} {{ {}, ...{v} }}", parts.join(", ")))
                                    }
                                }
                            }
                            _ => {
                                let mut fs = fs;
                                if self.rng.chance(1, 3) {
                                    self.rng.shuffle(&mut fs);
                                }
                                if self.pm(self.k.odd) && fs.len() > 1 {
                                    self.stats.push("odd:partial-struct");
                                    fs.pop();
                                }
                                let parts: Vec<String> = fs.iter().map(|(f, ft)| format!("{f}: {}", self.expr(ft, d1))).collect();
                                Some(format!("{n} {{ {} }}", parts.join(", ")))
                            }
                        }
                    }
                    _ => None,
                },
            };
            if let Some(s) = r {
                return s;
            }
        }
        self.leaf(t)
    }

    // -------------------------------------------------------------- statements

    fn ret_stmt(&mut self, d: usize) -> String {
        let rt = self.ret.clone();
        let e = self.expr(&rt, d);
        format!("return {e}\n")
    }

    fn stmts(&mut self, n: u64, d: usize, nest: usize) -> String {
        let mut s = String::new();
        for _ in 0..n {
            match self.rng.below(12) {
                0..=5 => {
                    let lt = self.any_ty(1);
                    let e = self.expr(&lt, d);
                    let mut v = self.fresh();
                    if self.ill_pending && self.rng.chance(1, 8) {
                        let all: Vec<String> = self.scope.iter().flatten().map(|(n, _)| n.clone()).collect();
                        if !all.is_empty() {
                            self.ill_pending = false;
                            self.ill_kind = Some("shadow");
                            v = self.rng.pick(&all).clone();
                        }
                    }
                    s.push_str(&format!("let {v} = {e}\n"));
                    self.push_var(v, lt);
                }
                6 => {
                    let c = self.expr(&Ty::Bool, d);
                    let els = if self.rng.chance(1, 4) {
                        "todo()".to_string()
                    } else {
                        let rt = self.ret.clone();
                        format!("return {}", self.expr(&rt, d.min(1)))
                    };
                    s.push_str(&format!("check {c} else {els}\n"));
                }
                7..=8 if nest > 0 => {
                    let nb = self.rng.range(1, 2);
                    for b in 0..nb {
                        let c = self.expr(&Ty::Bool, d);
                        self.scope.push(vec![]);
                        let k = self.rng.range(0, 2);
                        let mut body = self.stmts(k, d.saturating_sub(1), nest - 1);
                        if self.rng.chance(1, 3) {
                            body.push_str(&self.ret_stmt(d.min(2)));
                        }
                        self.scope.pop();
                        s.push_str(&format!("{} ({c}) {{\n{body}}}\n", if b == 0 { "if" } else { "else if" }));
                    }
                    if self.rng.chance(1, 2) {
                        self.scope.push(vec![]);
                        let k = self.rng.range(0, 2);
                        let mut body = self.stmts(k, d.saturating_sub(1), nest - 1);
                        if self.rng.chance(1, 3) {
                            body.push_str(&self.ret_stmt(d.min(2)));
                        }
                        self.scope.pop();
                        s.push_str(&format!("else {{\n{body}}}\n"));
                    }
                }
                9..=10 if nest > 0 => {
                    let st = self.scrutinee_ty();
                    let sc = self.expr_nn(&st, d);
                    let arms = self.arms(&st, &mut |g| {
                        let k = g.rng.range(0, 2);
                        let mut body = g.stmts(k, d.saturating_sub(1), nest - 1);
                        if g.rng.chance(1, 3) {
                            body.push_str(&g.ret_stmt(d.min(2)));
                        }
                        format!("{{\n{body}}}\n")
                    });
                    s.push_str(&format!("match ({sc}) {{\n{arms}}}\n"));
                }
                11 => {
                    let c = self.expr(&Ty::Bool, d.min(2));
                    s.push_str(&format!("debug_assert({c})\n"));
                }
                _ => {}
            }
        }
        s
    }

    fn function(&mut self, i: usize) -> String {
        let sig = self.s.funs[i].clone();
        self.cur_fn = i;
        self.ret = sig.ret.clone();
        self.scope = vec![self.globals.clone(), sig.params.clone()];
        let d = self.k.max_depth;
        let n = self.rng.range(0, 4);
        let mut body = self.stmts(n, d.saturating_sub(1), 2);
        body.push_str(&self.ret_stmt(d));
        let ps: Vec<String> = sig.params.iter().map(|(n, t)| format!("{n} {}", self.s.ty_src(t))).collect();
        format!("function {}({}) {} {{\n{body}}}\n", sig.name, ps.join(", "), self.s.ty_src(&sig.ret))
    }

    // -------------------------------------------------------------- dedicated typing-rule functions

    /// two types that differ (`mistyped`) or coincide (control)
    fn type_pair(&mut self, mistyped: bool) -> (Ty, Ty) {
        let oi = Ty::Opt(Box::new(Ty::Int));
        let ob = Ty::Opt(Box::new(Ty::Bool));
        let mut pairs = vec![
            (Ty::Int, Ty::Str),
            (Ty::Str, Ty::Int),
            (oi.clone(), Ty::Int),
            (Ty::Int, oi.clone()),
            (Ty::Int, Ty::Bool),
            (Ty::Bool, Ty::Int),
            (oi.clone(), ob.clone()),
            (Ty::Res(Box::new(Ty::Int), Box::new(Ty::Bool)), Ty::Res(Box::new(Ty::Bool), Box::new(Ty::Int))),
            (oi.clone(), Ty::Opt(Box::new(oi.clone()))),
        ];
        if self.s.enums.len() > 1 {
            pairs.push((Ty::Enum(0), Ty::Enum(1)));
        }
        let (a, b) = self.rng.pick(&pairs).clone();
        if mistyped {
            (a, b)
        } else {
            (a.clone(), a)
        }
    }

    fn add_struct(&mut self, fields: Vec<(String, Ty)>) -> usize {
        let n = self.s.structs.len();
        self.s.structs.push((format!("S{n}"), fields));
        n
    }

    fn add_fn(&mut self, params: Vec<(String, Ty)>, ret: Ty, body: String) -> String {
        let name = format!("f{}", self.s.funs.len());
        let ps: Vec<String> = params.iter().map(|(n, t)| format!("{n} {}", self.s.ty_src(t))).collect();
        self.extra_src.push_str(&format!("function {name}({}) {} {{\n{body}\n}}\n", ps.join(", "), self.s.ty_src(&ret)));
        self.s.funs.push(FunSig { name: name.clone(), params, ret });
        name
    }

    /// One extra function (plus the structs it needs) around typing rule `kind`.
    fn near_fn(&mut self, kind: usize, mistyped: bool) {
        let (t1, t2) = self.type_pair(mistyped);
        let u = self.s.structs.len();
        let (fa, fb) = (format!("k{u}a"), format!("k{u}b"));
        let l1 = self.literal(&t1);
        let l2 = self.literal(&t2);
        let sname = |g: &Self, i: usize| g.s.structs[i].0.clone();
        match NEAR_KINDS[kind % NEAR_KINDS.len()] {
            "substruct-field-type" => {
                let src = self.add_struct(vec![(fa.clone(), t1), (fb, Ty::Int)]);
                let tgt = self.add_struct(vec![(fa, t2)]);
                let tn = sname(self, tgt);
                self.add_fn(vec![("q".into(), Ty::Struct(src))], Ty::Struct(tgt), format!("return q substruct {tn}"));
            }
            "cast-field-type" => {
                let src = self.add_struct(vec![(fa.clone(), t1), (fb.clone(), Ty::Int)]);
                let tgt = self.add_struct(vec![(fb, Ty::Int), (fa, t2)]);
                let tn = sname(self, tgt);
                self.add_fn(vec![("q".into(), Ty::Struct(src))], Ty::Struct(tgt), format!("return q as {tn}"));
            }
            "source-field-type" => {
                let tgt = self.add_struct(vec![(fa.clone(), t1), (fb.clone(), Ty::Int)]);
                let src = self.add_struct(vec![(fa, t2)]);
                let tn = sname(self, tgt);
                self.add_fn(vec![("q".into(), Ty::Struct(src))], Ty::Struct(tgt), format!("return {tn} {{ {fb}: 1, ...q }}"));
            }
            "struct-lit-field-type" => {
                let tgt = self.add_struct(vec![(fa.clone(), t1), (fb.clone(), Ty::Int)]);
                let tn = sname(self, tgt);
                self.add_fn(vec![], Ty::Struct(tgt), format!("return {tn} {{ {fa}: {l2}, {fb}: 1 }}"));
            }
            "call-arg-type" => {
                let h = self.add_fn(vec![("q".into(), t1)], Ty::Int, "return 1".into());
                self.add_fn(vec![], Ty::Int, format!("return {h}({l2})"));
            }
            "return-type" => {
                self.add_fn(vec![], t1, format!("return {l2}"));
            }
            "match-arm-type" => {
                self.add_fn(vec![("q".into(), Ty::Int)], t1, format!("return match (q) {{ 0 => ({l1}) _ => ({l2}) }}"));
            }
            "if-branch-type" => {
                self.add_fn(vec![("q".into(), Ty::Bool)], t1, format!("return if (q) {{ : {l1} }} else {{ : {l2} }}"));
            }
            "field-access-type" => {
                let src = self.add_struct(vec![(fa.clone(), t2), (fb, Ty::Int)]);
                self.add_fn(vec![("q".into(), Ty::Struct(src))], t1, format!("return (q).{fa}"));
            }
            "coalesce-default-type" => {
                self.add_fn(vec![("q".into(), Ty::Opt(Box::new(t1.clone())))], t1, format!("return ((q) or ({l2}))"));
            }
            "some-payload-type" => {
                self.add_fn(vec![], Ty::Opt(Box::new(t1)), format!("return Some({l2})"));
            }
            "let-var-type" => {
                self.add_fn(vec![], t1, format!("let w = {l2}\nreturn w"));
            }
            "binding-payload-type" => {
                self.add_fn(
                    vec![("q".into(), Ty::Opt(Box::new(t2)))],
                    t1,
                    format!("match (q) {{\nSome(w) => {{\nreturn w\n}}\nNone => {{\nreturn {l1}\n}}\n}}\nreturn {l1}"),
                );
            }
            "nominal-struct" => {
                // same field names and types, another struct name (control: the same struct)
                let a = self.add_struct(vec![(fa.clone(), Ty::Int)]);
                let b = if mistyped { self.add_struct(vec![(fa, Ty::Int)]) } else { a };
                self.add_fn(vec![("q".into(), Ty::Struct(a))], Ty::Struct(b), "return q".into());
            }
            "enum-of-other-enum" => {
                // both enums have a variant `A`
                let (e1, e2) = if mistyped && self.s.enums.len() > 1 { (0, 1) } else { (0, 0) };
                let n2 = self.s.enums[e2].0.clone();
                if e1 == e2 && mistyped {
                    // one enum only: fall back to another near miss
                    self.add_fn(vec![], Ty::Enum(0), "return 0".into());
                } else {
                    self.add_fn(vec![], Ty::Enum(e1), format!("return {n2}::A"));
                }
            }
            "eq-operand-types" => {
                self.add_fn(vec![], Ty::Bool, format!("return (({l1}) == ({l2}))"));
            }
            "ffi-arg-type" => {
                let arg = if mistyped { self.literal(&Ty::Bool) } else { "5".into() };
                self.add_fn(vec![], Ty::Int, format!("return t::mark({arg})"));
            }
            "result-payload-type" => {
                let ok = self.rng.chance(1, 2);
                let rt = Ty::Res(Box::new(t1.clone()), Box::new(t1));
                self.add_fn(vec![], rt, format!("return {}({l2})", if ok { "Ok" } else { "Err" }));
            }
            "substruct-nested-field-type" => {
                // the differing field is itself optional: option[T1] vs option[T2]
                let src = self.add_struct(vec![(fa.clone(), Ty::Opt(Box::new(t1))), (fb, Ty::Int)]);
                let tgt = self.add_struct(vec![(fa, Ty::Opt(Box::new(t2)))]);
                let tn = sname(self, tgt);
                self.add_fn(vec![("q".into(), Ty::Struct(src))], Ty::Struct(tgt), format!("return q substruct {tn}"));
            }
            k @ ("coalesce-never-hole-result" | "coalesce-never-hole-option" | "if-never-hole-result") => {
                // a `never` slot below the top level (`Some(Ok(1))`, `Some(None)`, `Ok(1)`) is filled in
                // by the other operand / branch; the value bound from that slot is then used as an int
                let ft = if self.rng.chance(1, 2) { Ty::Str } else { Ty::Bool };
                let fill = if mistyped { self.literal(&ft) } else { self.int_lit().to_string() };
                let body = match k {
                    "coalesce-never-hole-result" => format!(
                        "let o = if (q) {{ : Some(Ok(1)) }} else {{ : None }}\nlet r = ((o) or (Err({fill})))\nmatch (r) {{\nOk(v) => {{\nreturn v\n}}\nErr(e) => {{\nreturn saturating_add(e, 1)\n}}\n}}\nreturn 0"
                    ),
                    "coalesce-never-hole-option" => format!(
                        "let o = if (q) {{ : Some(None) }} else {{ : None }}\nlet r = ((o) or (Some({fill})))\nmatch (r) {{\nSome(w) => {{\nreturn saturating_add(w, 1)\n}}\nNone => {{\nreturn 0\n}}\n}}\nreturn 0"
                    ),
                    _ => format!(
                        "let r = if (q) {{ : Ok(1) }} else {{ : Err({fill}) }}\nmatch (r) {{\nOk(v) => {{\nreturn v\n}}\nErr(e) => {{\nreturn saturating_add(e, 1)\n}}\n}}\nreturn 0"
                    ),
                };
                self.add_fn(vec![("q".into(), Ty::Bool)], Ty::Int, body);
            }
            k @ ("binding-shadows-param" | "binding-shadows-local" | "binding-shadows-global" | "binding-shadows-outer-binding"
            | "binding-shadows-param-expr") => {
                // a `Some(x)` / `Ok(x)` binding whose name is already a parameter, a local, a global
                // or an outer match binding (control: a fresh name); the arm is taken whenever the
                // argument is `Some(..)` / `Ok(..)`
                let res = self.rng.chance(1, 3);
                let (qt, pat, other) = if res {
                    (Ty::Res(Box::new(Ty::Int), Box::new(Ty::Bool)), "Ok", "Err(e9)")
                } else {
                    (Ty::Opt(Box::new(Ty::Int)), "Some", "None")
                };
                let fresh = "z9".to_string();
                let mut params = vec![("q".to_string(), qt)];
                let (pre, name) = match k {
                    "binding-shadows-param" | "binding-shadows-param-expr" => {
                        params.push(("w".into(), Ty::Int));
                        (String::new(), "w".to_string())
                    }
                    "binding-shadows-local" => ("let w = 1\n".to_string(), "w".to_string()),
                    "binding-shadows-global" => {
                        let g = format!("G{}", self.globals.len());
                        self.globals_src.push_str(&format!("let {g} = 5\n"));
                        self.globals.push((g.clone(), Ty::Int));
                        (String::new(), g)
                    }
                    _ => (String::new(), "w".to_string()),
                };
                let b = if mistyped { name.clone() } else { fresh };
                let body = match k {
                    "binding-shadows-outer-binding" => format!(
                        "match (q) {{\n{pat}(w) => {{\nmatch (q) {{\n{pat}({b}) => {{\nreturn {b}\n}}\n_ => {{\nreturn 1\n}}\n}}\n}}\n{other} => {{\nreturn 0\n}}\n}}\nreturn 2"
                    ),
                    "binding-shadows-param-expr" => format!("return match (q) {{ {pat}({b}) => ({b}) {other} => (0) }}"),
                    _ => format!("{pre}match (q) {{\n{pat}({b}) => {{\nreturn {b}\n}}\n{other} => {{\nreturn 0\n}}\n}}\nreturn 2"),
                };
                self.add_fn(params, Ty::Int, body);
            }
            k @ ("global-struct-field-type" | "global-struct-missing-field" | "global-struct-extra-field" | "global-struct-duplicate-field") => {
                // a global `let` with a struct literal that does not conform to the definition
                // (control: a conforming one); a function reads its fields
                let tgt = self.add_struct(vec![(fa.clone(), t1.clone()), (fb.clone(), Ty::Int)]);
                let tn = sname(self, tgt);
                let g = format!("G{}", self.globals.len());
                let lit = match (k, mistyped) {
                    ("global-struct-field-type", _) => format!("{tn} {{ {fa}: {l2}, {fb}: 1 }}"),
                    ("global-struct-missing-field", true) => format!("{tn} {{ {fb}: 1 }}"),
                    ("global-struct-extra-field", true) => format!("{tn} {{ {fa}: {l1}, {fb}: 1, zz{u}: 2 }}"),
                    ("global-struct-duplicate-field", true) => format!("{tn} {{ {fa}: {l1}, {fb}: 1, {fb}: 2 }}"),
                    _ => format!("{tn} {{ {fa}: {l1}, {fb}: 1 }}"),
                };
                self.globals_src.push_str(&format!("let {g} = {lit}\n"));
                self.globals.push((g.clone(), Ty::Struct(tgt)));
                self.add_fn(vec![], t1, format!("let w = saturating_add(({g}).{fb}, 1)\nreturn ({g}).{fa}"));
            }
            _ => {
                // match statement: literal pattern of another type than the scrutinee
                self.add_fn(
                    vec![("q".into(), t1)],
                    Ty::Int,
                    format!("match (q) {{\n{l2} => {{\nreturn 1\n}}\n_ => {{\nreturn 2\n}}\n}}\nreturn 3"),
                );
            }
        }
    }

    pub fn program(&mut self) -> String {
        self.gen_schema();
        self.gen_special_structs();
        self.ill_pending = self.pm(self.k.ill);
        let nf = self.rng.range(1, 4) as usize;
        for i in 0..nf {
            let np = self.rng.range(0, 3);
            let mut params = vec![];
            for j in 0..np {
                let t = if self.rng.chance(1, 8) { Ty::Id } else { self.any_ty(1) };
                params.push((format!("p{i}x{j}"), t));
            }
            let ret = self.any_ty(1);
            self.s.funs.push(FunSig { name: format!("f{i}"), params, ret });
        }
        if let Some((kind, mistyped)) = self.k.near {
            if mistyped {
                self.ill_pending = false;
                self.ill_kind = Some(NEAR_KINDS[kind % NEAR_KINDS.len()]);
            } else {
                self.stats.push("control:typing-rule-template");
            }
            self.near_fn(kind, mistyped);
        }
        // global `let`s of literal form (visible in every function)
        if self.rng.chance(1, 2) {
            let ng = self.rng.range(1, 2);
            for _ in 0..ng {
                let t = loop {
                    let t = self.any_ty(1);
                    if !matches!(t, Ty::Unit) {
                        break t;
                    }
                };
                let lit = self.literal(&t);
                let g = format!("G{}", self.globals.len());
                self.globals_src.push_str(&format!("let {g} = {lit}\n"));
                self.globals.push((g, t));
            }
        }
        let mut src = String::from("use t\n");
        for (n, vs) in &self.s.enums {
            src.push_str(&format!("enum {n} {{ {} }}\n", vs.join(", ")));
        }
        for (n, fs) in &self.s.structs {
            let parts: Vec<String> = fs.iter().map(|(f, t)| format!("{f} {}", self.s.ty_src(t))).collect();
            src.push_str(&format!("struct {n} {{ {} }}\n", parts.join(", ")));
        }
        src.push_str(&self.globals_src);
        for i in 0..nf {
            let f = self.function(i);
            src.push_str(&f);
        }
        src.push_str(&self.extra_src);
        src
    }

    // -------------------------------------------------------------- argument vectors

    pub fn arg(&mut self, t: &Ty) -> super::RV {
        use super::RV;
        match t {
            Ty::Unit => RV::Unit,
            Ty::Int => RV::Int(self.int_lit()),
            Ty::Bool => RV::Bool(self.rng.chance(1, 2)),
            Ty::Str => RV::Str(self.rng.pick(&["", "a", "b", "ab", "policy", "x y"]).to_string()),
            Ty::Id => RV::Id(self.rng.below(3)),
            Ty::Enum(i) => {
                let (n, vs) = &self.s.enums[*i];
                RV::Enum(n.clone(), self.rng.below(vs.len() as u64) as i64)
            }
            Ty::Struct(i) => {
                let (n, fs) = self.s.structs[*i].clone();
                RV::Struct(n, fs.iter().map(|(f, ft)| (f.clone(), self.arg(ft))).collect())
            }
            Ty::Opt(t) => {
                if self.rng.chance(1, 3) {
                    RV::None
                } else {
                    RV::Some(Box::new(self.arg(t)))
                }
            }
            Ty::Res(a, b) => {
                if self.rng.chance(1, 2) {
                    RV::Ok(Box::new(self.arg(a)))
                } else {
                    RV::Err(Box::new(self.arg(b)))
                }
            }
        }
    }
}
