//! Serialise the REAL parsed AST (`aranya_policy_ast::Policy`) to the S-expression token form the
//! Lean drivers (`Driver/LangDrv.lean`) parse.  Every parenthesis is its own token; atoms contain
//! no spaces.  Constructs outside the C22–C24 fragment give `Err(what)`.

use aranya_policy_ast::{
    self as ast, ExprKind, Expression, InternalFunction, MatchPattern, Statement, StmtKind, StructItem, TypeKind, VType,
};

use crate::hex;

type R = Result<(), String>;

fn ty(o: &mut String, t: &VType) -> R {
    match &t.inner {
        TypeKind::Unit => o.push_str("unit "),
        TypeKind::String => o.push_str("string "),
        TypeKind::Bytes => o.push_str("bytes "),
        TypeKind::Int => o.push_str("int "),
        TypeKind::Bool => o.push_str("bool "),
        TypeKind::Id => o.push_str("id "),
        TypeKind::Never => o.push_str("never "),
        TypeKind::Struct(n) => {
            o.push_str(&format!("( struct {} ) ", n.inner));
        }
        TypeKind::Enum(n) => {
            o.push_str(&format!("( enum {} ) ", n.inner));
        }
        TypeKind::Optional(t) => {
            o.push_str("( opt ");
            ty(o, t)?;
            o.push_str(") ");
        }
        TypeKind::Result(r) => {
            o.push_str("( res ");
            ty(o, &r.ok)?;
            ty(o, &r.err)?;
            o.push_str(") ");
        }
    }
    Ok(())
}

fn pattern(o: &mut String, p: &MatchPattern) -> R {
    match p {
        MatchPattern::Default(_) => o.push_str("default "),
        MatchPattern::Values(vs) => {
            o.push_str("( vals ");
            for v in vs {
                expr(o, v)?;
            }
            o.push_str(") ");
        }
    }
    Ok(())
}

fn bin(o: &mut String, tag: &str, a: &Expression, b: &Expression) -> R {
    o.push_str(&format!("( {tag} "));
    expr(o, a)?;
    expr(o, b)?;
    o.push_str(") ");
    Ok(())
}

fn stmts(o: &mut String, ss: &[Statement]) -> R {
    o.push_str("( ");
    for s in ss {
        stmt(o, s)?;
    }
    o.push_str(") ");
    Ok(())
}

pub fn expr(o: &mut String, e: &Expression) -> R {
    match &e.inner {
        ExprKind::Unit => o.push_str("unit "),
        ExprKind::Int(n) => o.push_str(&format!("( int {} ) ", n.inner)),
        ExprKind::String(s) => o.push_str(&format!("( str {} ) ", hex(s.as_str().as_bytes()))),
        ExprKind::Bool(b) => o.push_str(if *b { "true " } else { "false " }),
        ExprKind::Optional(None) => o.push_str("none "),
        ExprKind::Optional(Some(x)) => {
            o.push_str("( some ");
            expr(o, x)?;
            o.push_str(") ");
        }
        ExprKind::Ok(x) => {
            o.push_str("( ok ");
            expr(o, x)?;
            o.push_str(") ");
        }
        ExprKind::Err(x) => {
            o.push_str("( err ");
            expr(o, x)?;
            o.push_str(") ");
        }
        ExprKind::NamedStruct(s) => {
            o.push_str(&format!("( struct {} ( ", s.identifier.inner));
            for (k, v) in &s.fields {
                o.push_str(&format!("( {} ", k.inner));
                expr(o, v)?;
                o.push_str(") ");
            }
            o.push_str(") ( ");
            for src in &s.sources {
                o.push_str(&format!("{} ", src.inner));
            }
            o.push_str(") ) ");
        }
        ExprKind::InternalFunction(f) => match f {
            InternalFunction::If(c, t, f) => {
                o.push_str("( if ");
                expr(o, c)?;
                expr(o, t)?;
                expr(o, f)?;
                o.push_str(") ");
            }
            InternalFunction::Todo(_) => o.push_str("todo "),
            InternalFunction::TestFail(..) => o.push_str("testfail "),
            _ => return Err("fact expression".into()),
        },
        ExprKind::FunctionCall(f) => {
            o.push_str(&format!("( call {} ", f.identifier.inner));
            for a in &f.arguments {
                expr(o, a)?;
            }
            o.push_str(") ");
        }
        ExprKind::ForeignFunctionCall(f) => {
            o.push_str(&format!("( ffi {} {} ", f.module.inner, f.identifier.inner));
            for a in &f.arguments {
                expr(o, a)?;
            }
            o.push_str(") ");
        }
        ExprKind::Return(x) => {
            o.push_str("( ret ");
            expr(o, x)?;
            o.push_str(") ");
        }
        ExprKind::Recall(_) => return Err("recall".into()),
        ExprKind::Identifier(i) => o.push_str(&format!("( var {} ) ", i.inner)),
        ExprKind::EnumReference(r) => o.push_str(&format!("( enumref {} {} ) ", r.identifier.inner, r.value.inner)),
        ExprKind::And(a, b) => bin(o, "and", a, b)?,
        ExprKind::Or(a, b) => bin(o, "or", a, b)?,
        ExprKind::Coalesce(a, b) => bin(o, "coal", a, b)?,
        ExprKind::Equal(a, b) => bin(o, "eq", a, b)?,
        ExprKind::NotEqual(a, b) => bin(o, "ne", a, b)?,
        ExprKind::GreaterThan(a, b) => bin(o, "gt", a, b)?,
        ExprKind::LessThan(a, b) => bin(o, "lt", a, b)?,
        ExprKind::GreaterThanOrEqual(a, b) => bin(o, "ge", a, b)?,
        ExprKind::LessThanOrEqual(a, b) => bin(o, "le", a, b)?,
        ExprKind::Dot(x, f) => {
            o.push_str("( dot ");
            expr(o, x)?;
            o.push_str(&format!("{} ) ", f.inner));
        }
        ExprKind::Not(x) => {
            o.push_str("( not ");
            expr(o, x)?;
            o.push_str(") ");
        }
        ExprKind::Is(x, some) => {
            o.push_str("( is ");
            expr(o, x)?;
            o.push_str(if *some { "1 ) " } else { "0 ) " });
        }
        ExprKind::Block(ss, x) => {
            o.push_str("( block ");
            stmts(o, ss)?;
            expr(o, x)?;
            o.push_str(") ");
        }
        ExprKind::Substruct(x, n) => {
            o.push_str("( substruct ");
            expr(o, x)?;
            o.push_str(&format!("{} ) ", n.inner));
        }
        ExprKind::Cast(x, n) => {
            o.push_str("( cast ");
            expr(o, x)?;
            o.push_str(&format!("{} ) ", n.inner));
        }
        ExprKind::Match(m) => {
            o.push_str("( match ");
            expr(o, &m.scrutinee)?;
            for a in &m.arms {
                o.push_str("( arm ");
                pattern(o, &a.pattern)?;
                expr(o, &a.expression)?;
                o.push_str(") ");
            }
            o.push_str(") ");
        }
    }
    Ok(())
}

pub fn stmt(o: &mut String, s: &Statement) -> R {
    match &s.inner {
        StmtKind::Let(l) => {
            o.push_str(&format!("( let {} ", l.identifier.inner));
            expr(o, &l.expression)?;
            o.push_str(") ");
        }
        StmtKind::Check(c) => {
            o.push_str("( check ");
            expr(o, &c.expression)?;
            expr(o, &c.else_expression)?;
            o.push_str(") ");
        }
        StmtKind::Match(m) => {
            o.push_str("( smatch ");
            expr(o, &m.expression)?;
            for a in &m.arms {
                o.push_str("( arm ");
                pattern(o, &a.pattern)?;
                stmts(o, &a.statements)?;
                o.push_str(") ");
            }
            o.push_str(") ");
        }
        StmtKind::If(i) => {
            o.push_str("( sif ( ");
            for (c, b) in &i.branches {
                o.push_str("( br ");
                expr(o, c)?;
                stmts(o, b)?;
                o.push_str(") ");
            }
            o.push_str(") ");
            match &i.fallback {
                None => o.push_str("none "),
                Some(f) => {
                    o.push_str("( else ");
                    stmts(o, f)?;
                    o.push_str(") ");
                }
            }
            o.push_str(") ");
        }
        StmtKind::Return(r) => {
            o.push_str("( sret ");
            expr(o, &r.expression)?;
            o.push_str(") ");
        }
        StmtKind::DebugAssert(e) => {
            o.push_str("( dassert ");
            expr(o, e)?;
            o.push_str(") ");
        }
        other => return Err(format!("statement outside the fragment: {:?}", std::mem::discriminant(other))),
    }
    Ok(())
}

/// `( P ( uses .. ) ( enums .. ) ( structs .. ) ( globals .. ) ( funs .. ) )`
pub fn policy(p: &ast::Policy) -> Result<String, String> {
    if !p.facts.is_empty() || !p.actions.is_empty() || !p.effects.is_empty() || !p.commands.is_empty() || !p.finish_functions.is_empty() {
        return Err("top-level item outside the fragment".into());
    }
    let mut o = String::from("( P ( uses ");
    for u in &p.ffi_imports {
        o.push_str(&format!("{} ", u.inner));
    }
    o.push_str(") ( enums ");
    for e in &p.enums {
        o.push_str(&format!("( E {} ", e.identifier.inner));
        for v in &e.variants {
            o.push_str(&format!("{} ", v.inner));
        }
        o.push_str(") ");
    }
    o.push_str(") ( structs ");
    for s in &p.structs {
        o.push_str(&format!("( S {} ", s.identifier.inner));
        for it in &s.items {
            match it {
                StructItem::Field(f) => {
                    o.push_str(&format!("( f {} ", f.identifier.inner));
                    ty(&mut o, &f.field_type)?;
                    o.push_str(") ");
                }
                StructItem::StructRef(r) => {
                    o.push_str(&format!("( ins {} ) ", r.inner));
                }
            }
        }
        o.push_str(") ");
    }
    o.push_str(") ( globals ");
    for g in &p.global_lets {
        o.push_str(&format!("( G {} ", g.identifier.inner));
        expr(&mut o, &g.expression)?;
        o.push_str(") ");
    }
    o.push_str(") ( funs ");
    for f in &p.functions {
        o.push_str(&format!("( F {} ( ", f.identifier.inner));
        for a in &f.arguments {
            o.push_str(&format!("( p {} ", a.name.inner));
            ty(&mut o, &a.ty)?;
            o.push_str(") ");
        }
        o.push_str(") ");
        ty(&mut o, &f.return_type)?;
        stmts(&mut o, &f.statements)?;
        o.push_str(") ");
    }
    o.push_str(") )");
    Ok(o)
}
