//! One correspondence case for C22 / C23 / C24: a policy source text and a list of calls.
//!
//! Request lines (answered by `Driver/LangDrv.lean`):
//!   prog <hex-of-source> <S-expression of the REAL parsed AST>  -> accept | reject
//!   list                                                       -> <fn@addr ..> | <instr ..>
//!   eval <fn> <arg>*     (Spec.Lang.eval)                      -> <outcome> | <ffi log>
//!   vm   <fn> <arg>*     (Model.Compile + Model.LangVM)        -> <outcome> | <ffi log>

use aranya_policy_vm::Machine;

use super::{compile_real, entries, listing, refeval, run_real, sx, Compiled, Outcome, RV};
use crate::{hex, Recorder};

#[derive(Clone, Copy, PartialEq, Eq, Debug)]
pub enum Prop {
    C22,
    C23,
    C24,
}

pub const FORBIDDEN: &[&str] = &[
    "InvalidType",
    "UnresolvedTarget",
    "InvalidAddress",
    "StackUnderflow",
    "NotDefined",
    "AlreadyDefined",
    "InvalidStructMember",
    "InvalidSchema",
    "BadState",
    "CallStack",
    "InvalidInstruction",
    "EmptyStack",
];

pub const MAX_STEPS: usize = 200_000;

fn show_log(l: &[String]) -> String {
    if l.is_empty() {
        "-".into()
    } else {
        l.join(",")
    }
}

pub struct CaseResult {
    pub accepted: bool,
    pub parse_error: Option<String>,
    pub machine: Option<Box<Machine>>,
}

/// Runs the case; returns what the real front end said.  `calls` are only used when accepted.
pub fn run_case(rec: &mut Recorder, prop: Prop, src: &str, calls: &[(String, Vec<RV>)]) -> CaseResult {
    let comp = compile_real(src);
    let (policy, machine, why) = match comp {
        Compiled::ParseError(e) => {
            rec.count("parse-error");
            return CaseResult { accepted: false, parse_error: Some(e), machine: None };
        }
        Compiled::Rejected(p, why) => (p, None, why),
        Compiled::Accepted(p, m) => (p, Some(m), String::new()),
    };
    let sxp = match sx::policy(&policy) {
        Ok(s) => s,
        Err(e) => {
            rec.count("outside-fragment");
            rec.notes.push(format!("outside fragment: {e}"));
            // C24: whatever the real compiler accepts is executed and classified, model or not
            if let (Prop::C24, Some(m)) = (prop, machine.as_ref()) {
                for (f, args) in calls {
                    let real = run_real(m, f, args, MAX_STEPS);
                    if let Some(c) = real.err {
                        if FORBIDDEN.contains(&c) {
                            rec.oracle_fail_with(
                                format!("accepted policy went wrong: {f}(..) ended with machine error {c} ({})", describe(&real.outcome)),
                                vec![format!("prog {} -", hex(src.as_bytes()))],
                            );
                        }
                    }
                }
            }
            return CaseResult { accepted: machine.is_some(), parse_error: None, machine };
        }
    };
    rec.line(format!("prog {} {}", hex(src.as_bytes()), sxp), if machine.is_some() { "accept" } else { "reject" });
    let Some(m) = machine else {
        rec.count("rejected");
        let k = why.lines().next().unwrap_or("").chars().take(60).collect::<String>();
        rec.count(&format!("reject:{}", k.split(':').next().unwrap_or("")));
        if std::env::var("LANGKIT_DEBUG").is_ok() {
            eprintln!("---- REJECTED: {}\n{}", why.lines().take(12).collect::<Vec<_>>().join("\n"), src);
        }
        return CaseResult { accepted: false, parse_error: None, machine: None };
    };
    rec.count("accepted");
    rec.line("list", format!("{} | {}", entries(&m), listing(&m)));
    rec.count_n("instructions", m.progmem.len() as u64);

    for (f, args) in calls {
        let real = run_real(&m, f, args, MAX_STEPS);
        // C24: every run of an accepted program is classified first, independently of the model
        // drivers and of the reference evaluator
        if let (Prop::C24, Some(c)) = (prop, real.err) {
            if FORBIDDEN.contains(&c) {
                let shown: Vec<String> = args.iter().map(|a| a.show()).collect();
                rec.oracle_fail_with(
                    format!("accepted policy went wrong: {f}({}) ended with machine error {c} ({})", shown.join(", "), describe(&real.outcome)),
                    vec![format!("prog {} {}", hex(src.as_bytes()), sxp), format!("eval {f} {}", shown.join(" "))],
                );
            }
        }
        let mut it = match refeval::Interp::new(&policy) {
            Ok(i) => i,
            Err(e) => {
                rec.notes.push(format!("reference evaluator: {e}"));
                continue;
            }
        };
        let r = it.call(f, args);
        let rlog = it.log.clone();
        rec.count(&format!("real:{}", real.outcome.show().split(' ').next().unwrap()));
        if let Some(c) = real.err {
            rec.count(&format!("err:{c}"));
        }
        let argtoks: Vec<String> = args.iter().map(|a| a.show()).collect();
        let reqtail = if argtoks.is_empty() { f.clone() } else { format!("{f} {}", argtoks.join(" ")) };
        let emit = !matches!(real.outcome, Outcome::Timeout | Outcome::StackOverflow);
        if emit {
            let ans = if matches!(real.outcome, Outcome::Wrong(_)) { "wrong".to_string() } else { format!("{} | {}", real.outcome.show(), show_log(&real.log)) };
            rec.line(format!("eval {reqtail}"), ans.clone());
            rec.line(format!("vm {reqtail}"), ans);
        } else {
            rec.count("skipped:overflow-or-timeout");
            continue;
        }

        // ---------------- S-level oracles
        let refo = match &r {
            refeval::Out::Val(v) => Outcome::Val(v.clone()),
            refeval::Out::Ret(v) => Outcome::Val(v.clone()),
            refeval::Out::Exit(x) => Outcome::Exit(x),
            refeval::Out::FfiError => Outcome::FfiError,
            refeval::Out::Stuck(w) => Outcome::Wrong(w.clone()),
            refeval::Out::OutOfFuel => Outcome::Timeout,
        };
        if refo == Outcome::Timeout {
            rec.count("ref:out-of-fuel");
            continue;
        }
        let here = vec![format!("prog {} {}", hex(src.as_bytes()), sxp), format!("eval {reqtail}")];
        let same_class = match (&refo, &real.outcome) {
            (Outcome::Wrong(_), Outcome::Wrong(_)) => true,
            (a, b) => a == b,
        };
        match prop {
            Prop::C22 => {
                if !same_class {
                    rec.oracle_fail_with(
                        format!("{f}({}): language semantics gives `{}` but the compiled code gives `{}`{}", argtoks.join(", "), describe(&refo), describe(&real.outcome), real.err.map(|c| format!(" [{c}]")).unwrap_or_default()),
                        here.clone(),
                    );
                }
            }
            Prop::C23 => {
                if rlog != real.log {
                    rec.oracle_fail_with(
                        format!("{f}({}): foreign calls performed [{}] but the semantics performs [{}]", argtoks.join(", "), show_log(&real.log), show_log(&rlog)),
                        here.clone(),
                    );
                } else if !same_class {
                    rec.oracle_fail_with(
                        format!("{f}({}): outcome `{}` but an untaken operand/branch must not matter: semantics gives `{}`", argtoks.join(", "), describe(&real.outcome), describe(&refo)),
                        here.clone(),
                    );
                }
            }
            Prop::C24 => {
                if let (Outcome::Wrong(w), true) = (&refo, real.err.is_none()) {
                    rec.oracle_fail_with(
                        format!("accepted policy has no meaning ({w}) yet {f}({}) ran to `{}`", argtoks.join(", "), describe(&real.outcome)),
                        here.clone(),
                    );
                }
            }
        }
        if real.steps >= 12 {
            rec.nontrivial(crate::fnv(&format!("{}|{reqtail}", listing(&m))));
        }
    }
    CaseResult { accepted: true, parse_error: None, machine: Some(m) }
}

fn describe(o: &Outcome) -> String {
    match o {
        Outcome::Wrong(w) => format!("wrong: {w}"),
        o => o.show(),
    }
}

/// Rebuild (source, calls) from the request lines of a replay file.
pub fn parse_replay(lines: &[String]) -> Vec<(String, Vec<(String, Vec<RV>)>)> {
    let mut out: Vec<(String, Vec<(String, Vec<RV>)>)> = vec![];
    for l in lines {
        let t: Vec<&str> = l.split(' ').filter(|s| !s.is_empty()).collect();
        match t.first().copied() {
            Some("prog") if t.len() > 1 => {
                let src = String::from_utf8(crate::unhex(t[1]).unwrap_or_default()).unwrap_or_default();
                out.push((src, vec![]));
            }
            Some("eval") | Some("vm") if t.len() > 1 => {
                let args: Vec<RV> = t[2..].iter().filter_map(|a| RV::parse(a)).collect();
                if let Some(last) = out.last_mut() {
                    let call = (t[1].to_string(), args);
                    if !last.1.contains(&call) {
                        last.1.push(call);
                    }
                }
            }
            _ => {}
        }
    }
    out
}

/// Shared `main` of the c22 / c23 / c24 binaries.
pub fn main_for(prop: Prop) {
    use super::gen::{Gen, Knobs};
    use crate::{Args, Rng};
    let args = Args::parse();
    crate::quiet_panics();
    let mut rec = Recorder::new(&args.out);
    if let Some(p) = &args.replay {
        let lines = crate::read_replay_input(p);
        for (src, calls) in parse_replay(&lines) {
            rec.begin_case();
            let _ = run_case(&mut rec, prop, &src, &calls);
        }
        rec.finish(args.seed, &args.tier);
        return;
    }
    let thorough = args.thorough() || args.search;
    let mut rng = Rng::new(args.seed ^ (prop as u64) << 32);
    let cases = match prop {
        Prop::C22 => args.budget(260, 2600),
        Prop::C23 => args.budget(200, 1800),
        Prop::C24 => args.budget(260, 2600),
    };
    let mut gen_bugs = 0usize;
    for ci in 0..cases {
        let depth = if thorough { 2 + (ci % 7) } else { 1 + (ci % 5) };
        let mut knobs = match prop {
            Prop::C22 => Knobs::c22(depth),
            Prop::C23 => Knobs::c23(depth),
            Prop::C24 => Knobs::c24(depth),
        };
        // ill-typed / near-miss stream
        let ill_case = match prop {
            Prop::C24 => ci % 3 == 2,
            _ => ci % 8 == 7,
        };
        if ill_case {
            knobs.ill = 1000;
            // two of three ill cases: one dedicated function around a typing rule of the lowering
            // pass where two same-named things differ only in type (cycling through all rules)
            let k = ci / 3;
            if prop == Prop::C24 && k % 3 != 2 {
                knobs.near = Some((k - k / 3, true));
            }
        } else if prop == Prop::C24 && ci % 6 == 3 {
            // control: the same templates with equal types have to be accepted and are executed
            knobs.near = Some((ci / 6, false));
        }
        // debugging aid: LANGKIT_NEAR=control|ill forces a typing-rule template into every case
        match std::env::var("LANGKIT_NEAR").as_deref() {
            Ok("control") => {
                knobs.ill = 0;
                knobs.near = Some((ci, false));
            }
            Ok("ill") => knobs.near = Some((ci, true)),
            _ => {}
        }
        // plausible-looking forms the front end has to reject or handle (C24 all the time, C22 rarely)
        if (prop == Prop::C24 && ci % 4 == 1) || (prop == Prop::C22 && ci % 16 == 5) {
            knobs.odd = 120;
        }
        let mut r = rng.fork();
        let mut g = Gen::new(&mut r, knobs);
        let src = g.program();
        let nvec = if thorough { 5 } else { 4 };
        let mut calls = vec![];
        for f in g.s.funs.clone() {
            for _ in 0..nvec {
                let a: Vec<RV> = f.params.iter().map(|(_, t)| g.arg(t)).collect();
                if !calls.contains(&(f.name.clone(), a.clone())) {
                    calls.push((f.name.clone(), a));
                }
            }
        }
        let ill_kind = g.ill_kind;
        let stats = g.stats.clone();
        let nstats = stats.len();
        let control = matches!(g.k.near, Some((_, false)));
        let control_kind = g.k.near.map(|(k, _)| super::gen::NEAR_KINDS[k % super::gen::NEAR_KINDS.len()]).unwrap_or("");
        rec.begin_case();
        rec.count(&format!("depth:{depth}"));
        rec.count(if ill_case { "stream:ill" } else { "stream:well-typed" });
        if let Some(k) = ill_kind {
            rec.count(&format!("ill:{k}"));
        }
        for s in stats {
            rec.count(s);
        }
        let res = crate::catch(std::panic::AssertUnwindSafe(|| run_case(&mut rec, prop, &src, &calls)));
        match res {
            Err(p) => rec.panics.push(format!("panic in real front end / VM: {p}")),
            Ok(res) => {
                if let Some(e) = res.parse_error {
                    gen_bugs += 1;
                    if gen_bugs <= 3 {
                        rec.notes.push(format!("generator produced unparsable text: {}", e.lines().next().unwrap_or("")));
                    }
                }
                if !ill_case && ill_kind.is_none() && !res.accepted && res.machine.is_none() {
                    rec.count("well-typed-stream:rejected");
                    if control && nstats == 1 {
                        // a typing-rule template with equal types is well typed: the generator is wrong
                        rec.count(&format!("control-rejected:{control_kind}"));
                        rec.notes.push(format!("typing-rule control `{control_kind}` was rejected by the real front end"));
                    }
                }
                if ill_case && ill_kind.is_some() && res.accepted {
                    rec.count(&format!("ill-accepted:{}", ill_kind.unwrap_or("")));
                }
            }
        }
        if rec.cases() <= 2 {
            rec.sample(src.replace('\n', " "));
        }
    }
    rec.finish(args.seed, &args.tier);
}
