//! Reference evaluator for the policy language, written directly against the language's
//! documented meaning over the REAL parsed AST.  It shares no code with the compiler or the VM
//! and is the S-level oracle of C22 (and the "which foreign calls happen" oracle of C23).
//!
//! Outcomes: a value, a policy exit (`todo()`, failing `debug_assert`), a foreign-function error,
//! or `Stuck(why)` — evaluation has no meaning (ill-typed operand, unbound / re-bound name, no
//! matching arm, missing struct field).  A program the compiler accepts must never be stuck (C24).

use std::collections::BTreeMap;

use aranya_policy_ast::{self as ast, ExprKind, Expression, InternalFunction, MatchPattern, Statement, StmtKind, StructItem};

use super::RV;

#[derive(Clone, Debug, PartialEq, Eq)]
pub enum Out {
    Val(RV),
    Ret(RV),
    Exit(&'static str),
    FfiError,
    Stuck(String),
    OutOfFuel,
}

pub struct Interp<'a> {
    pub p: &'a ast::Policy,
    pub log: Vec<String>,
    pub fuel: u64,
    globals: BTreeMap<String, RV>,
}

type Env = Vec<BTreeMap<String, RV>>;

macro_rules! val {
    ($e:expr) => {
        match $e {
            Out::Val(v) => v,
            other => return other,
        }
    };
}

fn stuck<T: Into<String>>(s: T) -> Out {
    Out::Stuck(s.into())
}

impl<'a> Interp<'a> {
    pub fn new(p: &'a ast::Policy) -> Result<Self, String> {
        let mut it = Interp { p, log: vec![], fuel: 2_000_000, globals: BTreeMap::new() };
        for g in &p.global_lets {
            let mut env: Env = vec![BTreeMap::new()];
            match it.expr(&mut env, &g.expression) {
                Out::Val(v) => {
                    it.globals.insert(g.identifier.inner.to_string(), v);
                }
                o => return Err(format!("global let: {o:?}")),
            }
        }
        Ok(it)
    }

    fn struct_def(&self, name: &str) -> Option<Vec<String>> {
        let s = self.p.structs.iter().find(|s| s.identifier.inner.as_str() == name)?;
        let mut out = vec![];
        for it in &s.items {
            match it {
                StructItem::Field(f) => out.push(f.identifier.inner.to_string()),
                StructItem::StructRef(r) => out.extend(self.struct_def(r.inner.as_str())?),
            }
        }
        Some(out)
    }

    fn lookup(&self, env: &Env, x: &str) -> Option<RV> {
        for b in env.iter().rev() {
            if let Some(v) = b.get(x) {
                return Some(v.clone());
            }
        }
        self.globals.get(x).cloned()
    }

    fn bind(&self, env: &mut Env, x: &str, v: RV) -> Result<(), Out> {
        if self.lookup(env, x).is_some() {
            return Err(stuck(format!("name {x} bound twice")));
        }
        env.last_mut().unwrap().insert(x.to_string(), v);
        Ok(())
    }

    pub fn call(&mut self, fname: &str, args: &[RV]) -> Out {
        let Some(f) = self.p.functions.iter().find(|f| f.identifier.inner.as_str() == fname) else {
            return stuck(format!("function {fname} not defined"));
        };
        if f.arguments.len() != args.len() {
            return stuck("arity");
        }
        let mut env: Env = vec![BTreeMap::new()];
        // parameters are bound last-to-first (the order is only observable through re-binding)
        for (p, a) in f.arguments.iter().zip(args).rev() {
            if let Err(o) = self.bind(&mut env, p.name.inner.as_str(), a.clone()) {
                return o;
            }
        }
        match self.stmts(&mut env, &f.statements) {
            Out::Val(_) => Out::Exit("panic"), // fell off the end of a function: panic
            Out::Ret(v) => Out::Val(v),
            o => o,
        }
    }

    fn stmts(&mut self, env: &mut Env, ss: &[Statement]) -> Out {
        for s in ss {
            val!(self.stmt(env, s));
        }
        Out::Val(RV::Unit)
    }

    fn scoped_stmts(&mut self, env: &mut Env, ss: &[Statement]) -> Out {
        env.push(BTreeMap::new());
        let r = self.stmts(env, ss);
        env.pop();
        r
    }

    fn stmt(&mut self, env: &mut Env, s: &Statement) -> Out {
        match &s.inner {
            StmtKind::Let(l) => {
                let v = val!(self.expr(env, &l.expression));
                if let Err(o) = self.bind(env, l.identifier.inner.as_str(), v) {
                    return o;
                }
                Out::Val(RV::Unit)
            }
            StmtKind::Check(c) => match val!(self.expr(env, &c.expression)) {
                RV::Bool(true) => Out::Val(RV::Unit),
                RV::Bool(false) => match self.expr(env, &c.else_expression) {
                    Out::Val(_) => stuck("check-else completed normally"),
                    o => o,
                },
                _ => stuck("check: not a bool"),
            },
            StmtKind::Match(m) => {
                let v = val!(self.expr(env, &m.expression));
                let pats: Vec<&MatchPattern> = m.arms.iter().map(|a| &a.pattern).collect();
                let k = match self.select(env, &v, &pats) {
                    Ok(k) => k,
                    Err(o) => return o,
                };
                env.push(BTreeMap::new());
                let r = match self.bind_arm(env, &v, &m.arms[k].pattern) {
                    Err(o) => o,
                    Ok(()) => self.stmts(env, &m.arms[k].statements),
                };
                env.pop();
                r
            }
            StmtKind::If(i) => {
                for (c, b) in &i.branches {
                    match val!(self.expr(env, c)) {
                        RV::Bool(true) => return self.scoped_stmts(env, b),
                        RV::Bool(false) => {}
                        _ => return stuck("if: not a bool"),
                    }
                }
                match &i.fallback {
                    Some(f) => self.scoped_stmts(env, f),
                    None => Out::Val(RV::Unit),
                }
            }
            StmtKind::Return(r) => match self.expr(env, &r.expression) {
                Out::Val(v) => Out::Ret(v),
                o => o,
            },
            StmtKind::DebugAssert(e) => match val!(self.expr(env, e)) {
                RV::Bool(true) => Out::Val(RV::Unit),
                RV::Bool(false) => Out::Exit("panic"),
                _ => stuck("debug_assert: not a bool"),
            },
            _ => stuck("statement outside the fragment"),
        }
    }

    fn binding_of(e: &Expression) -> Option<(&'static str, &str)> {
        match &e.inner {
            ExprKind::Ok(i) => match &i.inner {
                ExprKind::Identifier(x) => Some(("ok", x.inner.as_str())),
                _ => None,
            },
            ExprKind::Err(i) => match &i.inner {
                ExprKind::Identifier(x) => Some(("err", x.inner.as_str())),
                _ => None,
            },
            ExprKind::Optional(Some(i)) => match &i.inner {
                ExprKind::Identifier(x) => Some(("some", x.inner.as_str())),
                _ => None,
            },
            _ => None,
        }
    }

    /// index of the first arm with a pattern matching `v`
    fn select(&mut self, env: &mut Env, v: &RV, pats: &[&MatchPattern]) -> Result<usize, Out> {
        for (k, p) in pats.iter().enumerate() {
            match p {
                MatchPattern::Default(_) => return Ok(k),
                MatchPattern::Values(vs) => {
                    for pv in vs {
                        if let Some((w, _)) = Self::binding_of(pv) {
                            let hit = matches!((w, v), ("ok", RV::Ok(_)) | ("err", RV::Err(_)) | ("some", RV::Some(_)));
                            if hit {
                                return Ok(k);
                            }
                        } else {
                            match self.expr(env, pv) {
                                Out::Val(l) => {
                                    if &l == v {
                                        return Ok(k);
                                    }
                                }
                                o => return Err(o),
                            }
                        }
                    }
                }
            }
        }
        Err(stuck("no match arm applies"))
    }

    /// the arm's binding pattern (if any) binds the payload of the scrutinee
    fn bind_arm(&self, env: &mut Env, v: &RV, p: &MatchPattern) -> Result<(), Out> {
        let MatchPattern::Values(vs) = p else { return Ok(()) };
        let Some((w, x)) = vs.iter().find_map(Self::binding_of) else { return Ok(()) };
        let inner = match (w, v) {
            ("ok", RV::Ok(i)) | ("err", RV::Err(i)) | ("some", RV::Some(i)) => (**i).clone(),
            _ => return Err(stuck(format!("arm binds {x} through {w}(..) but the scrutinee is {}", v.show()))),
        };
        self.bind(env, x, inner)
    }

    fn ints(&mut self, env: &mut Env, a: &Expression, b: &Expression) -> Result<(i64, i64), Out> {
        let x = match self.expr(env, a) {
            Out::Val(v) => v,
            o => return Err(o),
        };
        let y = match self.expr(env, b) {
            Out::Val(v) => v,
            o => return Err(o),
        };
        match (x, y) {
            (RV::Int(x), RV::Int(y)) => Ok((x, y)),
            _ => Err(stuck("integer operands expected")),
        }
    }

    pub fn expr(&mut self, env: &mut Env, e: &Expression) -> Out {
        if self.fuel == 0 {
            return Out::OutOfFuel;
        }
        self.fuel -= 1;
        match &e.inner {
            ExprKind::Unit => Out::Val(RV::Unit),
            ExprKind::Int(n) => Out::Val(RV::Int(n.inner)),
            ExprKind::String(s) => Out::Val(RV::Str(s.as_str().to_string())),
            ExprKind::Bool(b) => Out::Val(RV::Bool(*b)),
            ExprKind::Optional(None) => Out::Val(RV::None),
            ExprKind::Optional(Some(x)) => Out::Val(RV::Some(Box::new(val!(self.expr(env, x))))),
            ExprKind::Ok(x) => Out::Val(RV::Ok(Box::new(val!(self.expr(env, x))))),
            ExprKind::Err(x) => Out::Val(RV::Err(Box::new(val!(self.expr(env, x))))),
            ExprKind::NamedStruct(s) => {
                let name = s.identifier.inner.as_str();
                let Some(def) = self.struct_def(name) else { return stuck("struct not defined") };
                let mut fs = BTreeMap::new();
                for (k, x) in &s.fields {
                    let v = val!(self.expr(env, x));
                    if !def.iter().any(|d| d == k.inner.as_str()) {
                        return stuck("struct literal: unknown field");
                    }
                    fs.insert(k.inner.to_string(), v);
                }
                // `...src`: every field of the source's struct type not given explicitly
                let explicit: Vec<String> = s.fields.iter().map(|(k, _)| k.inner.to_string()).collect();
                for src in &s.sources {
                    let Some(sv) = self.lookup(env, src.inner.as_str()) else { return stuck("source not bound") };
                    let RV::Struct(sname, sfields) = sv else { return stuck("source is not a struct") };
                    let Some(sdef) = self.struct_def(&sname) else { return stuck("source struct not defined") };
                    for f in sdef {
                        if explicit.contains(&f) {
                            continue;
                        }
                        let Some(v) = sfields.get(&f) else { return stuck("source lacks a field of its type") };
                        if !def.contains(&f) {
                            return stuck("source field not in target struct");
                        }
                        fs.insert(f, v.clone());
                    }
                }
                Out::Val(RV::Struct(name.to_string(), fs))
            }
            ExprKind::InternalFunction(f) => match f {
                InternalFunction::If(c, t, f) => match val!(self.expr(env, c)) {
                    RV::Bool(true) => self.expr(env, t),
                    RV::Bool(false) => self.expr(env, f),
                    _ => stuck("if: not a bool"),
                },
                InternalFunction::Todo(_) | InternalFunction::TestFail(..) => Out::Exit("panic"),
                _ => stuck("fact expression outside the fragment"),
            },
            ExprKind::FunctionCall(f) => {
                let name = f.identifier.inner.as_str();
                let mut args = vec![];
                for a in &f.arguments {
                    args.push(val!(self.expr(env, a)));
                }
                match name {
                    "add" | "sub" | "saturating_add" | "saturating_sub" => {
                        let [RV::Int(a), RV::Int(b)] = args[..] else { return stuck("builtin: integer operands expected") };
                        // mathematical meaning: the exact result if it is representable
                        let exact = if name.ends_with("add") { a as i128 + b as i128 } else { a as i128 - b as i128 };
                        let fits = exact >= i64::MIN as i128 && exact <= i64::MAX as i128;
                        if name.starts_with("saturating") {
                            let r = if fits {
                                exact as i64
                            } else if exact > 0 {
                                i64::MAX
                            } else {
                                i64::MIN
                            };
                            Out::Val(RV::Int(r))
                        } else if fits {
                            Out::Val(RV::Some(Box::new(RV::Int(exact as i64))))
                        } else {
                            Out::Val(RV::None)
                        }
                    }
                    _ => self.call(name, &args),
                }
            }
            ExprKind::ForeignFunctionCall(f) => {
                if f.module.inner.as_str() != "t" {
                    return stuck("unknown ffi module");
                }
                let mut args = vec![];
                for a in &f.arguments {
                    args.push(val!(self.expr(env, a)));
                }
                match (f.identifier.inner.as_str(), &args[..]) {
                    ("mark", [RV::Int(n)]) => {
                        self.log.push(format!("mark:{n}"));
                        Out::Val(RV::Int(*n))
                    }
                    ("flag", [RV::Int(n), RV::Bool(b)]) => {
                        self.log.push(format!("flag:{n}:{b}"));
                        Out::Val(RV::Bool(*b))
                    }
                    ("boom", [RV::Int(n)]) => {
                        self.log.push(format!("boom:{n}"));
                        Out::FfiError
                    }
                    ("pick", [RV::Int(n)]) => {
                        self.log.push(format!("pick:{n}"));
                        Out::Val(if n % 2 == 0 { RV::Some(Box::new(RV::Int(*n))) } else { RV::None })
                    }
                    _ => stuck("ffi: bad call"),
                }
            }
            ExprKind::Return(x) => match self.expr(env, x) {
                Out::Val(v) => Out::Ret(v),
                o => o,
            },
            ExprKind::Recall(_) => stuck("recall outside the fragment"),
            ExprKind::Identifier(x) => match self.lookup(env, x.inner.as_str()) {
                Some(v) => Out::Val(v),
                None => stuck(format!("unbound name {}", x.inner)),
            },
            ExprKind::EnumReference(r) => {
                let Some(d) = self.p.enums.iter().find(|d| d.identifier.inner == r.identifier.inner) else {
                    return stuck("enum not defined");
                };
                match d.variants.iter().position(|v| v.inner == r.value.inner) {
                    Some(i) => Out::Val(RV::Enum(d.identifier.inner.to_string(), i as i64)),
                    None => stuck("enum variant not defined"),
                }
            }
            ExprKind::And(a, b) => match val!(self.expr(env, a)) {
                RV::Bool(false) => Out::Val(RV::Bool(false)),
                RV::Bool(true) => match val!(self.expr(env, b)) {
                    RV::Bool(x) => Out::Val(RV::Bool(x)),
                    _ => stuck("&&: not a bool"),
                },
                _ => stuck("&&: not a bool"),
            },
            ExprKind::Or(a, b) => match val!(self.expr(env, a)) {
                RV::Bool(true) => Out::Val(RV::Bool(true)),
                RV::Bool(false) => match val!(self.expr(env, b)) {
                    RV::Bool(x) => Out::Val(RV::Bool(x)),
                    _ => stuck("||: not a bool"),
                },
                _ => stuck("||: not a bool"),
            },
            ExprKind::Coalesce(a, b) => match val!(self.expr(env, a)) {
                RV::Some(v) => Out::Val(*v),
                RV::None => self.expr(env, b),
                _ => stuck("or: not an optional"),
            },
            ExprKind::Dot(x, f) => match val!(self.expr(env, x)) {
                RV::Struct(_, fs) => match fs.get(f.inner.as_str()) {
                    Some(v) => Out::Val(v.clone()),
                    None => stuck(format!("struct has no field {}", f.inner)),
                },
                _ => stuck(".: not a struct"),
            },
            ExprKind::Equal(a, b) => {
                let x = val!(self.expr(env, a));
                let y = val!(self.expr(env, b));
                Out::Val(RV::Bool(x == y))
            }
            ExprKind::NotEqual(a, b) => {
                let x = val!(self.expr(env, a));
                let y = val!(self.expr(env, b));
                Out::Val(RV::Bool(x != y))
            }
            ExprKind::GreaterThan(a, b) => match self.ints(env, a, b) {
                Ok((x, y)) => Out::Val(RV::Bool(x > y)),
                Err(o) => o,
            },
            ExprKind::LessThan(a, b) => match self.ints(env, a, b) {
                Ok((x, y)) => Out::Val(RV::Bool(x < y)),
                Err(o) => o,
            },
            ExprKind::GreaterThanOrEqual(a, b) => match self.ints(env, a, b) {
                Ok((x, y)) => Out::Val(RV::Bool(x >= y)),
                Err(o) => o,
            },
            ExprKind::LessThanOrEqual(a, b) => match self.ints(env, a, b) {
                Ok((x, y)) => Out::Val(RV::Bool(x <= y)),
                Err(o) => o,
            },
            ExprKind::Not(x) => match val!(self.expr(env, x)) {
                RV::Bool(b) => Out::Val(RV::Bool(!b)),
                _ => stuck("!: not a bool"),
            },
            ExprKind::Is(x, some) => match val!(self.expr(env, x)) {
                RV::Some(_) => Out::Val(RV::Bool(*some)),
                RV::None => Out::Val(RV::Bool(!*some)),
                _ => stuck("is: not an optional"),
            },
            ExprKind::Block(ss, x) => {
                env.push(BTreeMap::new());
                let r = match self.stmts(env, ss) {
                    Out::Val(_) => self.expr(env, x),
                    o => o,
                };
                env.pop();
                r
            }
            ExprKind::Substruct(x, sub) => {
                let Some(def) = self.struct_def(sub.inner.as_str()) else { return stuck("substruct: struct not defined") };
                match val!(self.expr(env, x)) {
                    RV::Struct(_, fs) => {
                        let mut out = BTreeMap::new();
                        for f in def {
                            match fs.get(&f) {
                                Some(v) => {
                                    out.insert(f, v.clone());
                                }
                                None => return stuck("substruct: source lacks field"),
                            }
                        }
                        Out::Val(RV::Struct(sub.inner.to_string(), out))
                    }
                    _ => stuck("substruct: not a struct"),
                }
            }
            ExprKind::Cast(x, to) => {
                let Some(def) = self.struct_def(to.inner.as_str()) else { return stuck("cast: struct not defined") };
                match val!(self.expr(env, x)) {
                    RV::Struct(_, fs) => {
                        if def.len() != fs.len() || !def.iter().all(|f| fs.contains_key(f)) {
                            return stuck("cast: field sets differ");
                        }
                        Out::Val(RV::Struct(to.inner.to_string(), fs))
                    }
                    _ => stuck("cast: not a struct"),
                }
            }
            ExprKind::Match(m) => {
                let v = val!(self.expr(env, &m.scrutinee));
                let pats: Vec<&MatchPattern> = m.arms.iter().map(|a| &a.pattern).collect();
                let k = match self.select(env, &v, &pats) {
                    Ok(k) => k,
                    Err(o) => return o,
                };
                env.push(BTreeMap::new());
                let r = match self.bind_arm(env, &v, &m.arms[k].pattern) {
                    Err(o) => o,
                    Ok(()) => self.expr(env, &m.arms[k].expression),
                };
                env.pop();
                r
            }
        }
    }
}
