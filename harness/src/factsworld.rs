//! Real-side interpreter of the fact-storage line protocol (`lean/Driver/FactsStep.lean`), shared
//! by the C12 and C13 harnesses: drives the REAL `aranya_runtime::storage::linear` storage through
//! the public storage traits and keeps the S-level oracle (flat `BTreeMap` replays) next to it.

use std::collections::BTreeMap;

use aranya_runtime::{
    storage::linear::{testing::Manager, verif_api_c12, LinearStorageProvider},
    Address, Checkpoint, CmdId, Command, GraphId, Keys, Location, MaxCut, Perspective, PolicyId,
    Prior, Priority, Query, QueryMut, Revertable, Segment, SegmentIndex, Storage, StorageError,
    StorageProvider,
};
use crate::{hex, unhex, Recorder};

pub type SP = LinearStorageProvider<Manager>;
pub type St = <SP as StorageProvider>::Storage;
pub type Persp = <SP as StorageProvider>::Perspective;
pub type FPersp = <St as Storage>::FactPerspective;
pub type FIndex = <St as Storage>::FactIndex;

/// flat key: (name bytes, components)
pub type FKey = (Vec<u8>, Vec<Vec<u8>>);
pub type Flat = BTreeMap<FKey, Vec<u8>>;

pub struct HCmd {
    pub id: CmdId,
    pub parent: Prior<Address>,
    pub prio: Priority,
}
impl Command for HCmd {
    fn priority(&self) -> Priority {
        self.prio.clone()
    }
    fn id(&self) -> CmdId {
        self.id
    }
    fn parent(&self) -> Prior<Address> {
        self.parent
    }
    fn policy(&self) -> Option<&[u8]> {
        None
    }
    fn bytes(&self) -> &[u8] {
        b"c12"
    }
}

pub fn cmd_id(n: u64) -> CmdId {
    let mut b = [0u8; 32];
    b[..8].copy_from_slice(&n.to_be_bytes());
    b[31] = 0xC1;
    CmdId::from_bytes(b)
}

// ------------------------------------------------------------------ token formats

pub fn parse_key(s: &str) -> Option<FKey> {
    let (n, cs) = s.split_once(':')?;
    if cs.contains(':') {
        return None;
    }
    let name = unhex(n)?;
    let comps = if cs.is_empty() {
        vec![]
    } else {
        cs.split(',').map(unhex).collect::<Option<Vec<_>>>()?
    };
    Some((name, comps))
}
pub fn show_key(k: &FKey) -> String {
    format!("{}:{}", hex(&k.0), k.1.iter().map(|c| hex(c)).collect::<Vec<_>>().join(","))
}
pub fn show_opt(v: &Option<Vec<u8>>) -> String {
    match v {
        None => "none".into(),
        Some(v) => format!("some:{}", hex(v)),
    }
}
pub fn show_facts(l: &[(FKey, Vec<u8>)]) -> String {
    format!("[{}]", l.iter().map(|(k, v)| format!("{}={}", show_key(k), hex(v))).collect::<Vec<_>>().join(";"))
}
pub fn to_keys(k: &FKey) -> Keys {
    k.1.iter().map(|c| c.clone().into_boxed_slice()).collect()
}
pub fn name_of(k: &FKey) -> String {
    String::from_utf8(k.0.clone()).expect("names are ASCII")
}
pub fn err_name(e: &StorageError) -> &'static str {
    match e {
        StorageError::EmptyPerspective => "err empty",
        StorageError::CommandOutOfBounds(_) => "err oob",
        StorageError::Bug(_) => "err toodeep",
        _ => "err other",
    }
}

// ------------------------------------------------------------------ real-side queries

pub fn real_query<Q: Query>(q: &Q, k: &FKey) -> Result<Option<Vec<u8>>, String> {
    let keys = to_keys(k);
    q.query(&name_of(k), &keys).map(|o| o.map(|b| b.to_vec())).map_err(|e| format!("{e}"))
}
pub fn real_prefix<Q: Query>(q: &Q, k: &FKey) -> Result<Vec<(FKey, Vec<u8>)>, String> {
    let keys = to_keys(k);
    let it = q.query_prefix(&name_of(k), &keys).map_err(|e| format!("{e}"))?;
    let mut out = vec![];
    for f in it {
        let f = f.map_err(|e| format!("{e}"))?;
        out.push(((k.0.clone(), f.key.iter().map(|c| c.to_vec()).collect()), f.value.to_vec()));
    }
    Ok(out)
}

// ------------------------------------------------------------------ S-level oracle

pub fn flat_query(m: &Flat, k: &FKey) -> Option<Vec<u8>> {
    m.get(k).cloned()
}
/// all live facts under the name whose components start with the prefix, ascending
pub fn flat_prefix(m: &Flat, p: &FKey) -> Vec<(FKey, Vec<u8>)> {
    m.iter()
        .filter(|(k, _)| k.0 == p.0 && k.1.len() >= p.1.len() && k.1[..p.1.len()] == p.1[..])
        .map(|(k, v)| (k.clone(), v.clone()))
        .collect()
}

pub struct SegInfo {
    pub index: SegmentIndex,
    pub first: MaxCut,
    /// flat map after each command (the last one includes writes left pending at write time)
    pub snaps: Vec<Flat>,
}

pub struct World {
    pub provider: SP,
    pub graph: Option<GraphId>,
    pub segs: Vec<SegInfo>,
    pub idxs: Vec<(Option<FIndex>, Flat)>,
    pub persp: Option<Persp>,
    /// oracle for the current perspective: current flat map + snapshot after each command
    pub pflat: Flat,
    pub psnaps: Vec<Flat>,
    pub fp: Option<FPersp>,
    pub fflat: Flat,
    pub next_id: u64,
    // ---- checkpoint / revert bookkeeping (C13) for the current perspective
    /// flat map the perspective started from
    pub pbase: Flat,
    /// a fact write has happened since the last command / revert
    pub ppending: bool,
    /// ids of the commands added to the current perspective, and its head address after each
    pub pids: Vec<u64>,
    pub pheads: Vec<Prior<Address>>,
    pub phead0: Option<Prior<Address>>,
    /// first id handed out for the current perspective
    pub pid_lo: u64,
    pub ckpts: Vec<CkSnap>,
    /// false once a segment has been written while a fact write was pending without a command:
    /// the runtime never does that (every rule is followed by `add_command` or `revert`), the
    /// property and the theorems assume command boundaries, so from then on the case is only
    /// compared with the model, not with the flat-map oracle
    pub oracle_on: bool,
}

/// what was visible when a checkpoint was taken
pub struct CkSnap {
    pub index: usize,
    pub flat: Flat,
    /// no fact write was pending (the checkpoint sits on a command boundary)
    pub clean: bool,
}

impl World {
    pub fn new() -> Self {
        let mut provider = LinearStorageProvider::new(Manager::new());
        let persp = provider.new_perspective(PolicyId::new(0));
        World {
            provider,
            graph: None,
            segs: vec![],
            idxs: vec![],
            persp: Some(persp),
            pflat: Flat::new(),
            psnaps: vec![],
            fp: None,
            fflat: Flat::new(),
            next_id: 0,
            pbase: Flat::new(),
            ppending: false,
            pids: vec![],
            pheads: vec![],
            phead0: None,
            pid_lo: 0,
            ckpts: vec![],
            oracle_on: true,
        }
    }
    /// a new current perspective starts from `flat`
    pub fn reset_persp(&mut self, flat: Flat) {
        self.pbase = flat.clone();
        self.pflat = flat;
        self.psnaps = vec![];
        self.ppending = false;
        self.pids = vec![];
        self.pheads = vec![];
        self.phead0 = self.persp.as_ref().map(|p| p.head_address().expect("head_address"));
        self.pid_lo = self.next_id;
        self.ckpts = vec![];
    }
    pub fn storage(&mut self) -> &mut St {
        let g = self.graph.expect("storage not created yet");
        self.provider.get_storage(g).expect("get_storage")
    }
    pub fn loc(&self, s: usize, i: u64) -> Location {
        let sg = &self.segs[s];
        Location::new(sg.index, sg.first.checked_add(i).unwrap())
    }
}

pub fn dump_index(ix: &FIndex, rec: &mut Recorder) -> String {
    match verif_api_c12::fact_index_layers(ix) {
        Err(e) => format!("err {e}"),
        Ok(layers) => {
            let n = layers.len();
            let mut parts = vec![];
            for (j, (depth, entries)) in layers.iter().enumerate() {
                // depth bookkeeping: `prior.depth + 1`, or 1 without a prior
                if *depth as usize != n - j {
                    rec.oracle_fail(format!("fact index layer {j} of {n} records depth {depth}"));
                }
                let mut es: Vec<(FKey, Option<Vec<u8>>)> = entries
                    .iter()
                    .map(|(nm, k, v)| {
                        ((nm.as_bytes().to_vec(), k.iter().map(|c| c.to_vec()).collect()), v.as_ref().map(|b| b.to_vec()))
                    })
                    .collect();
                es.sort();
                let body = es
                    .iter()
                    .map(|(k, v)| format!("{}={}", show_key(k), v.as_ref().map_or("~".to_string(), |v| hex(v))))
                    .collect::<Vec<_>>()
                    .join(";");
                parts.push(format!("d={depth}{{{body}}}"));
            }
            parts.join("|")
        }
    }
}

pub fn check_q(rec: &mut Recorder, what: &str, got: &Result<Option<Vec<u8>>, String>, want: Option<Vec<u8>>) -> String {
    if !rec_oracle_on() {
        return match got {
            Err(e) => format!("err {e}"),
            Ok(g) => show_opt(g),
        };
    }
    match got {
        Err(e) => {
            rec.oracle_fail(format!("{what}: query failed: {e}"));
            format!("err {e}")
        }
        Ok(g) => {
            if *g != want {
                rec.oracle_fail(format!("{what}: returned {} but the flat map holds {}", show_opt(g), show_opt(&want)));
            }
            show_opt(g)
        }
    }
}
pub fn check_qp(rec: &mut Recorder, what: &str, got: &Result<Vec<(FKey, Vec<u8>)>, String>, want: Vec<(FKey, Vec<u8>)>) -> String {
    if !rec_oracle_on() {
        return match got {
            Err(e) => format!("err {e}"),
            Ok(g) => show_facts(g),
        };
    }
    match got {
        Err(e) => {
            rec.oracle_fail(format!("{what}: prefix query failed: {e}"));
            format!("err {e}")
        }
        Ok(g) => {
            if *g != want {
                rec.oracle_fail(format!("{what}: returned {} but the flat map gives {}", show_facts(g), show_facts(&want)));
            }
            show_facts(g)
        }
    }
}

pub const BAD: &str = "bad-op";

thread_local! {
    static ORACLE_ON: std::cell::Cell<bool> = const { std::cell::Cell::new(true) };
}
fn rec_oracle_on() -> bool {
    ORACLE_ON.with(|c| c.get())
}

/// Executes one request line on the real storage; returns the canonical answer.
pub fn exec(w: &mut World, rec: &mut Recorder, op: &str) -> String {
    let t: Vec<&str> = op.split(' ').filter(|s| !s.is_empty()).collect();
    let num = |s: &str| s.parse::<usize>().ok();
    if t.first() == Some(&"new") {
        ORACLE_ON.with(|c| c.set(true));
    } else {
        ORACLE_ON.with(|c| c.set(w.oracle_on));
    }
    match t.as_slice() {
        ["new"] => {
            *w = World::new();
            w.reset_persp(Flat::new());
            "ok".into()
        }
        ["ckpt"] => {
            let Some(p) = w.persp.as_ref() else { return BAD.into() };
            let index = p.checkpoint().index;
            if index != w.psnaps.len() {
                rec.oracle_fail(format!("checkpoint index {index} with {} commands", w.psnaps.len()));
            }
            w.ckpts.push(CkSnap { index, flat: w.pflat.clone(), clean: !w.ppending });
            format!("ok {index}")
        }
        ["revert", n] => {
            let Some(n) = num(n) else { return BAD.into() };
            let Some(p) = w.persp.as_mut() else { return BAD.into() };
            let len = w.psnaps.len();
            // `bug!` panics in debug builds and returns `StorageError::Bug` in release builds
            let res = match crate::catch(std::panic::AssertUnwindSafe(|| p.revert(Checkpoint { index: n }))) {
                Ok(r) => r.map_err(|e| format!("{e}")),
                Err(msg) => Err(msg),
            };
            match res {
                Err(e) => {
                    if n <= len {
                        rec.oracle_fail(format!("revert to {n} (≤ {len} commands) failed: {e}"));
                    }
                    "err badckpt".into()
                }
                Ok(()) => {
                    if n > len {
                        rec.oracle_fail(format!("revert to {n} beyond the {len} commands succeeded"));
                        return "ok".into();
                    }
                    let before = w.pflat.clone();
                    // what must be visible now: the state on the command boundary `n`
                    let want: Flat = if n == len && !w.ppending {
                        w.pflat.clone()
                    } else if n == 0 {
                        w.pbase.clone()
                    } else {
                        w.psnaps[n - 1].clone()
                    };
                    // … which is the state at the checkpoint when that was taken on a boundary
                    if let Some(c) = w.ckpts.iter().rev().find(|c| c.index == n) {
                        if c.clean {
                            if c.flat != want {
                                rec.oracle_fail("oracle inconsistency: clean checkpoint differs from the command boundary");
                            }
                            rec.count("revert:to-clean-checkpoint");
                        } else {
                            // checkpoint taken while a write was pending: `Checkpoint` only records
                            // the command count, the pending write cannot be restored (documented
                            // hypothesis of revert_exact; counted, not failed)
                            rec.count("revert:to-unclean-checkpoint");
                        }
                    } else {
                        rec.count("revert:to-plain-index");
                    }
                    w.pflat = want.clone();
                    w.psnaps.truncate(n);
                    w.pids.truncate(n);
                    w.pheads.truncate(n);
                    w.ppending = false;
                    w.ckpts.retain(|c| c.index <= n);
                    if w.oracle_on {
                        // observational equality: every key that was or is bound, every name
                        let p = w.persp.as_ref().unwrap();
                        let mut keys: Vec<FKey> = before.keys().chain(want.keys()).cloned().collect();
                        keys.sort();
                        keys.dedup();
                        let mut names: Vec<Vec<u8>> = keys.iter().map(|k| k.0.clone()).collect();
                        names.dedup();
                        for k in &keys {
                            let got = real_query(p, k);
                            if got != Ok(want.get(k).cloned()) {
                                rec.oracle_fail(format!("after `{op}`: query {} = {:?}, at the checkpoint it was {}", show_key(k), got, show_opt(&want.get(k).cloned())));
                            }
                        }
                        for nm in names {
                            let pk = (nm, vec![]);
                            let got = real_prefix(p, &pk);
                            let exp = flat_prefix(&want, &pk);
                            if got != Ok(exp.clone()) {
                                rec.oracle_fail(format!("after `{op}`: prefix query {} = {:?}, at the checkpoint it was {}", show_key(&pk), got, show_facts(&exp)));
                            }
                        }
                        let head = p.head_address().expect("head_address");
                        let want_head = if n == 0 { w.phead0.unwrap() } else { w.pheads[n - 1] };
                        if head != want_head {
                            rec.oracle_fail(format!("after `{op}`: head address differs from the one at the checkpoint"));
                        }
                        for id in w.pid_lo..w.next_id {
                            let inc = p.includes(cmd_id(id));
                            if inc != w.pids.contains(&id) {
                                rec.oracle_fail(format!("after `{op}`: includes(command {id}) = {inc}"));
                            }
                        }
                    }
                    "ok".into()
                }
            }
        }
        ["cmds"] => {
            let Some(p) = w.persp.as_ref() else { return BAD.into() };
            let ids: Vec<String> = (0..w.next_id).filter(|id| p.includes(cmd_id(*id))).map(|id| id.to_string()).collect();
            format!("[{}]", ids.join(","))
        }
        ["ins", k, v] => {
            let (Some(p), Some(k), Some(v)) = (w.persp.as_mut(), parse_key(k), unhex(v)) else { return BAD.into() };
            p.insert(name_of(&k), to_keys(&k), v.clone().into_boxed_slice()).expect("insert");
            w.pflat.insert(k, v);
            w.ppending = true;
            "ok".into()
        }
        ["del", k] => {
            let (Some(p), Some(k)) = (w.persp.as_mut(), parse_key(k)) else { return BAD.into() };
            p.delete(name_of(&k), to_keys(&k)).expect("delete");
            w.pflat.remove(&k);
            w.ppending = true;
            "ok".into()
        }
        ["cmd"] => {
            let Some(p) = w.persp.as_mut() else { return BAD.into() };
            let parent = p.head_address().expect("head_address");
            let prio = match parent {
                Prior::None => Priority::Init,
                Prior::Single(_) => Priority::Basic(0),
                Prior::Merge(_, _) => Priority::Merge,
            };
            let c = HCmd { id: cmd_id(w.next_id), parent, prio };
            w.next_id += 1;
            match p.add_command(&c) {
                Ok(n) => {
                    w.psnaps.push(w.pflat.clone());
                    w.ppending = false;
                    w.pids.push(w.next_id - 1);
                    w.pheads.push(p.head_address().expect("head_address"));
                    format!("ok {n}")
                }
                Err(e) => format!("err {e}"),
            }
        }
        ["create"] => {
            let Some(p) = w.persp.take() else { return BAD.into() };
            match w.provider.new_storage(p) {
                Ok((g, st)) => {
                    let head = st.get_heads().expect("heads").iter().next().expect("one head");
                    let seg = st.get_segment(head.location()).expect("segment");
                    w.graph = Some(g);
                    let mut snaps = std::mem::take(&mut w.psnaps);
                    *snaps.last_mut().unwrap() = w.pflat.clone();
                    w.segs.push(SegInfo { index: seg.index(), first: seg.shortest_max_cut(), snaps });
                    format!("ok {}", w.segs.len() - 1)
                }
                Err(e) => err_name(&e).into(),
            }
        }
        ["write"] => {
            let Some(p) = w.persp.take() else { return BAD.into() };
            if w.graph.is_none() {
                return BAD.into();
            }
            if w.ppending && w.oracle_on {
                w.oracle_on = false;
                rec.count("case:oracle-off-after-write-with-pending-update");
            }
            match w.storage().write(p) {
                Ok(seg) => {
                    let mut snaps = std::mem::take(&mut w.psnaps);
                    *snaps.last_mut().unwrap() = w.pflat.clone();
                    w.segs.push(SegInfo { index: seg.index(), first: seg.shortest_max_cut(), snaps });
                    format!("ok {}", w.segs.len() - 1)
                }
                Err(e) => err_name(&e).into(),
            }
        }
        ["lp", s, i] => {
            let (Some(s), Some(i)) = (num(s), num(i)) else { return BAD.into() };
            if s >= w.segs.len() {
                return BAD.into();
            }
            let loc = w.loc(s, i as u64);
            match w.storage().get_linear_perspective(loc) {
                Ok(p) => {
                    w.persp = Some(p);
                    let flat = w.segs[s].snaps[i].clone();
                    w.reset_persp(flat);
                    "ok".into()
                }
                Err(e) => err_name(&e).into(),
            }
        }
        ["mp", x] => {
            let Some(x) = num(x) else { return BAD.into() };
            if x >= w.idxs.len() || w.segs.len() < 2 {
                return BAD.into();
            }
            let braid = w.idxs[x].0.take().expect("replay uses a consumed fact index");
            // any two segment heads serve as parents; the fact state is the braid index
            let (l, r) = (w.segs.len() - 1, w.segs.len() - 2);
            let left = w.loc(l, w.segs[l].snaps.len() as u64 - 1);
            let right = w.loc(r, w.segs[r].snaps.len() as u64 - 1);
            let lca = w.loc(0, 0);
            match w.storage().new_merge_perspective(left, right, lca, PolicyId::new(0), braid) {
                Ok(p) => {
                    w.persp = Some(p);
                    let flat = w.idxs[x].1.clone();
                    w.reset_persp(flat);
                    "ok".into()
                }
                Err(e) => err_name(&e).into(),
            }
        }
        ["fp", s, i] => {
            let (Some(s), Some(i)) = (num(s), num(i)) else { return BAD.into() };
            if s >= w.segs.len() {
                return BAD.into();
            }
            if i >= w.segs[s].snaps.len() {
                // out of range locations are outside get_fact_perspective's contract
                return "err oob".into();
            }
            let loc = w.loc(s, i as u64);
            match w.storage().get_fact_perspective(loc) {
                Ok(f) => {
                    w.fp = Some(f);
                    w.fflat = w.segs[s].snaps[i].clone();
                    "ok".into()
                }
                Err(e) => err_name(&e).into(),
            }
        }
        ["fins", k, v] => {
            let (Some(f), Some(k), Some(v)) = (w.fp.as_mut(), parse_key(k), unhex(v)) else { return BAD.into() };
            f.insert(name_of(&k), to_keys(&k), v.clone().into_boxed_slice()).expect("insert");
            w.fflat.insert(k, v);
            "ok".into()
        }
        ["fdel", k] => {
            let (Some(f), Some(k)) = (w.fp.as_mut(), parse_key(k)) else { return BAD.into() };
            f.delete(name_of(&k), to_keys(&k)).expect("delete");
            w.fflat.remove(&k);
            "ok".into()
        }
        ["fwrite"] => {
            let Some(f) = w.fp.take() else { return BAD.into() };
            match w.storage().write_facts(f) {
                Ok(ix) => {
                    let flat = w.fflat.clone();
                    w.idxs.push((Some(ix), flat));
                    format!("ok {}", w.idxs.len() - 1)
                }
                Err(e) => err_name(&e).into(),
            }
        }
        ["q", k] => {
            let (Some(p), Some(k)) = (w.persp.as_ref(), parse_key(k)) else { return BAD.into() };
            let got = real_query(p, &k);
            check_q(rec, op, &got, flat_query(&w.pflat, &k))
        }
        ["qp", k] => {
            let (Some(p), Some(k)) = (w.persp.as_ref(), parse_key(k)) else { return BAD.into() };
            let got = real_prefix(p, &k);
            check_qp(rec, op, &got, flat_prefix(&w.pflat, &k))
        }
        ["fq", k] => {
            let (Some(f), Some(k)) = (w.fp.as_ref(), parse_key(k)) else { return BAD.into() };
            let got = real_query(f, &k);
            check_q(rec, op, &got, flat_query(&w.fflat, &k))
        }
        ["fqp", k] => {
            let (Some(f), Some(k)) = (w.fp.as_ref(), parse_key(k)) else { return BAD.into() };
            let got = real_prefix(f, &k);
            check_qp(rec, op, &got, flat_prefix(&w.fflat, &k))
        }
        ["sq", s, k] => {
            let (Some(s), Some(k)) = (num(s), parse_key(k)) else { return BAD.into() };
            if s >= w.segs.len() {
                return BAD.into();
            }
            let loc = w.loc(s, 0);
            let ix = w.storage().get_segment(loc).expect("segment").facts().expect("facts");
            let got = real_query(&ix, &k);
            let want = flat_query(w.segs[s].snaps.last().unwrap(), &k);
            check_q(rec, op, &got, want)
        }
        ["sqp", s, k] => {
            let (Some(s), Some(k)) = (num(s), parse_key(k)) else { return BAD.into() };
            if s >= w.segs.len() {
                return BAD.into();
            }
            let loc = w.loc(s, 0);
            let ix = w.storage().get_segment(loc).expect("segment").facts().expect("facts");
            let got = real_prefix(&ix, &k);
            let want = flat_prefix(w.segs[s].snaps.last().unwrap(), &k);
            check_qp(rec, op, &got, want)
        }
        ["iq", x, k] => {
            let (Some(x), Some(k)) = (num(x), parse_key(k)) else { return BAD.into() };
            if x >= w.idxs.len() {
                return BAD.into();
            }
            let ix = w.idxs[x].0.as_ref().expect("replay uses a consumed fact index");
            let got = real_query(ix, &k);
            check_q(rec, op, &got, flat_query(&w.idxs[x].1, &k))
        }
        ["iqp", x, k] => {
            let (Some(x), Some(k)) = (num(x), parse_key(k)) else { return BAD.into() };
            if x >= w.idxs.len() {
                return BAD.into();
            }
            let ix = w.idxs[x].0.as_ref().expect("replay uses a consumed fact index");
            let got = real_prefix(ix, &k);
            check_qp(rec, op, &got, flat_prefix(&w.idxs[x].1, &k))
        }
        ["sdump", s] => {
            let Some(s) = num(s) else { return BAD.into() };
            if s >= w.segs.len() {
                return BAD.into();
            }
            let loc = w.loc(s, 0);
            let ix = w.storage().get_segment(loc).expect("segment").facts().expect("facts");
            dump_index(&ix, rec)
        }
        ["idump", x] => {
            let Some(x) = num(x) else { return BAD.into() };
            if x >= w.idxs.len() {
                return BAD.into();
            }
            let ix = w.idxs[x].0.take().expect("replay uses a consumed fact index");
            let s = dump_index(&ix, rec);
            w.idxs[x].0 = Some(ix);
            s
        }
        _ => BAD.into(),
    }
}

pub fn run_case(rec: &mut Recorder, ops: &[String]) {
    let mut w = World::new();
    for op in ops {
        let opc = op.clone();
        let nfail = rec.oracle_failures.len();
        let r = crate::catch(std::panic::AssertUnwindSafe(|| exec(&mut w, rec, &opc)));
        match r {
            Ok(ans) => {
                rec.line(op.clone(), ans);
                // the replayable input of a failure includes the failing request itself
                let lines = rec.current_case_lines();
                for f in rec.oracle_failures[nfail..].iter_mut() {
                    f.input = lines.clone();
                }
            }
            Err(msg) => {
                rec.line(op.clone(), format!("panic {msg}"));
                rec.panics.push(format!("`{op}` panicked: {msg}"));
                rec.oracle_fail(format!("`{op}` panicked in the real storage: {msg}"));
                return;
            }
        }
    }
}


// ------------------------------------------------------------------ key pools for generators

pub const POOL_NAMES: [&[u8]; 4] = [b"a", b"ab", b"b", b""];
pub const POOL_COMPS: [&[u8]; 7] = [b"", b"a", b"ab", b"b", b"\x00", b"\xff", b"a\x00"];

/// A per-case pool of compound keys with shared prefixes, empty components and keys that are
/// prefixes of one another.
pub struct KeyPool {
    pub keys: Vec<FKey>,
}

impl KeyPool {
    pub fn comp(rng: &mut crate::Rng) -> Vec<u8> {
        rng.pick(&POOL_COMPS).to_vec()
    }
    pub fn fresh_key(rng: &mut crate::Rng) -> FKey {
        let nn = if rng.chance(1, 10) { 4 } else { 2 };
        let name = rng.pick(&POOL_NAMES[..nn]).to_vec();
        let n = rng.below(4) as usize;
        let comps = (0..n).map(|_| Self::comp(rng)).collect();
        (name, comps)
    }
    pub fn new(rng: &mut crate::Rng) -> Self {
        let mut keys: Vec<FKey> = vec![];
        let n = rng.range(3, 9) as usize;
        while keys.len() < n {
            let k = if keys.is_empty() || rng.chance(1, 3) {
                Self::fresh_key(rng)
            } else {
                let mut k = rng.pick(&keys).clone();
                match rng.below(4) {
                    0 => {
                        k.1.pop();
                    }
                    1 | 2 => {
                        let c = Self::comp(rng);
                        k.1.push(c);
                    }
                    _ => {
                        if let Some(l) = k.1.last_mut() {
                            *l = rng.pick(&POOL_COMPS).to_vec();
                        }
                    }
                }
                k
            };
            if !keys.contains(&k) {
                keys.push(k);
            }
        }
        KeyPool { keys }
    }
    pub fn key(&self, rng: &mut crate::Rng) -> FKey {
        if rng.chance(1, 12) {
            Self::fresh_key(rng)
        } else {
            rng.pick(&self.keys).clone()
        }
    }
    pub fn prefix(&self, rng: &mut crate::Rng) -> FKey {
        let mut k = self.key(rng);
        let cut = rng.below(k.1.len() as u64 + 1) as usize;
        if !rng.chance(1, 4) {
            k.1.truncate(cut);
        }
        k
    }
    pub fn val(rng: &mut crate::Rng) -> Vec<u8> {
        let n = rng.below(3) as usize;
        rng.bytes(n)
    }
}
