//! trxkit — shared history interpreter for the transaction/action properties C06–C10.
//! (Included by the `c06..c10` binaries with `#[path]`; not part of the `vh` library API.)
//!
//! A *history* is a list of request lines.  Every line is executed against the REAL
//! `ClientState`/`Transaction` (audit policy of `vh::gk`), answered canonically, checked by
//! the S-level oracle below (written from the property texts, independent of the Lean model)
//! and later replayed line by line through the Lean driver (`Driver/Trx.lean`).
//!
//!   new <gid-hex64>                          fresh client without storage; transactions use graph id gid
//!   def <id-hex64> <prio> <parents|-> <body|-> <P|N>   declare a command (P = carries policy bytes)
//!   open <t> | drop <t>                      open / forget transaction slot t
//!   add <t> <tag,tag,..|->                   ClientState::add_commands on slot t   -> ok <n> | err <kind>   (+ sink delta)
//!   flush <t>                                Transaction::flush                    -> ok | err <kind>
//!   commit <t>                               ClientState::commit (consumes t)      -> ok 0|1 | err <kind> (+ sink delta)
//!   action <nonce> <merge-tags|-> <pub-tags|->   ClientState::action publishing the pub commands
//!   newgraph <nonce> <pub-tags|->            ClientState::new_graph publishing the pub commands (first = init) -> ok <graph-id tag> | err <kind>
//!   heads | committed | facts | stamp | exists | tips <t>      observations
//! `add`/`flush`/`tips` on a transaction that is already doomed (the head set was committed again
//! after it first read the heads) are executed but answered `stale` — see `World::is_stale`.
//!
//! Tags are the first 8 hex digits of an id.

#![allow(dead_code)]

use std::collections::{BTreeMap, BTreeSet, VecDeque};

use aranya_runtime::{
    storage::HeadSetOffset, Address, ClientError, CmdId, GraphId, MaxCut, Prior, Priority, Storage as _,
    StorageProvider as _,
};
use vh::{fnv, gk::*, Recorder, Rng};

// ------------------------------------------------------------------------------------ parsing

pub fn parse_id(s: &str) -> Option<CmdId> {
    let b = vh::unhex(s)?;
    let a: [u8; 32] = b.try_into().ok()?;
    Some(CmdId::from_bytes(a))
}

pub fn parse_prio(s: &str) -> Option<Priority> {
    Some(match s {
        "merge" => Priority::Merge,
        "finalize" => Priority::Finalize,
        "init" => Priority::Init,
        _ => Priority::Basic(s.strip_prefix("basic:")?.parse().ok()?),
    })
}

pub fn def_line(c: &KCmd) -> String {
    let l = cmd_line(c);
    format!("def {} {}", l.strip_prefix("cmd ").unwrap(), if c.policy.is_some() { "P" } else { "N" })
}

pub fn tag(id: CmdId) -> String {
    short(id)
}

pub fn tags(ids: &[CmdId]) -> String {
    if ids.is_empty() {
        "-".into()
    } else {
        ids.iter().map(|i| tag(*i)).collect::<Vec<_>>().join(",")
    }
}

fn err_kind(e: &ClientError) -> String {
    match e {
        ClientError::Bug(_) => "Bug".into(),
        _ => err_name(e),
    }
}

// ------------------------------------------------------------------------------------ oracle

/// rule of the audit policy on an oracle fact state: (accepted, effects emitted before the end
/// or the failing op)
pub fn rule_fx(c: &KCmd, s: &mut oracle::OFacts) -> (bool, Vec<u64>) {
    let body = decode_body(std::str::from_utf8(&c.data).unwrap()).unwrap();
    let mut t = short(c.id);
    let mut fx = vec![];
    for op in body {
        match op {
            Op::Set(k, v) => {
                s.f.insert(k, v);
            }
            Op::Del(k) => {
                s.f.remove(&k);
            }
            Op::Append => s.log.get_or_insert_with(Vec::new).push(t.clone()),
            Op::ReqAbsent(k) => {
                if s.f.contains_key(&k) {
                    return (false, fx);
                }
            }
            Op::ReqPresent(k) => {
                if !s.f.contains_key(&k) {
                    return (false, fx);
                }
            }
            Op::Fail => return (false, fx),
            Op::Emit(n) => fx.push(n),
            Op::Tag(x) => t = x,
        }
    }
    (true, fx)
}

#[derive(Clone, Debug, PartialEq, Eq)]
pub struct Window {
    pub fx: Vec<(CmdId, u64)>,
    /// Some(true) = commit, Some(false) = rollback, None = left open
    pub end: Option<bool>,
}

pub fn show_windows(ws: &[Window]) -> String {
    if ws.is_empty() {
        return "-".into();
    }
    ws.iter()
        .map(|w| {
            let mut s = String::from("b");
            for (c, n) in &w.fx {
                s.push_str(&format!(".{}:{}", tag(*c), n));
            }
            s.push_str(match w.end {
                Some(true) => ".k",
                Some(false) => ".r",
                None => ".open",
            });
            s
        })
        .collect::<Vec<_>>()
        .join(",")
}

fn windows_of(log: &[SinkEv]) -> Result<Vec<Window>, String> {
    let mut out = vec![];
    let mut cur: Option<Window> = None;
    for ev in log {
        match ev {
            SinkEv::Begin => {
                if let Some(w) = cur.take() {
                    out.push(w);
                }
                cur = Some(Window { fx: vec![], end: None });
            }
            SinkEv::Consume(e) => match cur.as_mut() {
                Some(w) => w.fx.push((e.cmd, e.n)),
                None => return Err("effect consumed outside begin".into()),
            },
            SinkEv::Commit | SinkEv::Rollback => match cur.take() {
                Some(mut w) => {
                    w.end = Some(matches!(ev, SinkEv::Commit));
                    out.push(w);
                }
                None => return Err("commit/rollback without begin".into()),
            },
        }
    }
    if let Some(w) = cur {
        out.push(w);
    }
    Ok(out)
}

#[derive(Default, Clone)]
struct OTrx {
    /// commit epoch at which the transaction first read the heads
    snap: Option<u64>,
    acc: Vec<KCmd>,
}

/// The S-level reference: what the properties say must be observable.
#[derive(Default)]
pub struct Oracle {
    pub exists: bool,
    pub committed: Vec<KCmd>,
    /// number of head-set commits so far
    pub epoch: u64,
    trx: BTreeMap<u64, OTrx>,
    /// commands the policy rejected at origin and never accepted
    pub rejected: BTreeSet<CmdId>,
    pub accepted_ever: BTreeSet<CmdId>,
}

fn dedup_view(a: &[KCmd], b: &[KCmd]) -> Vec<KCmd> {
    let mut seen = BTreeSet::new();
    let mut v = vec![];
    for c in a.iter().chain(b.iter()) {
        if seen.insert(c.id) {
            v.push(c.clone());
        }
    }
    v
}

fn braid_windows(og: &oracle::OGraph, heads: &[CmdId]) -> Result<Window, String> {
    let (start, order) = og.braid(heads)?;
    let mut s = og.states.get(&start).ok_or("missing start state")?.clone()?;
    let mut fx = vec![];
    for id in order {
        let c = &og.cmds[&id];
        let (_ok, e) = rule_fx(c, &mut s);
        fx.extend(e.into_iter().map(|n| (id, n)));
    }
    Ok(Window { fx, end: Some(true) })
}

pub struct Pred {
    pub res: Result<String, String>,
    pub windows: Vec<Window>,
}

impl Oracle {
    fn view(&self, t: u64) -> Vec<KCmd> {
        dedup_view(&self.committed, self.trx.get(&t).map(|x| &x.acc[..]).unwrap_or(&[]))
    }

    pub fn accepted_of(&self, t: u64) -> Vec<KCmd> {
        self.trx.get(&t).map(|x| x.acc.clone()).unwrap_or_default()
    }

    pub fn live(&self, t: u64) -> bool {
        self.trx.get(&t).map_or(false, |x| x.snap == Some(self.epoch))
    }

    /// `add_commands` as the properties describe it
    fn predict_add(&mut self, gid: CmdId, t: u64, batch: &[KCmd]) -> Pred {
        let mut windows = vec![];
        let mut count = 0usize;
        let mut it = batch.iter();
        if !self.exists {
            let Some(c) = it.next() else {
                return Pred { res: Err("InitError".into()), windows };
            };
            count += 1;
            if c.id != gid || !matches!(c.parent, Prior::None) || c.policy.is_none() {
                return Pred { res: Err("InitError".into()), windows };
            }
            let mut s = oracle::OFacts::default();
            let (ok, fx) = rule_fx(c, &mut s);
            windows.push(Window { fx: fx.into_iter().map(|n| (c.id, n)).collect(), end: Some(ok) });
            if !ok {
                self.rejected.insert(c.id);
                return Pred { res: Err("Rejected".into()), windows };
            }
            self.exists = true;
            self.committed = vec![c.clone()];
            self.accepted_ever.insert(c.id);
        }
        let epoch = self.epoch;
        let tr = self.trx.entry(t).or_default();
        if tr.snap.is_none() {
            tr.snap = Some(epoch);
        }
        for c in it {
            let view = self.view(t);
            if view.iter().any(|x| x.id == c.id) {
                continue;
            }
            match c.parent {
                Prior::None => {
                    if c.id == gid {
                        continue;
                    }
                    return Pred { res: Err("InitError".into()), windows };
                }
                Prior::Single(p) => {
                    if !view.iter().any(|x| x.id == p.id) {
                        return Pred { res: Err("NoSuchParent".into()), windows };
                    }
                    let og = oracle::OGraph::new(&view);
                    let mut s = match og.states.get(&p.id) {
                        Some(Ok(s)) => s.clone(),
                        _ => return Pred { res: Err("oracle: no state at parent".into()), windows },
                    };
                    let (ok, fx) = rule_fx(c, &mut s);
                    windows.push(Window { fx: fx.into_iter().map(|n| (c.id, n)).collect(), end: Some(ok) });
                    if !ok {
                        if !self.accepted_ever.contains(&c.id) {
                            self.rejected.insert(c.id);
                        }
                        return Pred { res: Err("Rejected".into()), windows };
                    }
                }
                Prior::Merge(l, r) => {
                    if !view.iter().any(|x| x.id == l.id) || !view.iter().any(|x| x.id == r.id) {
                        return Pred { res: Err("NoSuchParent".into()), windows };
                    }
                    let og = oracle::OGraph::new(&view);
                    match braid_windows(&og, &[l.id, r.id]) {
                        Ok(w) => windows.push(w),
                        Err(e) => return Pred { res: Err(e), windows },
                    }
                }
            }
            self.rejected.remove(&c.id);
            self.accepted_ever.insert(c.id);
            self.trx.get_mut(&t).unwrap().acc.push(c.clone());
            count += 1;
        }
        Pred { res: Ok(format!("{count}")), windows }
    }

    fn predict_commit(&mut self, t: u64) -> Pred {
        let mut windows = vec![];
        if !self.exists {
            self.trx.remove(&t);
            return Pred { res: Err("Storage:NoSuchStorage".into()), windows };
        }
        let tr = self.trx.remove(&t).unwrap_or_default();
        let Some(snap) = tr.snap else {
            return Pred { res: Ok("0".into()), windows };
        };
        if snap != self.epoch {
            return Pred { res: Err("ConcurrentTransaction".into()), windows };
        }
        let new = dedup_view(&self.committed, &tr.acc);
        let og = oracle::OGraph::new(&new);
        let heads = og.frontier();
        if heads.len() >= 2 {
            match braid_windows(&og, &heads) {
                Ok(w) => windows.push(w),
                Err(e) => return Pred { res: Err(e), windows },
            }
        }
        self.committed = new;
        self.epoch += 1;
        Pred { res: Ok("1".into()), windows }
    }

    /// the merges a collapse of the committed heads writes, in order
    pub fn collapse_plan(&self) -> Vec<KCmd> {
        let og = oracle::OGraph::new(&self.committed);
        let mut q: VecDeque<Address> = og.frontier().iter().map(|h| self.committed.iter().find(|c| c.id == *h).unwrap().address()).collect();
        let mut out = vec![];
        while q.len() >= 2 {
            let a = q.pop_front().unwrap();
            let b = q.pop_front().unwrap();
            let (l, r) = if a.id < b.id { (a, b) } else { (b, a) };
            let m = KCmd { id: merge_id(l.id, r.id), parent: Prior::Merge(l, r), prio: Priority::Merge, policy: None, data: vec![] };
            q.push_back(m.address());
            out.push(m);
        }
        out
    }

    /// `new_graph`: the action publishes the init command and possibly more; all or nothing
    fn predict_newgraph(&mut self, pubs: &[KCmd]) -> Pred {
        let mut w = Window { fx: vec![], end: None };
        let mut s = oracle::OFacts::default();
        for c in pubs {
            let (ok, fx) = rule_fx(c, &mut s);
            w.fx.extend(fx.into_iter().map(|n| (c.id, n)));
            if !ok {
                w.end = Some(false);
                if !self.accepted_ever.contains(&c.id) {
                    self.rejected.insert(c.id);
                }
                return Pred { res: Err("Rejected".into()), windows: vec![w] };
            }
        }
        w.end = Some(true);
        if pubs.is_empty() {
            return Pred { res: Err("Storage:EmptyPerspective".into()), windows: vec![w] };
        }
        if self.exists {
            return Pred { res: Err("Storage:StorageExists".into()), windows: vec![w] };
        }
        self.exists = true;
        self.committed = pubs.to_vec();
        for c in pubs {
            self.rejected.remove(&c.id);
            self.accepted_ever.insert(c.id);
        }
        Pred { res: Ok(tag(pubs[0].id)), windows: vec![w] }
    }

    fn predict_action(&mut self, merges: &[KCmd], pubs: &[KCmd]) -> Pred {
        let mut windows = vec![];
        if !self.exists {
            return Pred { res: Err("Storage:NoSuchStorage".into()), windows };
        }
        let plan = self.collapse_plan();
        if plan.iter().map(|c| c.id).collect::<Vec<_>>() != merges.iter().map(|c| c.id).collect::<Vec<_>>() {
            return Pred { res: Err("oracle: merge plan differs from the request".into()), windows };
        }
        let mut all = self.committed.clone();
        for m in &plan {
            all.push(m.clone());
            let og = oracle::OGraph::new(&all);
            if let Prior::Merge(l, r) = m.parent {
                if og.braid(&[l.id, r.id]).is_err() {
                    return Pred { res: Err("ParallelFinalize".into()), windows };
                }
            }
        }
        let og = oracle::OGraph::new(&all);
        let heads = og.frontier();
        let mut s = match og.states.get(&heads[0]) {
            Some(Ok(s)) => s.clone(),
            _ => return Pred { res: Err("oracle: no state at head".into()), windows },
        };
        let mut w = Window { fx: vec![], end: None };
        for c in pubs {
            let (ok, fx) = rule_fx(c, &mut s);
            w.fx.extend(fx.into_iter().map(|n| (c.id, n)));
            if !ok {
                w.end = Some(false);
                windows.push(w);
                return Pred { res: Err("Rejected".into()), windows };
            }
        }
        if pubs.is_empty() {
            windows.push(w);
            return Pred { res: Err("Storage:EmptyPerspective".into()), windows };
        }
        w.end = Some(true);
        windows.push(w);
        all.extend(pubs.iter().cloned());
        for c in pubs {
            self.accepted_ever.insert(c.id);
        }
        self.committed = all;
        self.epoch += 1;
        Pred { res: Ok(String::new()), windows }
    }
}

// ------------------------------------------------------------------------------------ world

pub struct World {
    pub r: Replica<MemProvider>,
    pub gid: CmdId,
    pub defs: BTreeMap<String, KCmd>,
    pub by_id: BTreeMap<CmdId, KCmd>,
    pub trxs: BTreeMap<u64, Trx<MemProvider>>,
    pub o: Oracle,
    stamps: Vec<HeadSetOffset>,
    sink_pos: usize,
    prev_committed: BTreeSet<CmdId>,
    /// stamp index the transaction in a slot saw when it first read the heads (from the real code)
    read_stamp: BTreeMap<u64, String>,
    pub label: String,
}

fn res_line(res: &Result<String, String>) -> String {
    match res {
        Ok(s) if s.is_empty() => "ok".into(),
        Ok(s) => format!("ok {s}"),
        Err(e) => format!("err {e}"),
    }
}

impl World {
    pub fn new(label: &str) -> Self {
        let gid = CmdId::from_bytes([0u8; 32]);
        World {
            r: mem_replica(GraphId::transmute(gid)),
            gid,
            defs: BTreeMap::new(),
            by_id: BTreeMap::new(),
            trxs: BTreeMap::new(),
            o: Oracle::default(),
            stamps: vec![],
            sink_pos: 0,
            prev_committed: BTreeSet::new(),
            read_stamp: BTreeMap::new(),
            label: label.to_string(),
        }
    }

    fn fail(&self, rec: &mut Recorder, what: String) {
        rec.oracle_fail(format!("{}: {}", self.label, what));
    }

    fn sink_delta(&mut self) -> Vec<SinkEv> {
        let d = self.r.sink.log[self.sink_pos..].to_vec();
        self.sink_pos = self.r.sink.log.len();
        d
    }

    fn lookup(&self, list: &str) -> Option<Vec<KCmd>> {
        if list == "-" {
            return Some(vec![]);
        }
        list.split(',').map(|t| self.defs.get(t).cloned()).collect()
    }

    fn real_committed(&mut self) -> Result<Vec<CmdId>, String> {
        if !self.r.exists() {
            return Ok(vec![]);
        }
        let mut v: Vec<CmdId> = self.r.committed()?.iter().map(|c| c.id).collect();
        v.sort();
        Ok(v)
    }

    /// checks made after every state-changing request (C08 monotone, C09 heads, C06 facts …)
    fn check_committed_state(&mut self, rec: &mut Recorder, why: &str) {
        // register the current stamp so that stamp indices count head-set commits
        let _ = self.stamp_index();
        if !self.r.exists() {
            if self.o.exists {
                self.fail(rec, format!("{why}: storage must exist"));
            }
            return;
        }
        if !self.o.exists {
            self.fail(rec, format!("{why}: storage exists but no valid init command was received"));
            return;
        }
        let real = match self.real_committed() {
            Ok(v) => v,
            Err(e) => {
                self.fail(rec, format!("{why}: committed graph cannot be walked: {e}"));
                return;
            }
        };
        let real_set: BTreeSet<CmdId> = real.iter().copied().collect();
        // C08: the committed set never shrinks
        if let Some(lost) = self.prev_committed.iter().find(|x| !real_set.contains(x)) {
            self.fail(rec, format!("{why}: committed command {} disappeared", tag(*lost)));
        }
        self.prev_committed = real_set.clone();
        // committed set = what the properties say was accepted and committed
        let want: BTreeSet<CmdId> = self.o.committed.iter().map(|c| c.id).collect();
        if want != real_set {
            let missing: Vec<String> = want.difference(&real_set).map(|i| tag(*i)).collect();
            let extra: Vec<String> = real_set.difference(&want).map(|i| tag(*i)).collect();
            self.fail(rec, format!("{why}: committed set differs: missing {missing:?} unexpected {extra:?}"));
            return;
        }
        // no rejected command is stored
        if let Some(x) = self.o.rejected.iter().find(|x| real_set.contains(x)) {
            self.fail(rec, format!("{why}: rejected command {} is in the committed graph", tag(*x)));
        }
        // C09: heads = frontier, sorted by id, duplicate-free; init below every head
        let heads = self.r.heads();
        let og = oracle::OGraph::new(&self.o.committed);
        let fr = og.frontier();
        if heads != fr {
            self.fail(rec, format!("{why}: head set {} but the frontier of the committed graph is {}", show_ids(&heads), show_ids(&fr)));
        }
        if heads.windows(2).any(|w| w[0] >= w[1]) {
            self.fail(rec, format!("{why}: head set not strictly sorted by id: {}", show_ids(&heads)));
        }
        let init = self.o.committed[0].id;
        for h in &heads {
            if *h != init && !og.is_anc(init, *h) {
                self.fail(rec, format!("{why}: init is not an ancestor of head {}", tag(*h)));
            }
        }
        // facts = reference braid facts of the heads
        let real_facts = self.r.facts().map(|f| show_facts(&f)).unwrap_or_else(|e| format!("err {e}"));
        match og.facts_of(&fr) {
            Ok(f) => {
                if oracle::show(&f) != real_facts {
                    self.fail(rec, format!("{why}: fact cache {real_facts} but the accepted commands give {}", oracle::show(&f)));
                }
            }
            Err(e) => self.fail(rec, format!("{why}: committed heads cannot be braided by the reference: {e}")),
        }
    }

    fn check_windows(&mut self, rec: &mut Recorder, why: &str, real: &Result<Vec<Window>, String>, want: &[Window]) {
        match real {
            Err(e) => self.fail(rec, format!("{why}: sink protocol violated: {e}")),
            Ok(ws) => {
                if ws != want {
                    self.fail(rec, format!("{why}: sink saw {} expected {}", show_windows(ws), show_windows(want)));
                }
            }
        }
    }

    fn stamp_index(&mut self) -> String {
        match self.r.client.provider().get_storage(self.r.graph) {
            Ok(s) => match s.heads_offset() {
                Ok(h) => {
                    let i = match self.stamps.iter().position(|x| *x == h) {
                        Some(i) => i,
                        None => {
                            self.stamps.push(h);
                            self.stamps.len() - 1
                        }
                    };
                    format!("{i}")
                }
                Err(e) => format!("err Storage:{e:?}"),
            },
            Err(_) => "none".into(),
        }
    }

    /// A transaction is *stale* once the head set was committed again after it first read the heads:
    /// it can never commit (`ConcurrentTransaction`, C08).  The property texts constrain what such a
    /// transaction does to the COMMITTED state (nothing) and what its commit returns; what it
    /// accepts, braids or emits meanwhile is not constrained (it may hold its own uncommitted copy of
    /// a command another transaction committed, so that a merge braids over both copies).  Its
    /// `add`/`flush`/`tips` are therefore executed (panics and changes of the committed state are
    /// still violations) but answered `stale` on both sides.
    fn is_stale(&mut self, n: u64) -> bool {
        match self.read_stamp.get(&n).cloned() {
            Some(s) => s != self.stamp_index(),
            None => false,
        }
    }

    /// Execute one request line on the real code; record request + answer; run the oracle.
    pub fn exec(&mut self, rec: &mut Recorder, line: &str) {
        let t: Vec<&str> = line.split(' ').filter(|x| !x.is_empty()).collect();
        rec.count(&format!("op:{}", t.first().copied().unwrap_or("?")));
        match t.as_slice() {
            ["new", gid] => {
                let Some(g) = parse_id(gid) else {
                    rec.line(line, "bad-op");
                    return;
                };
                let label = self.label.clone();
                *self = World { gid: g, r: mem_replica(GraphId::transmute(g)), ..World::new(&label) };
                rec.line(line, "ok");
            }
            ["def", id, prio, par, body, pol] => {
                let parsed = (|| {
                    let id = parse_id(id)?;
                    let prio = parse_prio(prio)?;
                    let ps: Vec<CmdId> = if *par == "-" { vec![] } else { par.split(',').map(parse_id).collect::<Option<_>>()? };
                    let addr = |p: CmdId| Address { id: p, max_cut: MaxCut::new(self.by_id.get(&p).map_or(7, |c| c.max_cut())) };
                    let parent = match ps.as_slice() {
                        [] => Prior::None,
                        [p] => Prior::Single(addr(*p)),
                        [l, r] => Prior::Merge(addr(*l), addr(*r)),
                        _ => return None,
                    };
                    let data = if *body == "-" { vec![] } else { body.as_bytes().to_vec() };
                    decode_body(std::str::from_utf8(&data).ok()?)?;
                    let policy = match *pol {
                        "P" => Some(vec![0u8; 8]),
                        "N" => None,
                        _ => return None,
                    };
                    Some(KCmd { id, parent, prio, policy, data })
                })();
                match parsed {
                    Some(c) => {
                        self.defs.insert(tag(c.id), c.clone());
                        self.by_id.insert(c.id, c);
                        rec.line(line, "ok");
                    }
                    None => rec.line(line, "bad-op"),
                }
            }
            ["open", n] => {
                let Ok(n) = n.parse::<u64>() else {
                    rec.line(line, "bad-op");
                    return;
                };
                let trx = self.r.transaction();
                self.trxs.insert(n, trx);
                self.read_stamp.remove(&n);
                self.o.trx.insert(n, OTrx::default());
                rec.line(line, "ok");
            }
            ["drop", n] => {
                let Ok(n) = n.parse::<u64>() else {
                    rec.line(line, "bad-op");
                    return;
                };
                self.trxs.remove(&n);
                self.read_stamp.remove(&n);
                self.o.trx.remove(&n);
                rec.line(line, "ok");
            }
            ["add", n, list] => {
                let (Ok(n), Some(batch)) = (n.parse::<u64>(), self.lookup(list)) else {
                    rec.line(line, "bad-op");
                    return;
                };
                let Some(mut trx) = self.trxs.remove(&n) else {
                    rec.line(line, "err NoTrx");
                    return;
                };
                let _ = audit_take();
                let stale = self.is_stale(n);
                let res = vh::catch(std::panic::AssertUnwindSafe(|| self.r.add(&mut trx, &batch)));
                let snapped = trx.verif_tips().3;
                self.trxs.insert(n, trx);
                if snapped && !self.read_stamp.contains_key(&n) {
                    let st = self.stamp_index();
                    self.read_stamp.insert(n, st);
                }
                if stale {
                    rec.count("stale:add");
                    let _ = self.sink_delta();
                    match &res {
                        Err(p) => rec.panics.push(format!("{}: add_commands on a stale transaction panicked: {p}", self.label)),
                        Ok(Err(aranya_runtime::ClientError::Bug(b))) => {
                            rec.line(line, "stale");
                            self.fail(rec, format!("`{line}` on a stale transaction hit an internal bug assertion: {b:?}"));
                            self.check_committed_state(rec, line);
                            return;
                        }
                        _ => {}
                    }
                    rec.line(line, "stale");
                    self.check_committed_state(rec, line);
                    return;
                }
                let res = match res {
                    Ok(r) => r.map(|k| k.to_string()).map_err(|e| err_kind(&e)),
                    Err(p) => {
                        rec.panics.push(format!("{}: add_commands panicked: {p}", self.label));
                        Err("Panic".into())
                    }
                };
                let ws = windows_of(&self.sink_delta());
                let shown = ws.as_ref().map(|w| show_windows(w)).unwrap_or_else(|e| format!("!{e}"));
                rec.line(line, format!("{} sink={}", res_line(&res), shown));
                let pred = self.o.predict_add(self.gid, n, &batch);
                if pred.res != res {
                    self.fail(rec, format!("`{line}` returned `{}` but the property text gives `{}`", res_line(&res), res_line(&pred.res)));
                }
                self.check_windows(rec, line, &ws, &pred.windows);
                if let Err(e) = &res {
                    rec.count(&format!("add_err:{e}"));
                }
                self.check_committed_state(rec, line);
            }
            ["flush", n] => {
                let Ok(n) = n.parse::<u64>() else {
                    rec.line(line, "bad-op");
                    return;
                };
                let Some(mut trx) = self.trxs.remove(&n) else {
                    rec.line(line, "err NoTrx");
                    return;
                };
                let res = match self.r.client.provider().get_storage(self.r.graph) {
                    Ok(s) => trx.flush(s).map(|_| String::new()).map_err(|e| err_kind(&e)),
                    Err(e) => Err(format!("Storage:{e:?}")),
                };
                self.trxs.insert(n, trx);
                if self.is_stale(n) {
                    rec.count("stale:flush");
                    rec.line(line, "stale");
                    self.check_committed_state(rec, line);
                    return;
                }
                rec.line(line, res_line(&res));
                let want: Result<String, String> = if self.o.exists { Ok(String::new()) } else { Err("Storage:NoSuchStorage".into()) };
                if res != want {
                    self.fail(rec, format!("`{line}` returned `{}`; a flush of accepted commands must succeed", res_line(&res)));
                }
                self.check_committed_state(rec, line);
            }
            ["commit", n] => {
                let Ok(n) = n.parse::<u64>() else {
                    rec.line(line, "bad-op");
                    return;
                };
                let Some(trx) = self.trxs.remove(&n) else {
                    rec.line(line, "err NoTrx");
                    return;
                };
                self.read_stamp.remove(&n);
                let _ = audit_take();
                let res = vh::catch(std::panic::AssertUnwindSafe(|| self.r.commit(trx)));
                let res = match res {
                    Ok(r) => r.map(|b| (b as u8).to_string()).map_err(|e| err_kind(&e)),
                    Err(p) => {
                        rec.panics.push(format!("{}: commit panicked: {p}", self.label));
                        Err("Panic".into())
                    }
                };
                let ws = windows_of(&self.sink_delta());
                let shown = ws.as_ref().map(|w| show_windows(w)).unwrap_or_else(|e| format!("!{e}"));
                rec.line(line, format!("{} sink={}", res_line(&res), shown));
                let was_live = self.o.live(n);
                let n_acc = self.o.accepted_of(n).len();
                let pred = self.o.predict_commit(n);
                if pred.res != res {
                    self.fail(rec, format!("`{line}` returned `{}` but the property text gives `{}` ({} accepted commands, transaction {})",
                        res_line(&res), res_line(&pred.res), n_acc, if was_live { "current" } else { "stale or never used" }));
                    // keep the reference aligned with what the implementation says it did, so that
                    // one defect is reported once
                    if res.is_err() && pred.res.is_ok() && pred.res != Ok("0".into()) {
                        self.resync(rec);
                    }
                } else {
                    self.check_windows(rec, line, &ws, &pred.windows);
                }
                match &res {
                    Ok(_) => rec.count("commit_ok"),
                    Err(e) => rec.count(&format!("commit_err:{e}")),
                }
                self.check_committed_state(rec, line);
            }
            ["newgraph", nonce, ps] => {
                let (Ok(nonce), Some(pubs)) = (nonce.parse::<u64>(), self.lookup(ps)) else {
                    rec.line(line, "bad-op");
                    return;
                };
                let act = KAction {
                    cmds: pubs
                        .iter()
                        .map(|c| (c.prio.clone(), decode_body(std::str::from_utf8(&c.data).unwrap()).unwrap()))
                        .collect(),
                    nonce,
                    init: true,
                };
                let res = vh::catch(std::panic::AssertUnwindSafe(|| self.r.client.new_graph(&[0u8; 8], act, &mut self.r.sink)));
                let (res, returned) = match res {
                    Ok(Ok(g)) => {
                        let id = CmdId::from_bytes(<[u8; 32]>::try_from(g.as_bytes()).unwrap());
                        (Ok(tag(id)), Some(g))
                    }
                    Ok(Err(e)) => (Err(err_kind(&e)), None),
                    Err(p) => {
                        rec.panics.push(format!("{}: new_graph panicked: {p}", self.label));
                        (Err("Panic".into()), None)
                    }
                };
                let ws = windows_of(&self.sink_delta());
                let shown = ws.as_ref().map(|w| show_windows(w)).unwrap_or_else(|e| format!("!{e}"));
                rec.line(line, format!("{} sink={}", res_line(&res), shown));
                let pred = self.o.predict_newgraph(&pubs);
                if pred.res != res {
                    self.fail(rec, format!("`{line}` returned `{}` but the property text gives `{}` (the graph id is the id of the init command)", res_line(&res), res_line(&pred.res)));
                } else {
                    self.check_windows(rec, line, &ws, &pred.windows);
                }
                match &res {
                    Ok(_) => rec.count(&format!("newgraph_ok:{}cmds", pubs.len())),
                    Err(e) => rec.count(&format!("newgraph_err:{e}")),
                }
                // C10: returned GraphId == id of the init command == storage lookup key
                if let (Some(g), Some(first)) = (returned, pubs.first()) {
                    if g.as_bytes() != first.id.as_bytes() {
                        self.fail(rec, format!("`{line}` returned graph id {} but the init command is {}", tag(CmdId::from_bytes(<[u8; 32]>::try_from(g.as_bytes()).unwrap())), tag(first.id)));
                    }
                    if self.r.client.provider().get_storage(g).is_err() {
                        self.fail(rec, format!("`{line}`: no storage under the returned graph id"));
                    }
                    if self.r.client.provider().get_storage(GraphId::transmute(first.id)).is_err() {
                        self.fail(rec, format!("`{line}`: no storage under the id of the init command {}", tag(first.id)));
                    }
                }
                self.check_committed_state(rec, line);
                self.check_second_replica(rec, line);
            }
            ["action", nonce, ms, ps] => {
                let (Ok(nonce), Some(merges), Some(pubs)) = (nonce.parse::<u64>(), self.lookup(ms), self.lookup(ps)) else {
                    rec.line(line, "bad-op");
                    return;
                };
                let act = KAction {
                    cmds: pubs
                        .iter()
                        .map(|c| (c.prio.clone(), decode_body(std::str::from_utf8(&c.data).unwrap()).unwrap()))
                        .collect(),
                    nonce,
                    init: false,
                };
                let before_heads = self.r.heads();
                let before_facts = if self.r.exists() { self.r.facts().map(|f| show_facts(&f)).ok() } else { None };
                let before_stamp = self.stamp_index();
                let res = vh::catch(std::panic::AssertUnwindSafe(|| self.r.action(act)));
                let res = match res {
                    Ok(r) => r.map(|_| String::new()).map_err(|e| err_kind(&e)),
                    Err(p) => {
                        rec.panics.push(format!("{}: action panicked: {p}", self.label));
                        Err("Panic".into())
                    }
                };
                let ws = windows_of(&self.sink_delta());
                let shown = ws.as_ref().map(|w| show_windows(w)).unwrap_or_else(|e| format!("!{e}"));
                rec.line(line, format!("{} sink={}", res_line(&res), shown));
                let pred = self.o.predict_action(&merges, &pubs);
                if pred.res != res {
                    self.fail(rec, format!("`{line}` returned `{}` but the property text gives `{}`", res_line(&res), res_line(&pred.res)));
                } else {
                    self.check_windows(rec, line, &ws, &pred.windows);
                }
                match &res {
                    Ok(_) => {
                        rec.count("action_ok");
                        // C07: one new head, descending from every previous head
                        let heads = self.r.heads();
                        if heads.len() != 1 {
                            self.fail(rec, format!("`{line}` succeeded but left {} heads", heads.len()));
                        } else if let Some(last) = pubs.last() {
                            if heads[0] != last.id {
                                self.fail(rec, format!("`{line}`: new head {} is not the last published command {}", tag(heads[0]), tag(last.id)));
                            }
                            let og = oracle::OGraph::new(&self.o.committed);
                            for h in &before_heads {
                                if !og.is_anc(*h, heads[0]) {
                                    self.fail(rec, format!("`{line}`: previous head {} is not an ancestor of the new head", tag(*h)));
                                }
                            }
                        }
                    }
                    Err(e) => {
                        rec.count(&format!("action_err:{e}"));
                        // C07: failure leaves heads, facts and the stamp unchanged
                        let after_facts = if self.r.exists() { self.r.facts().map(|f| show_facts(&f)).ok() } else { None };
                        if self.r.heads() != before_heads || after_facts != before_facts || self.stamp_index() != before_stamp {
                            self.fail(rec, format!("`{line}` failed with {e} but changed the committed heads / facts / stamp"));
                        }
                        if let Ok(ws) = &ws {
                            if ws.iter().any(|w| w.end == Some(true)) {
                                self.fail(rec, format!("`{line}` failed with {e} but committed effects"));
                            }
                        }
                    }
                }
                self.check_committed_state(rec, line);
            }
            ["heads"] => {
                let a = if self.r.exists() { show_ids(&self.r.heads()) } else { "none".into() };
                rec.line(line, a);
            }
            ["committed"] => {
                let a = if self.r.exists() {
                    match self.real_committed() {
                        Ok(v) => show_ids(&v),
                        Err(e) => format!("err {e}"),
                    }
                } else {
                    "none".into()
                };
                rec.line(line, a);
            }
            ["facts"] => {
                let a = if self.r.exists() {
                    self.r.facts().map(|f| show_facts(&f)).unwrap_or_else(|e| format!("err {e}"))
                } else {
                    "none".into()
                };
                rec.line(line, a);
            }
            ["stamp"] => {
                let a = self.stamp_index();
                // C08: the stamp identifies the commit epoch
                if self.o.exists && a != format!("{}", self.o.epoch) {
                    rec.line(line, a.clone());
                    self.fail(rec, format!("stamp index {a} after {} head-set commits: a stamp value was reused or skipped", self.o.epoch));
                } else {
                    rec.line(line, a);
                }
            }
            ["exists"] => {
                let ex = self.r.exists();
                let ids: Vec<GraphId> = self
                    .r
                    .client
                    .provider()
                    .list_graph_ids()
                    .map(|it| it.filter_map(|x| x.ok()).collect())
                    .unwrap_or_default();
                rec.line(line, format!("{}", ex as u8));
                // C10: the graph's id is the id of its init command
                if ex {
                    let init = self.r.committed().ok().and_then(|c| c.first().map(|c| c.id));
                    if ids.len() != 1 || ids[0].as_bytes() != self.gid.as_bytes() || init != Some(self.gid) {
                        self.fail(rec, format!("graph ids {:?}, init command {:?}, expected graph id {}", ids.len(), init.map(tag), tag(self.gid)));
                    }
                } else if !ids.is_empty() {
                    self.fail(rec, "provider lists a graph although no storage exists".into());
                }
                if ex != self.o.exists {
                    self.fail(rec, format!("storage exists = {ex}, expected {}", self.o.exists));
                }
                self.check_second_replica(rec, line);
            }
            ["tips", n] => {
                let Ok(n) = n.parse::<u64>() else {
                    rec.line(line, "bad-op");
                    return;
                };
                let stale = self.is_stale(n);
                let Some(trx) = self.trxs.get(&n) else {
                    rec.line(line, "err NoTrx");
                    return;
                };
                if stale {
                    rec.count("stale:tips");
                    rec.line(line, "stale");
                    return;
                }
                let (hs, ph, has_p, snapped) = trx.verif_tips();
                rec.line(
                    line,
                    format!("{} base={} ph={} p={} s={}", show_ids(&hs), show_ids(&trx.verif_base()), ph.map(tag).unwrap_or("-".into()), has_p as u8, snapped as u8),
                );
                // C09 TipsInv: tips = frontier of (committed ∪ accepted by the transaction)
                if self.o.live(n) {
                    // tips = written tips, minus those the in-flight perspective builds on, plus
                    // the head of the in-flight perspective
                    let base = trx.verif_base();
                    let mut tips: BTreeSet<CmdId> = hs.iter().copied().filter(|h| !(has_p && base.contains(h))).collect();
                    if has_p {
                        if let Some(p) = ph {
                            tips.insert(p);
                        }
                    }
                    let og = oracle::OGraph::new(&self.o.view(n));
                    let fr: BTreeSet<CmdId> = og.frontier().into_iter().collect();
                    if tips != fr {
                        self.fail(rec, format!("transaction {n}: tips {} but the frontier of committed ∪ accepted is {}",
                            show_ids(&tips.into_iter().collect::<Vec<_>>()), show_ids(&fr.into_iter().collect::<Vec<_>>())));
                    }
                    if has_p != ph.is_some() {
                        self.fail(rec, format!("transaction {n}: phead {:?} but perspective in flight = {has_p}", ph.map(tag)));
                    }
                }
            }
            _ => rec.line(line, "bad-op"),
        }
    }

    /// C10: a second replica that receives the committed graph (sync = `add_commands` of the
    /// commands, parents first, then commit) stores it under the same graph id, with the same
    /// commands and heads
    fn check_second_replica(&mut self, rec: &mut Recorder, why: &str) {
        if !self.o.exists {
            return;
        }
        let ids: Vec<GraphId> =
            self.r.client.provider().list_graph_ids().map(|it| it.filter_map(|x| x.ok()).collect()).unwrap_or_default();
        let Some(g) = ids.first().copied() else {
            self.fail(rec, format!("{why}: the provider lists no graph"));
            return;
        };
        // walk the graph under the id the provider reports (it must be the init command's id)
        let saved = self.r.graph;
        self.r.graph = g;
        let cmds = self.r.committed();
        let heads = self.r.heads();
        self.r.graph = saved;
        let Ok(cmds) = cmds else {
            self.fail(rec, format!("{why}: stored graph cannot be walked"));
            return;
        };
        let mut r2 = mem_replica(g);
        let mut trx = r2.transaction();
        let res = vh::catch(std::panic::AssertUnwindSafe(|| {
            let a = r2.add(&mut trx, &cmds).map_err(|e| err_kind(&e))?;
            let c = r2.commit(trx).map_err(|e| err_kind(&e))?;
            Ok::<_, String>((a, c))
        }));
        rec.count("second_replica_syncs");
        match res {
            Ok(Ok(_)) => {
                let ids2: Vec<GraphId> =
                    r2.client.provider().list_graph_ids().map(|it| it.filter_map(|x| x.ok()).collect()).unwrap_or_default();
                let c2: Vec<CmdId> = r2.committed().map(|v| v.iter().map(|c| c.id).collect()).unwrap_or_default();
                let c1: Vec<CmdId> = cmds.iter().map(|c| c.id).collect();
                if ids2.len() != 1 || ids2[0].as_bytes() != self.gid.as_bytes() {
                    self.fail(rec, format!("{why}: a second replica stores the graph under another id than the init command's {}", tag(self.gid)));
                }
                let (mut a, mut b) = (c1.clone(), c2.clone());
                a.sort();
                b.sort();
                if a != b || r2.heads() != heads {
                    self.fail(rec, format!("{why}: a second replica that received the graph holds {} heads {} instead of {} heads {}",
                        show_ids(&b), show_ids(&r2.heads()), show_ids(&a), show_ids(&heads)));
                }
            }
            Ok(Err(e)) => self.fail(rec, format!("{why}: a second replica cannot receive the graph under its id: {e}")),
            Err(p) => rec.panics.push(format!("{}: second replica panicked: {p}", self.label)),
        }
    }

    /// after a reported defect: make the reference follow the implementation's committed set so
    /// that later steps of the same case are still meaningful
    fn resync(&mut self, _rec: &mut Recorder) {
        if let Ok(c) = self.r.committed() {
            self.o.committed = c;
        }
        if let Ok(e) = self.stamp_index().parse::<u64>() {
            self.o.epoch = e;
        }
    }

    // -------------------------------------------------------------------------------- helpers for generators

    pub fn define(&mut self, rec: &mut Recorder, c: &KCmd) {
        self.exec(rec, &def_line(c));
    }

    pub fn observe(&mut self, rec: &mut Recorder) {
        for q in ["heads", "committed", "facts", "stamp", "exists"] {
            self.exec(rec, q);
        }
    }

    /// the commands a `new_graph` action with these specs publishes (first = init, then a chain)
    pub fn plan_newgraph(nonce: u64, specs: &[(Priority, Vec<Op>)]) -> Vec<KCmd> {
        let mut pubs: Vec<KCmd> = vec![];
        let mut parent: Prior<Address> = Prior::None;
        for (k, (prio, body)) in specs.iter().enumerate() {
            let text = encode_body(body);
            let id = action_cmd_id(&parent, prio, &text, nonce, k);
            let c = KCmd {
                id,
                parent,
                prio: prio.clone(),
                policy: if matches!(parent, Prior::None) { Some(vec![0u8; 8]) } else { None },
                data: text.into_bytes(),
            };
            parent = Prior::Single(c.address());
            pubs.push(c);
        }
        pubs
    }

    /// plan and run an action publishing `specs` (priority, body) on the current heads
    pub fn run_action(&mut self, rec: &mut Recorder, nonce: u64, specs: &[(Priority, Vec<Op>)]) {
        let merges = if self.o.exists { self.o.collapse_plan() } else { vec![] };
        for m in &merges {
            self.define(rec, m);
        }
        rec.count(if merges.is_empty() { "action_on:single-head" } else { "action_on:multi-head" });
        rec.count_n("action_collapse_merges", merges.len() as u64);
        rec.count(&format!("action_publishes:{}", specs.len()));
        let mut pubs: Vec<KCmd> = vec![];
        if self.o.exists {
            let og = oracle::OGraph::new(&self.o.committed);
            let heads = og.frontier();
            let mut parent = match merges.last() {
                Some(m) => m.address(),
                None => self.o.committed.iter().find(|c| c.id == heads[0]).unwrap().address(),
            };
            for (k, (prio, body)) in specs.iter().enumerate() {
                let text = encode_body(body);
                let id = action_cmd_id(&Prior::Single(parent), prio, &text, nonce, k);
                let c = KCmd { id, parent: Prior::Single(parent), prio: prio.clone(), policy: None, data: text.into_bytes() };
                parent = c.address();
                pubs.push(c);
            }
        }
        for c in &pubs {
            self.define(rec, c);
        }
        let line = format!(
            "action {nonce} {} {}",
            tags(&merges.iter().map(|c| c.id).collect::<Vec<_>>()),
            tags(&pubs.iter().map(|c| c.id).collect::<Vec<_>>())
        );
        self.exec(rec, &line);
    }
}

// ------------------------------------------------------------------------------------ generators

#[derive(Clone, Debug)]
pub struct Profile {
    pub dag: DagParams,
    /// percent of non-merge, non-init commands whose rule rejects unconditionally
    pub reject_pct: u64,
    /// of those, percent that write facts / emit effects before failing
    pub write_then_fail_pct: u64,
    pub slots: u64,
    pub batch_max: u64,
    pub flush_pct: u64,
    pub commit_pct: u64,
    pub dup_pct: u64,
    /// percent chance, per delivered command, of a *directed* duplicate: the command itself again
    /// right away (duplicate of the in-flight head — a single, a merge, the init), one of its
    /// parents again (duplicate of a covered / flushed / committed tip), or the command again after
    /// the next command (a merge re-delivered after a child was added on top of it)
    pub dup_near_pct: u64,
    pub noncausal_pct: u64,
    pub action_pct: u64,
    pub action_fail_pct: u64,
    pub tips_pct: u64,
    /// 0 = well-formed init; otherwise one of the malformed first-command shapes of C10
    pub init_shape: u64,
    /// percent chance to inject a foreign parentless command into a later batch
    pub foreign_pct: u64,
    /// redeliver everything in one final transaction
    pub final_redeliver: bool,
}

impl Default for Profile {
    fn default() -> Self {
        Profile {
            dag: DagParams::default(),
            reject_pct: 12,
            write_then_fail_pct: 70,
            slots: 1,
            batch_max: 4,
            flush_pct: 10,
            commit_pct: 15,
            dup_pct: 10,
            dup_near_pct: 20,
            noncausal_pct: 5,
            action_pct: 0,
            action_fail_pct: 40,
            tips_pct: 30,
            init_shape: 0,
            foreign_pct: 0,
            final_redeliver: true,
        }
    }
}

pub fn gen_action_specs(rng: &mut Rng, p: &Profile) -> Vec<(Priority, Vec<Op>)> {
    let k = rng.below(4) as usize;
    let fail = rng.chance(p.action_fail_pct, 100);
    let mut specs: Vec<(Priority, Vec<Op>)> = (0..k)
        .map(|_| (Priority::Basic(rng.below(p.dag.prios.max(1) as u64) as u32), gen_body(rng, &DagParams { check_pct: 0, ..p.dag.clone() })))
        .collect();
    if fail {
        // the (k+1)-th command writes, emits, then fails
        let mut b = vec![Op::Set(rng.below(p.dag.keys), 77), Op::Emit(rng.below(100))];
        if rng.chance(1, 2) {
            b.push(Op::Append);
        }
        b.push(Op::Fail);
        specs.push((Priority::Basic(0), b));
    } else if specs.is_empty() && rng.chance(3, 4) {
        specs.push((Priority::Basic(0), vec![Op::Set(0, 1), Op::Append, Op::Emit(5)]));
    }
    specs
}

fn kind_of(c: &KCmd) -> &'static str {
    match c.parent {
        Prior::None => "init",
        Prior::Single(_) => "single",
        Prior::Merge(..) => "merge",
    }
}

/// random topological order of `0..n` w.r.t. `dag`
fn topo_order(rng: &mut Rng, dag: &Dag) -> Vec<usize> {
    let n = dag.nodes.len();
    let mut done = vec![false; n];
    let mut out = vec![];
    while out.len() < n {
        let ready: Vec<usize> = (0..n).filter(|&i| !done[i] && dag.nodes[i].parents.iter().all(|&p| done[p])).collect();
        // bias towards depth-first runs so that perspectives get reused
        let pick = if let (Some(&last), true) = (out.last(), rng.chance(1, 2)) {
            ready.iter().copied().find(|&i| dag.nodes[i].parents.contains(&last)).unwrap_or(*rng.pick(&ready))
        } else {
            *rng.pick(&ready)
        };
        done[pick] = true;
        out.push(pick);
    }
    out
}

/// One random history under profile `p`, executed step by step on `w`.
pub fn run_history(w: &mut World, rec: &mut Recorder, rng: &mut Rng, p: &Profile, salt: u64) {
    let mut dag = gen_dag(rng, &p.dag);
    let mut n_rej = 0;
    for (i, nd) in dag.nodes.iter_mut().enumerate() {
        if i == 0 || nd.parents.len() != 1 {
            continue;
        }
        if rng.chance(p.reject_pct, 100) {
            n_rej += 1;
            if rng.chance(p.write_then_fail_pct, 100) {
                nd.body = vec![Op::Set(rng.below(p.dag.keys), 99), Op::Emit(rng.below(1000)), Op::Append, Op::Fail];
            } else {
                nd.body = vec![Op::Fail];
            }
        }
    }
    if p.init_shape == 5 {
        dag.nodes[0].body = vec![Op::Set(0, 0), Op::Emit(1), Op::Fail];
    }
    let mut cmds = realize(&dag, salt);
    let foreign = KCmd {
        id: hash_id(&[b"foreign".as_slice(), &salt.to_be_bytes()].concat()),
        parent: Prior::None,
        prio: Priority::Init,
        policy: Some(vec![0u8; 8]),
        data: b"s0=5;a".to_vec(),
    };
    // first-command shapes (C10)
    let mut gid = cmds[0].id;
    match p.init_shape {
        1 => cmds[0].policy = None,                                 // policy-less init
        2 => gid = foreign.id,                                      // init command with another id
        3 if cmds.len() > 1 => gid = cmds[1].id,                    // graph id names a parented command
        _ => {}
    }
    // shapes 6/7: the graph is created by a `new_graph` action that publishes the init command
    // and 0–3 more commands (7: the last published command writes, emits and fails)
    let mut ng: Vec<KCmd> = vec![];
    if p.init_shape >= 6 {
        let extra = rng.below(4) as usize;
        let mut specs: Vec<(Priority, Vec<Op>)> = vec![(Priority::Init, dag.nodes[0].body.clone())];
        for _ in 0..extra {
            specs.push((Priority::Basic(rng.below(3) as u32), gen_body(rng, &DagParams { check_pct: 0, ..p.dag.clone() })));
        }
        if p.init_shape == 7 {
            specs.push((Priority::Basic(0), vec![Op::Set(1, 5), Op::Emit(4), Op::Fail]));
        }
        ng = World::plan_newgraph(salt, &specs);
        // the DAG's commands hang below the published init command
        let old = cmds[0].id;
        let new0 = ng[0].clone();
        for c in cmds.iter_mut() {
            c.parent = match c.parent {
                Prior::Single(a) if a.id == old => Prior::Single(new0.address()),
                Prior::Merge(a, b) => Prior::Merge(if a.id == old { new0.address() } else { a }, if b.id == old { new0.address() } else { b }),
                x => x,
            };
        }
        cmds[0] = new0;
        gid = cmds[0].id;
    }
    rec.count(&format!("init_shape:{}", p.init_shape));
    w.exec(rec, &format!("new {}", id_hex(gid)));
    for c in &cmds {
        w.define(rec, c);
    }
    w.define(rec, &foreign);
    if p.init_shape >= 6 {
        for c in &ng[1..] {
            w.define(rec, c);
        }
        if rng.chance(1, 8) {
            // nothing published at all
            w.exec(rec, &format!("newgraph {salt} -"));
        }
        w.exec(rec, &format!("newgraph {salt} {}", tags(&ng.iter().map(|c| c.id).collect::<Vec<_>>())));
        w.observe(rec);
        if rng.chance(1, 3) {
            // creating the same graph again
            w.exec(rec, &format!("newgraph {salt} {}", tags(&ng.iter().map(|c| c.id).collect::<Vec<_>>())));
            w.observe(rec);
        }
    }
    if p.init_shape == 4 {
        w.exec(rec, "open 0");
        w.exec(rec, "add 0 -");
        w.exec(rec, "exists");
    }
    if p.init_shape == 3 && cmds.len() > 1 {
        w.exec(rec, "open 0");
        w.exec(rec, &format!("add 0 {}", tag(cmds[1].id)));
        w.exec(rec, "exists");
    }
    if p.init_shape == 2 {
        w.exec(rec, "open 0");
        w.exec(rec, &format!("add 0 {}", tag(foreign.id)));
        w.exec(rec, "exists");
        w.exec(rec, "commit 0");
    }

    // delivery order
    let mut order = topo_order(rng, &dag);
    let mut i = 0;
    while i + 1 < order.len() {
        if rng.chance(p.noncausal_pct, 100) {
            order.swap(i, i + 1);
        }
        i += 1;
    }
    let mut stream: Vec<KCmd> = vec![];
    let mut again_later: Vec<KCmd> = vec![];
    for &k in &order {
        stream.push(cmds[k].clone());
        // duplicates scheduled one command ago: delivered after a (possible) child
        for c in again_later.drain(..) {
            rec.count(&format!("dup:after-next:{}", kind_of(&c)));
            stream.push(c);
        }
        // merges are always candidates, other commands with the profile's probability
        let is_merge = dag.nodes[k].parents.len() == 2;
        if rng.chance(p.dup_near_pct, 100) || (is_merge && p.dup_near_pct > 0 && rng.chance(1, 2)) {
            match rng.below(4) {
                0 | 1 => {
                    rec.count(&format!("dup:immediately:{}", kind_of(&cmds[k])));
                    stream.push(cmds[k].clone());
                    if rng.chance(1, 3) {
                        again_later.push(cmds[k].clone());
                    }
                }
                2 => {
                    rec.count(&format!("dup:after-next:scheduled:{}", kind_of(&cmds[k])));
                    again_later.push(cmds[k].clone());
                }
                _ => {
                    for &pi in &dag.nodes[k].parents {
                        rec.count(&format!("dup:parent:{}", kind_of(&cmds[pi])));
                        stream.push(cmds[pi].clone());
                    }
                }
            }
        }
        if rng.chance(p.dup_pct, 100) {
            let j = rng.below(stream.len() as u64) as usize;
            stream.push(stream[j].clone());
        }
        if rng.chance(p.foreign_pct, 100) {
            stream.push(if rng.chance(1, 2) { foreign.clone() } else { cmds[0].clone() });
        }
    }
    rec.count_n("cmds", cmds.len() as u64);
    rec.count_n("rejecting_cmds", n_rej);

    let mut nonce = salt;
    let mut pos = 0;
    let mut ops = 0u64;
    while pos < stream.len() {
        let slot = rng.below(p.slots);
        if !w.trxs.contains_key(&slot) {
            w.exec(rec, &format!("open {slot}"));
        }
        let n = rng.range(1, p.batch_max) as usize;
        let batch = &stream[pos..(pos + n).min(stream.len())];
        pos += batch.len();
        w.exec(rec, &format!("add {slot} {}", tags(&batch.iter().map(|c| c.id).collect::<Vec<_>>())));
        ops += 1;
        if rng.chance(p.tips_pct, 100) {
            w.exec(rec, &format!("tips {slot}"));
        }
        if rng.chance(p.flush_pct, 100) {
            w.exec(rec, &format!("flush {slot}"));
            w.exec(rec, &format!("tips {slot}"));
        }
        if rng.chance(p.action_pct, 100) {
            nonce += 1;
            let specs = gen_action_specs(rng, p);
            w.run_action(rec, nonce, &specs);
            w.observe(rec);
        }
        if rng.chance(p.commit_pct, 100) {
            let s = rng.below(p.slots);
            if w.trxs.contains_key(&s) {
                w.exec(rec, &format!("commit {s}"));
                w.observe(rec);
            }
        }
    }
    let open: Vec<u64> = w.trxs.keys().copied().collect();
    for s in open {
        w.exec(rec, &format!("tips {s}"));
        w.exec(rec, &format!("commit {s}"));
        w.observe(rec);
    }
    if p.final_redeliver && !cmds.is_empty() {
        // everything once more, parents first, in one transaction: duplicates are skipped,
        // commands lost to a concurrent-transaction error are added now
        w.exec(rec, "open 9");
        for chunk in cmds.chunks(rng.range(1, 6) as usize) {
            w.exec(rec, &format!("add 9 {}", tags(&chunk.iter().map(|c| c.id).collect::<Vec<_>>())));
        }
        w.exec(rec, "tips 9");
        w.exec(rec, "commit 9");
        w.observe(rec);
    }
    if p.action_pct > 0 {
        nonce += 1;
        let specs = gen_action_specs(rng, p);
        w.run_action(rec, nonce, &specs);
        w.observe(rec);
    }
    rec.count_n("mutating_ops", ops);
    let lines = rec.current_case_lines();
    if lines.len() > 6 {
        rec.nontrivial(fnv(&lines.join("\n")));
    }
}

/// Replay: execute the request lines stored in a replay file.
pub fn replay(rec: &mut Recorder, label: &str, lines: &[String]) {
    let mut w = World::new(label);
    rec.begin_case();
    for l in lines {
        w.exec(rec, l);
    }
}

/// Standard `main` of a trxkit harness: replay, or `cases` random histories drawn from `profile`.
pub fn harness_main(label: &str, quick: usize, thorough: usize, profile: impl Fn(&mut Rng, bool) -> Profile) {
    let args = vh::Args::parse();
    vh::quiet_panics();
    let mut rec = Recorder::new(&args.out);
    if let Some(p) = &args.replay {
        let lines = vh::read_replay_input(p);
        replay(&mut rec, label, &lines);
        rec.finish(args.seed, &args.tier);
        return;
    }
    let mut rng = Rng::new(args.seed);
    let cases = args.budget(quick, thorough);
    for case in 0..cases {
        let big = args.thorough() || args.search;
        let p = profile(&mut rng, big);
        let mut crng = rng.fork();
        rec.begin_case();
        let mut w = World::new(label);
        let salt = args.seed.wrapping_mul(1_000_003).wrapping_add(case as u64);
        let r = vh::catch(std::panic::AssertUnwindSafe(|| run_history(&mut w, &mut rec, &mut crng, &p, salt)));
        if let Err(e) = r {
            rec.panics.push(format!("{label} case {case}: {e}"));
        }
        if rec.cases() <= 2 {
            let l = rec.current_case_lines();
            rec.sample(l.iter().filter(|x| !x.starts_with("def ")).take(12).cloned().collect::<Vec<_>>().join(" ; "));
        }
    }
    rec.finish(args.seed, &args.tier);
}
