//! Shared kit for the policy-language properties C22 / C23 / C24.
//!
//! * `real` pipeline: source text -> REAL parser -> REAL `Compiler` -> `Machine` -> `RunState`
//! * canonical printing of values, instructions (listing after label resolution), outcomes
//! * an FFI module `t` that logs every invocation (C23)
//! * serialisation of the REAL parsed AST to the S-expression form the Lean driver parses
//! * a reference evaluator over the REAL parsed AST (S-level oracle, independent of compiler+VM)
//! * a type-directed generator of well-typed policy source text + near-miss / ill-typed stream
//!
//! The pieces live in submodules of this file: `sx` (serialiser), `refeval`, `gen`.

use std::{cell::RefCell, collections::BTreeMap, fmt::Write as _};

use aranya_crypto::policy::CmdId;
use aranya_id::BaseId;
use aranya_policy_ast::{self as ast, Version};
use aranya_policy_compiler::Compiler;
use aranya_policy_lang::lang::parse_policy_str;
use aranya_policy_vm::{
    ffi::{self, ModuleSchema},
    ident, ActionContext, CommandContext, ConstValue, ExitReason, FactKey, FactKeyList, FactValue,
    FactValueList, Identifier, Instruction, KVPair, Label, LabelType, Machine, MachineError,
    MachineErrorType, MachineIO, MachineIOError, MachineStack, MachineStatus, Stack, Struct, Target,
    Value, WrapType,
};

use crate::hex;

// ------------------------------------------------------------------ canonical values

/// Canonical value, shared by the real side (converted from `Value`) and the reference evaluator.
#[derive(Clone, Debug, PartialEq, Eq)]
pub enum RV {
    Unit,
    Int(i64),
    Bool(bool),
    Str(String),
    /// ids are 32-byte; the harness only creates ids whose first 8 bytes hold a small number
    Id(u64),
    Enum(String, i64),
    None,
    Some(Box<RV>),
    Ok(Box<RV>),
    Err(Box<RV>),
    Struct(String, BTreeMap<String, RV>),
    /// something the fragment does not cover (bytes, fact, identifier)
    Other(String),
}

pub fn id_of(n: u64) -> BaseId {
    let mut b = [0u8; 32];
    b[..8].copy_from_slice(&n.to_be_bytes());
    BaseId::from_bytes(b)
}

impl RV {
    pub fn from_value(v: &Value) -> RV {
        match v {
            Value::Unit => RV::Unit,
            Value::Int(i) => RV::Int(*i),
            Value::Bool(b) => RV::Bool(*b),
            Value::String(s) => RV::Str(s.as_str().to_string()),
            Value::Id(id) => {
                let b = id.as_bytes();
                let mut n = [0u8; 8];
                n.copy_from_slice(&b[..8]);
                RV::Id(u64::from_be_bytes(n))
            }
            Value::Enum(n, v) => RV::Enum(n.as_str().to_string(), *v),
            Value::Option(None) => RV::None,
            Value::Option(Some(x)) => RV::Some(Box::new(RV::from_value(x))),
            Value::Result(Ok(x)) => RV::Ok(Box::new(RV::from_value(x))),
            Value::Result(Err(x)) => RV::Err(Box::new(RV::from_value(x))),
            Value::Struct(s) => RV::Struct(
                s.name.as_str().to_string(),
                s.fields.iter().map(|(k, v)| (k.as_str().to_string(), RV::from_value(v))).collect(),
            ),
            other => RV::Other(other.type_name().replace(' ', "_")),
        }
    }
    pub fn to_value(&self) -> Value {
        match self {
            RV::Unit => Value::Unit,
            RV::Int(i) => Value::Int(*i),
            RV::Bool(b) => Value::Bool(*b),
            RV::Str(s) => Value::String(s.parse().expect("text")),
            RV::Id(n) => Value::Id(id_of(*n)),
            RV::Enum(n, v) => Value::Enum(n.parse().expect("ident"), *v),
            RV::None => Value::Option(None),
            RV::Some(x) => Value::Option(Some(Box::new(x.to_value()))),
            RV::Ok(x) => Value::Result(Ok(Box::new(x.to_value()))),
            RV::Err(x) => Value::Result(Err(Box::new(x.to_value()))),
            RV::Struct(n, fs) => Value::Struct(Struct {
                name: n.parse().expect("ident"),
                fields: fs.iter().map(|(k, v)| (k.parse().expect("ident"), v.to_value())).collect(),
            }),
            RV::Other(_) => Value::Unit,
        }
    }
    /// canonical, space-free token
    pub fn show(&self) -> String {
        match self {
            RV::Unit => "unit".into(),
            RV::Int(i) => i.to_string(),
            RV::Bool(b) => b.to_string(),
            RV::Str(s) => format!("s:{}", hex(s.as_bytes())),
            RV::Id(n) => format!("id:{n}"),
            RV::Enum(n, v) => format!("enum:{n}:{v}"),
            RV::None => "none".into(),
            RV::Some(x) => format!("some({})", x.show()),
            RV::Ok(x) => format!("ok({})", x.show()),
            RV::Err(x) => format!("err({})", x.show()),
            RV::Struct(n, fs) => {
                let mut s = format!("{n}{{");
                for (i, (k, v)) in fs.iter().enumerate() {
                    if i > 0 {
                        s.push(',');
                    }
                    write!(s, "{k}={}", v.show()).unwrap();
                }
                s.push('}');
                s
            }
            RV::Other(t) => format!("other:{t}"),
        }
    }
    /// parse the canonical token back (replay)
    pub fn parse(s: &str) -> Option<RV> {
        let (v, rest) = Self::parse_at(s)?;
        if rest.is_empty() {
            Some(v)
        } else {
            None
        }
    }
    fn parse_at(s: &str) -> Option<(RV, &str)> {
        for (pre, mk) in [
            ("some(", RV::Some as fn(Box<RV>) -> RV),
            ("ok(", RV::Ok as fn(Box<RV>) -> RV),
            ("err(", RV::Err as fn(Box<RV>) -> RV),
        ] {
            if let Some(r) = s.strip_prefix(pre) {
                let (v, r) = Self::parse_at(r)?;
                let r = r.strip_prefix(')')?;
                return Some((mk(Box::new(v)), r));
            }
        }
        let end = s.find(|c| c == ',' || c == ')' || c == '}' || c == '{').unwrap_or(s.len());
        let (tok, rest) = s.split_at(end);
        if rest.starts_with('{') {
            // struct
            let mut r = &rest[1..];
            let mut fs = BTreeMap::new();
            loop {
                if let Some(r2) = r.strip_prefix('}') {
                    return Some((RV::Struct(tok.to_string(), fs), r2));
                }
                let eq = r.find('=')?;
                let k = &r[..eq];
                let (v, r2) = Self::parse_at(&r[eq + 1..])?;
                fs.insert(k.to_string(), v);
                r = r2.strip_prefix(',').unwrap_or(r2);
            }
        }
        let v = match tok {
            "unit" => RV::Unit,
            "true" => RV::Bool(true),
            "false" => RV::Bool(false),
            "none" => RV::None,
            _ => {
                if let Some(h) = tok.strip_prefix("s:") {
                    RV::Str(String::from_utf8(crate::unhex(h)?).ok()?)
                } else if let Some(n) = tok.strip_prefix("id:") {
                    RV::Id(n.parse().ok()?)
                } else if let Some(e) = tok.strip_prefix("enum:") {
                    let (n, v) = e.rsplit_once(':')?;
                    RV::Enum(n.to_string(), v.parse().ok()?)
                } else {
                    RV::Int(tok.parse().ok()?)
                }
            }
        };
        Some((v, rest))
    }
}

fn const_rv(c: &ConstValue) -> RV {
    RV::from_value(&Value::from(c.clone()))
}

// ------------------------------------------------------------------ listing

fn show_target(t: &Target) -> String {
    match t {
        Target::Resolved(n) => n.to_string(),
        Target::Unresolved(l) => format!("?{}", l.name),
    }
}
fn show_wrap(w: &WrapType) -> &'static str {
    match w {
        WrapType::Ok => "ok",
        WrapType::Err => "err",
        WrapType::Some => "some",
    }
}
pub fn show_exit(r: &ExitReason) -> &'static str {
    match r {
        ExitReason::Normal => "normal",
        ExitReason::Yield => "yield",
        ExitReason::Check => "check",
        ExitReason::Panic => "panic",
    }
}

/// One instruction as a space-free token; the Lean driver prints the same form.
pub fn show_instr(i: &Instruction) -> String {
    use Instruction as I;
    match i {
        I::Const(v) => format!("const:{}", const_rv(v).show()),
        I::Identifier(x) => format!("ident:{x}"),
        I::Def(x) => format!("def:{x}"),
        I::Get(x) => format!("get:{x}"),
        I::Dup => "dup".into(),
        I::Pop => "pop".into(),
        I::Block => "block".into(),
        I::End => "end".into(),
        I::Jump(t) => format!("jump:{}", show_target(t)),
        I::Branch(t) => format!("branch:{}", show_target(t)),
        I::Next => "next".into(),
        I::Last => "last".into(),
        I::Call(t) => format!("call:{}", show_target(t)),
        I::Recall(t) => format!("recall:{}", show_target(t)),
        I::ExtCall(m, p) => format!("extcall:{m}:{p}"),
        I::Return => "return".into(),
        I::Exit(r) => format!("exit:{}", show_exit(r)),
        I::Add => "add".into(),
        I::Sub => "sub".into(),
        I::SaturatingAdd => "satadd".into(),
        I::SaturatingSub => "satsub".into(),
        I::Not => "not".into(),
        I::Gt => "gt".into(),
        I::Lt => "lt".into(),
        I::Eq => "eq".into(),
        I::FactNew(x) => format!("factnew:{x}"),
        I::FactKeySet(x) => format!("factkset:{x}"),
        I::FactValueSet(x) => format!("factvset:{x}"),
        I::StructNew(x) => format!("structnew:{x}"),
        I::StructSet(x) => format!("structset:{x}"),
        I::StructGet(x) => format!("structget:{x}"),
        I::MStructSet(n) => format!("mstructset:{n}"),
        I::MStructGet(n) => format!("mstructget:{n}"),
        I::Cast(x) => format!("cast:{x}"),
        I::Wrap(w) => format!("wrap:{}", show_wrap(w)),
        I::Is(w) => format!("is:{}", show_wrap(w)),
        I::Unwrap(w) => format!("unwrap:{}", show_wrap(w)),
        I::Publish => "publish".into(),
        I::Create => "create".into(),
        I::Delete => "delete".into(),
        I::Update => "update".into(),
        I::Emit => "emit".into(),
        I::Query => "query".into(),
        I::FactCount(n) => format!("factcount:{n}"),
        I::QueryStart => "querystart".into(),
        I::QueryNext(x) => format!("querynext:{x}"),
        I::Serialize => "serialize".into(),
        I::Deserialize => "deserialize".into(),
        I::SaveSP => "savesp".into(),
        I::RestoreSP => "restoresp".into(),
        I::Meta(m) => match m {
            aranya_policy_vm::Meta::Finish(b) => format!("meta:finish:{b}"),
            aranya_policy_vm::Meta::FFI(m, p) => format!("meta:ffi:{m}:{p}"),
        },
    }
}

pub fn listing(m: &Machine) -> String {
    let mut s = String::new();
    for (i, ins) in m.progmem.iter().enumerate() {
        if i > 0 {
            s.push(' ');
        }
        s.push_str(&show_instr(ins));
    }
    s
}

/// function entry points `name@addr`, sorted by name
pub fn entries(m: &Machine) -> String {
    let mut v: Vec<String> = m
        .labels
        .iter()
        .filter(|(l, _)| l.ltype == LabelType::Function)
        .map(|(l, a)| format!("{}@{}", l.name, a))
        .collect();
    v.sort();
    v.join(" ")
}

// ------------------------------------------------------------------ FFI module `t` + IO

/// FFI module `t`: every invocation is logged.
///   0 mark(n int) int          -> n
///   1 flag(n int, b bool) bool -> b
///   2 boom(n int) int          -> FFI error
///   3 pick(n int) option[int]  -> Some(n) if n is even else None
pub fn ffi_schema() -> ModuleSchema<'static> {
    const ARGS_N: &[ffi::Arg<'static>] = &[ffi::Arg { name: ident!("n"), vtype: ffi::Type::Int }];
    const ARGS_NB: &[ffi::Arg<'static>] = &[
        ffi::Arg { name: ident!("n"), vtype: ffi::Type::Int },
        ffi::Arg { name: ident!("b"), vtype: ffi::Type::Bool },
    ];
    const OPT_INT: ffi::Type<'static> = ffi::Type::Optional(&ffi::Type::Int);
    const FUNCS: &[ffi::Func<'static>] = &[
        ffi::Func { name: ident!("mark"), args: ARGS_N, return_type: ffi::Type::Int },
        ffi::Func { name: ident!("flag"), args: ARGS_NB, return_type: ffi::Type::Bool },
        ffi::Func { name: ident!("boom"), args: ARGS_N, return_type: ffi::Type::Int },
        ffi::Func { name: ident!("pick"), args: ARGS_N, return_type: OPT_INT },
    ];
    ModuleSchema { name: ident!("t"), functions: FUNCS, structs: &[], enums: &[] }
}

/// `MachineIO` with an in-memory fact map, an effect list and a foreign-call log.
#[derive(Default)]
pub struct LogIO {
    pub facts: BTreeMap<(Identifier, FactKeyList), FactValueList>,
    pub effects: Vec<(Identifier, Vec<KVPair>)>,
    pub log: RefCell<Vec<String>>,
}

impl<S: Stack> MachineIO<S> for LogIO {
    type QueryIterator = Box<dyn Iterator<Item = Result<(FactKeyList, FactValueList), MachineIOError>>>;

    fn fact_insert(
        &mut self,
        name: Identifier,
        key: impl IntoIterator<Item = FactKey>,
        value: impl IntoIterator<Item = FactValue>,
    ) -> Result<(), MachineIOError> {
        let key: Vec<_> = key.into_iter().collect();
        let value: Vec<_> = value.into_iter().collect();
        if self.facts.contains_key(&(name.clone(), key.clone())) {
            return Err(MachineIOError::FactExists);
        }
        self.facts.insert((name, key), value);
        Ok(())
    }
    fn fact_delete(&mut self, name: Identifier, key: impl IntoIterator<Item = FactKey>) -> Result<(), MachineIOError> {
        let key: Vec<_> = key.into_iter().collect();
        self.facts.remove(&(name, key)).map(|_| ()).ok_or(MachineIOError::FactNotFound)
    }
    fn fact_query(&self, name: Identifier, key: impl IntoIterator<Item = FactKey>) -> Result<Self::QueryIterator, MachineIOError> {
        let key: Vec<_> = key.into_iter().collect();
        let it = self
            .facts
            .clone()
            .into_iter()
            .filter(move |f| f.0 .0 == name && f.0 .1.starts_with(&key))
            .map(|((_, k), v)| Ok((k, v)));
        Ok(Box::new(it))
    }
    fn effect(&mut self, name: Identifier, fields: impl IntoIterator<Item = KVPair>, _c: CmdId, _r: bool) {
        self.effects.push((name, fields.into_iter().collect()));
    }
    fn call(&self, module: usize, procedure: usize, stack: &mut S, _ctx: &CommandContext) -> Result<(), MachineError> {
        if module != 0 {
            return Err(MachineError::new(MachineErrorType::FfiModuleNotDefined(module)));
        }
        match procedure {
            0 => {
                let n: i64 = stack.pop()?;
                self.log.borrow_mut().push(format!("mark:{n}"));
                stack.push(n)?;
                Ok(())
            }
            1 => {
                let b: bool = stack.pop()?;
                let n: i64 = stack.pop()?;
                self.log.borrow_mut().push(format!("flag:{n}:{b}"));
                stack.push(b)?;
                Ok(())
            }
            2 => {
                let n: i64 = stack.pop()?;
                self.log.borrow_mut().push(format!("boom:{n}"));
                Err(MachineError::new(MachineErrorType::Unknown("boom".into())))
            }
            3 => {
                let n: i64 = stack.pop()?;
                self.log.borrow_mut().push(format!("pick:{n}"));
                let r: Option<i64> = if n % 2 == 0 { Some(n) } else { None };
                stack.push(r)?;
                Ok(())
            }
            p => Err(MachineError::new(MachineErrorType::FfiProcedureNotDefined(ident!("t"), p))),
        }
    }
}

// ------------------------------------------------------------------ real pipeline

pub enum Compiled {
    ParseError(String),
    /// the parser accepted, the compiler rejected (message kept for the notes)
    Rejected(ast::Policy, String),
    Accepted(ast::Policy, Box<Machine>),
}

pub fn compile_real(src: &str) -> Compiled {
    let policy = match parse_policy_str(src, Version::V2) {
        Ok(p) => p,
        Err(e) => return Compiled::ParseError(e.to_string()),
    };
    let schemas = [ffi_schema()];
    let res = Compiler::new(&policy).ffi_modules(&schemas).debug(true).compile();
    match res {
        Err(e) => {
            let msg = e.to_string();
            Compiled::Rejected(policy, msg)
        }
        Ok(module) => match Machine::from_module(module) {
            Ok(m) => Compiled::Accepted(policy, Box::new(m)),
            Err(e) => Compiled::Rejected(policy, format!("from_module: {e}")),
        },
    }
}

/// Outcome of one run, canonical.
#[derive(Clone, Debug, PartialEq, Eq)]
pub enum Outcome {
    /// function returned normally with this value on top of the stack
    Val(RV),
    /// `Exit(Panic)` / `Exit(Check)`
    Exit(&'static str),
    /// foreign function returned an error
    FfiError,
    /// the program went wrong (machine error class / "stuck" reason)
    Wrong(String),
    /// step budget exhausted
    Timeout,
    StackOverflow,
}

impl Outcome {
    pub fn show(&self) -> String {
        match self {
            Outcome::Val(v) => format!("val {}", v.show()),
            Outcome::Exit(r) => format!("exit {r}"),
            Outcome::FfiError => "ffi-error".into(),
            Outcome::Wrong(_) => "wrong".into(),
            Outcome::Timeout => "timeout".into(),
            Outcome::StackOverflow => "stack-overflow".into(),
        }
    }
}

pub fn err_class(e: &MachineErrorType) -> &'static str {
    use MachineErrorType as E;
    match e {
        E::StackUnderflow => "StackUnderflow",
        E::StackOverflow => "StackOverflow",
        E::AlreadyDefined(_) => "AlreadyDefined",
        E::NotDefined(_) => "NotDefined",
        E::InvalidType { .. } => "InvalidType",
        E::InvalidStructMember(_) => "InvalidStructMember",
        E::InvalidFact(_) => "InvalidFact",
        E::InvalidSchema(_) => "InvalidSchema",
        E::UnresolvedTarget(_) => "UnresolvedTarget",
        E::InvalidAddress(_) => "InvalidAddress",
        E::BadState(_) => "BadState",
        E::IntegerOverflow => "IntegerOverflow",
        E::InvalidInstruction => "InvalidInstruction",
        E::CallStack => "CallStack",
        E::IO(_) => "IO",
        E::FfiModuleNotDefined(_) => "FfiModuleNotDefined",
        E::FfiProcedureNotDefined(..) => "FfiProcedureNotDefined",
        E::ContextMismatch => "ContextMismatch",
        E::Serialize(_) => "Serialize",
        E::Deserialize(_) => "Deserialize",
        E::Bug(_) => "Bug",
        E::Unknown(_) => "Unknown",
    }
}

pub struct RealRun {
    pub outcome: Outcome,
    /// machine error class when `outcome` is Wrong / FfiError / StackOverflow
    pub err: Option<&'static str>,
    pub log: Vec<String>,
    pub steps: usize,
    pub stack_len: usize,
}

/// Execute function `fname` on the real VM with `args` pushed in order.
pub fn run_real(m: &Machine, fname: &str, args: &[RV], max_steps: usize) -> RealRun {
    let mut io = LogIO::default();
    let ctx = CommandContext::Action(ActionContext { name: ident!("harness"), head_id: CmdId::default() });
    let (outcome, err, steps, stack_len);
    {
        let mut rs = m.create_run_state(&mut io, ctx);
        let label = Label::new(fname.parse().expect("ident"), LabelType::Function);
        if let Err(e) = rs.set_pc_by_label(&label) {
            return RealRun { outcome: Outcome::Wrong(format!("label: {e}")), err: Some(err_class(&e.err_type)), log: vec![], steps: 0, stack_len: 0 };
        }
        for a in args {
            rs.stack.push_value(a.to_value()).expect("push arg");
        }
        let mut n = 0usize;
        let r = loop {
            if n >= max_steps {
                break None;
            }
            n += 1;
            match rs.step() {
                Ok(MachineStatus::Executing) => {}
                Ok(MachineStatus::Exited(r)) => break Some(Ok(r)),
                Err(e) => break Some(Err(e)),
            }
        };
        steps = n;
        stack_len = rs.stack.len();
        (outcome, err) = match r {
            None => (Outcome::Timeout, None),
            Some(Ok(ExitReason::Normal)) => match rs.stack.as_slice().last() {
                Some(v) => (Outcome::Val(RV::from_value(v)), None),
                None => (Outcome::Wrong("normal exit with empty stack".into()), Some("EmptyStack")),
            },
            Some(Ok(r)) => (Outcome::Exit(show_exit(&r)), None),
            Some(Err(e)) => {
                let c = err_class(&e.err_type);
                match &e.err_type {
                    MachineErrorType::Unknown(s) if s == "boom" => (Outcome::FfiError, Some(c)),
                    MachineErrorType::StackOverflow => (Outcome::StackOverflow, Some(c)),
                    _ => (Outcome::Wrong(format!("{c}: {}", e.err_type)), Some(c)),
                }
            }
        };
    }
    let log = io.log.into_inner();
    RealRun { outcome, err, log, steps, stack_len }
}

pub mod case;
pub mod gen;
pub mod refeval;
pub mod sx;
