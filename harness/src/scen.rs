//! Multi-replica scenarios over the real `ClientState` (graphkit), shared by the C01 / C04 / C19
//! harnesses.  One generated DAG is delivered to 2–3 replicas through *different* histories
//! (causal permutation × batching into `add_commands` calls × transactions × commit points),
//! then replicas author commands themselves (actions on possibly multi-head graphs, which
//! collapse the heads into merge commands) and relay them to each other.  After every step
//! that changes a committed state the replicas are *observed*: head ids, full fact cache, hello
//! head, committed command set.
//!
//! Oracles (Rust, independent of the Lean model; selected by `which`):
//!  C01  replicas with equal committed command sets report equal heads, facts, hello heads;
//!       heads = frontier, facts = reference braid facts (gk::oracle).
//!  C04  on a multi-head graph: a no-write action's stored state equals the fact cache seen
//!       before it; session checks see exactly the fact cache; the collapse emits no effects;
//!       the first published command's parent is the previously advertised hello head.
//!  C19  `should_sync_on_hello(peer hello) == false` ⇒ peer's committed set ⊆ ours; equal head
//!       sets ⇒ equal hello heads; a replica lacking the graph always syncs.
//! The Lean driver is asked `frontier`, `facts`, `synth` on each observed command set.

use std::collections::{BTreeMap, BTreeSet};

use aranya_runtime::{Address, ClientError, CmdId, Prior, Priority, TraversalBuffer};

use crate::{fnv, gk::*, Args, Recorder, Rng};

pub struct Obs {
    pub committed: Vec<KCmd>,
    pub ids: BTreeSet<CmdId>,
    pub heads: Vec<CmdId>,
    pub facts: String,
    pub hello: Option<Address>,
}

fn observe(r: &mut Replica<MemProvider>) -> Option<Obs> {
    if !r.exists() {
        return None;
    }
    let committed = r.committed().ok()?;
    let ids = committed.iter().map(|c| c.id).collect();
    let heads = r.heads();
    let facts = r.facts().map(|f| show_facts(&f)).unwrap_or_else(|e| format!("err {e}"));
    let hello = r.hello_head().ok();
    Some(Obs { committed, ids, heads, facts, hello })
}

/// perfect-hash view of an id: a committed merge command is shown as `M(l,r)` over its parents
fn expand_id(cmds: &BTreeMap<CmdId, KCmd>, id: CmdId) -> String {
    match cmds.get(&id).map(|c| c.parent) {
        Some(Prior::Merge(l, r)) => format!("M({},{})", expand_id(cmds, l.id), expand_id(cmds, r.id)),
        _ => short(id),
    }
}

/// like `synth_term` but with merge-command heads expanded (for the hello decision request)
fn synth_term_expanded(o: &Obs) -> Option<(String, CmdId)> {
    let cmds: BTreeMap<CmdId, KCmd> = o.committed.iter().map(|c| (c.id, c.clone())).collect();
    let mut q: std::collections::VecDeque<(String, CmdId)> = o.heads.iter().map(|h| (expand_id(&cmds, *h), *h)).collect();
    while let Some(l) = q.pop_front() {
        let Some(r) = q.pop_front() else { return Some(l) };
        q.push_back((format!("M({},{})", l.0, r.0), merge_id(l.1, r.1)));
    }
    None
}

/// fold of the id-sorted head list like `fold_merge_pairs`, as a term string and its id
fn synth_term(heads: &[CmdId]) -> Option<(String, CmdId)> {
    let mut q: std::collections::VecDeque<(String, CmdId)> = heads.iter().map(|h| (short(*h), *h)).collect();
    while let Some(l) = q.pop_front() {
        let Some(r) = q.pop_front() else { return Some(l) };
        q.push_back((format!("M({},{})", l.0, r.0), merge_id(l.1, r.1)));
    }
    None
}

fn emit_obs(rec: &mut Recorder, label: &str, o: &Obs) {
    rec.line("reset", "ok");
    for c in &o.committed {
        rec.line(cmd_line(c), "ok");
    }
    rec.line("frontier", show_ids(&o.heads));
    rec.line("facts", o.facts.clone());
    // hello head: shown as the fold term when the real address is the id of that term
    let real = match (&o.hello, synth_term(&o.heads)) {
        (Some(a), Some((term, id))) if a.id == id => term,
        (Some(a), _) => format!("id:{}", short(a.id)),
        (None, _) => "err".into(),
    };
    rec.line("synth", real);
    let _ = label;
}

fn check_obs_against_reference(rec: &mut Recorder, label: &str, o: &Obs) {
    let og = oracle::OGraph::new(&o.committed);
    let fr = og.frontier();
    if fr != o.heads {
        rec.oracle_fail(format!("{label}: heads {} but frontier of the committed set is {}", show_ids(&o.heads), show_ids(&fr)));
    }
    let mut sorted = o.heads.clone();
    sorted.sort();
    sorted.dedup();
    if sorted != o.heads {
        rec.oracle_fail(format!("{label}: head set not sorted/duplicate-free: {}", show_ids(&o.heads)));
    }
    match og.facts_of(&o.heads) {
        Ok(f) => {
            if oracle::show(&f) != o.facts {
                rec.oracle_fail(format!("{label}: facts {} but reference {}", o.facts, oracle::show(&f)));
            }
        }
        Err(e) => rec.oracle_fail(format!("{label}: committed state exists but reference braid fails: {e}")),
    }
}

fn compare_equal_sets(rec: &mut Recorder, label: &str, obs: &[Option<Obs>]) {
    for i in 0..obs.len() {
        for j in (i + 1)..obs.len() {
            if let (Some(a), Some(b)) = (&obs[i], &obs[j]) {
                if a.ids == b.ids {
                    rec.count("pairs_with_equal_sets");
                    if a.heads != b.heads {
                        rec.oracle_fail(format!("{label}: replicas {i},{j} hold the same commands but heads {} vs {}", show_ids(&a.heads), show_ids(&b.heads)));
                    }
                    if a.facts != b.facts {
                        rec.oracle_fail(format!("{label}: replicas {i},{j} hold the same commands but facts {} vs {}", a.facts, b.facts));
                    }
                    if a.hello.map(|x| x.id) != b.hello.map(|x| x.id) || a.hello.map(|x| mc(x.max_cut)) != b.hello.map(|x| mc(x.max_cut)) {
                        rec.oracle_fail(format!("{label}: replicas {i},{j} hold the same commands but hello heads differ"));
                    }
                }
            }
        }
    }
}

/// random topological order of a command list (given parents-first)
fn causal_perm(rng: &mut Rng, cmds: &[KCmd]) -> Vec<KCmd> {
    let mut remaining: Vec<KCmd> = cmds.to_vec();
    let mut done: BTreeSet<CmdId> = BTreeSet::new();
    let mut out = vec![];
    while !remaining.is_empty() {
        let ready: Vec<usize> = remaining
            .iter()
            .enumerate()
            .filter(|(_, c)| oracle::parents(c).iter().all(|p| done.contains(p)))
            .map(|(i, _)| i)
            .collect();
        let pick = if rng.chance(1, 2) { ready[0] } else { *rng.pick(&ready) };
        let c = remaining.remove(pick);
        done.insert(c.id);
        out.push(c);
    }
    out
}

/// deliver commands with random batching / transactions / commit points; one transaction per
/// command when `per_cmd` (workaround while rejected commands poison a transaction).
fn deliver(rec: &mut Recorder, rng: &mut Rng, r: &mut Replica<MemProvider>, cmds: &[KCmd], per_cmd: bool) {
    let mut i = 0;
    while i < cmds.len() {
        let mut trx = r.transaction();
        let calls = if per_cmd { 1 } else { rng.range(1, 4) };
        for _ in 0..calls {
            if i >= cmds.len() {
                break;
            }
            let n = if per_cmd { 1 } else { rng.range(1, 5) as usize };
            let batch = &cmds[i..(i + n).min(cmds.len())];
            i += batch.len();
            if per_cmd {
                if let Err(e) = r.add(&mut trx, batch) {
                    rec.count(&format!("add_err:{}", err_name(&e)));
                }
            } else {
                // a batch stops at the first error; re-offer the rest one by one
                let mut k = 0;
                while k < batch.len() {
                    match r.add(&mut trx, &batch[k..]) {
                        Ok(_) => break,
                        Err(e) => {
                            rec.count(&format!("add_err:{}", err_name(&e)));
                            // find how far it got: commands before the failing one were added
                            k += 1;
                        }
                    }
                }
            }
        }
        if let Err(e) = r.commit(trx) {
            rec.count(&format!("commit_err:{}", err_name(&e)));
        }
    }
}

fn missing_from(a: &Obs, b_ids: &BTreeSet<CmdId>) -> Vec<KCmd> {
    a.committed.iter().filter(|c| !b_ids.contains(&c.id)).cloned().collect()
}

pub fn run_case(rec: &mut Recorder, rng: &mut Rng, which: &str, thorough: bool, case_salt: u64) {
    let checks = rng.chance(1, 3);
    let p = DagParams {
        max_nodes: if thorough && rng.chance(1, 8) { 50 } else { rng.range(3, 14) as usize },
        prios: rng.range(1, 3) as u32,
        finalize_pct: *rng.pick(&[0, 0, 8]),
        check_pct: if checks { 20 } else { 0 },
        merge_pct: *rng.pick(&[5, 20, 35]),
        branch_pct: *rng.pick(&[25, 45, 65]),
        ..DagParams::default()
    };
    // a third of the scenarios: no explicit merges and frequent branching from old commands, so
    // that the committed state has many (3..10) lazy heads with deep shared ancestry
    let p = if rng.chance(1, 3) {
        rec.count("shape:many-lazy-heads");
        DagParams { merge_pct: 0, branch_pct: *rng.pick(&[50, 70, 85]), max_nodes: rng.range(6, if thorough { 40 } else { 18 }) as usize, ..p }
    } else {
        p
    };
    // one scenario in eight: a wide frontier (12..16 lazy heads, 24 in the thorough tier) whose
    // heads branch off at different depths, delivered to some replicas without one or two leaves
    let wide = rng.chance(if which == "C04" { 2 } else { 1 }, 8);
    let d = if wide {
        rec.count("shape:wide-frontier");
        let leaves = rng.range(12, if thorough { 24 } else { 16 }) as usize;
        gen_wide_dag(rng, &DagParams { check_pct: 0, ..p.clone() }, leaves)
    } else {
        gen_dag(rng, &p)
    };
    let cmds = realize(&d, case_salt);
    let g = graph_id_of(&cmds[0]);
    let nrep = rng.range(2, 3) as usize;
    let mut reps: Vec<Replica<MemProvider>> = (0..nrep).map(|_| mem_replica(g)).collect();
    rec.count(&format!("replicas:{nrep}"));
    rec.count_n("dag_cmds", cmds.len() as u64);
    if rec.cases() <= 2 {
        rec.sample(cmds.iter().map(cmd_line).collect::<Vec<_>>().join(" | "));
    }

    // phase 1: same DAG, different histories
    for r in reps.iter_mut() {
        let mut order = causal_perm(rng, &cmds);
        if wide && rng.chance(1, 2) {
            // this replica misses one or two leaves (leaves have no children: still causally closed)
            let child_parents: BTreeSet<CmdId> = cmds
                .iter()
                .flat_map(|c| match &c.parent {
                    Prior::None => vec![],
                    Prior::Single(a) => vec![a.id],
                    Prior::Merge(a, b) => vec![a.id, b.id],
                })
                .collect();
            for _ in 0..rng.range(1, 2) {
                let leaf_pos: Vec<usize> = order.iter().enumerate().filter(|(_, c)| !child_parents.contains(&c.id)).map(|(i, _)| i).collect();
                if leaf_pos.len() > 1 {
                    let i = *rng.pick(&leaf_pos);
                    order.remove(i);
                }
            }
            rec.count("wide_missing_leaves");
        } else if rng.chance(1, 3) {
            // this replica only receives a causal prefix (the rest may arrive by relay later)
            let cut = rng.range(1, order.len() as u64) as usize;
            order.truncate(cut);
            rec.count("partial_initial_delivery");
        }
        let pc = rng.chance(1, 4);
        deliver(rec, rng, r, &order, pc);
        let _ = audit_take();
    }
    let mut fp = cmds.iter().map(cmd_line).collect::<Vec<_>>().join("\n");

    let steps = rng.range(1, if thorough { 8 } else { 5 });
    for step in 0..=steps {
        // observe
        let obs: Vec<Option<Obs>> = reps.iter_mut().map(observe).collect();
        for (i, o) in obs.iter().enumerate() {
            if let Some(o) = o {
                let label = format!("{which} step{step} r{i}");
                emit_obs(rec, &label, o);
                rec.line(format!("save {i}"), "ok");
                check_obs_against_reference(rec, &label, o);
                if o.heads.len() >= 2 {
                    rec.count("multi_head_observations");
                }
                if o.heads.len() >= 3 {
                    rec.count("observations_with_3plus_heads");
                }
            }
        }
        compare_equal_sets(rec, &format!("{which} step{step}"), &obs);

        // C19 on every ordered pair
        for i in 0..nrep {
            for j in 0..nrep {
                if i == j || which != "C19" {
                    continue;
                }
                let (Some(oi), Some(oj)) = (&obs[i], &obs[j]) else { continue };
                let Some(hello) = oj.hello else { continue };
                let mut buf = TraversalBuffer::new();
                let dec = reps[i].client.should_sync_on_hello(g, hello, &mut buf);
                if let Some((term, tid)) = synth_term_expanded(oj) {
                    if tid == hello.id {
                        rec.line(
                            format!("hello {i} {term}"),
                            match &dec {
                                Ok(true) => "sync".to_string(),
                                Ok(false) => "no-sync".to_string(),
                                Err(e) => format!("err {}", err_name(e)),
                            },
                        );
                    }
                }
                match dec {
                    Ok(false) => {
                        rec.count("hello:no-sync");
                        if !oj.ids.is_subset(&oi.ids) {
                            let miss: Vec<CmdId> = oj.ids.difference(&oi.ids).copied().collect();
                            // are the missing commands exactly merge commands of the fold of OUR head set?
                            let mut fold_merges: BTreeSet<CmdId> = BTreeSet::new();
                            {
                                let mut q: std::collections::VecDeque<CmdId> = oi.heads.iter().copied().collect();
                                while q.len() >= 2 {
                                    let l = q.pop_front().unwrap();
                                    let r = q.pop_front().unwrap();
                                    let m = merge_id(l, r);
                                    fold_merges.insert(m);
                                    q.push_back(m);
                                }
                            }
                            let only_fold = miss.iter().all(|m| fold_merges.contains(m));
                            if only_fold {
                                rec.oracle_fail(format!("{which}: hello-no-sync-but-lacks-own-fold-merges: replica decided NOT to sync on a hello whose peer holds merge command(s) {} of the replica's own head-set fold that the replica has not written", show_ids(&miss)));
                            } else {
                                rec.oracle_fail(format!("{which}: replica {i} decided NOT to sync on hello from {j} but lacks {}", show_ids(&miss)));
                            }
                        }
                    }
                    Ok(true) => {
                        rec.count("hello:sync");
                        if oi.heads == oj.heads {
                            rec.oracle_fail(format!("{which}: same head sets but hello says sync (hello heads differ)"));
                        }
                    }
                    Err(e) => rec.oracle_fail(format!("{which}: should_sync_on_hello error {}", err_name(&e))),
                }
            }
        }
        // a replica lacking the graph always syncs
        if which == "C19" {
            let mut empty = mem_replica(g);
            if let Some(Some(o)) = obs.first() {
                if let Some(h) = o.hello {
                    let mut buf = TraversalBuffer::new();
                    if !matches!(empty.client.should_sync_on_hello(g, h, &mut buf), Ok(true)) {
                        rec.oracle_fail(format!("{which}: replica without the graph did not decide to sync"));
                    }
                }
            }
        }
        if step == steps {
            break;
        }

        // phase 2: somebody authors or relays
        let a = rng.below(nrep as u64) as usize;
        if rng.chance(1, 8) {
            // remove the graph on replica a and re-join through a causal prefix of what another
            // replica holds (cached per-graph state must not survive the removal)
            let b = (a + 1 + rng.below(nrep as u64 - 1) as usize) % nrep;
            if let Some(ob) = observe(&mut reps[b]) {
                if reps[a].exists() && reps[a].client.remove_graph(g).is_ok() {
                    rec.count("remove_graph+rejoin");
                    let cut = rng.range(1, ob.committed.len() as u64) as usize;
                    let prefix: Vec<KCmd> = ob.committed[..cut].to_vec();
                    fp.push_str(&format!("\nrejoin r{a} <- r{b} {cut}"));
                    let pc = rng.chance(1, 4);
                    deliver(rec, rng, &mut reps[a], &prefix, pc);
                }
            }
        } else if rng.chance(3, 5) {
            // action on replica a
            let Some(pre) = observe(&mut reps[a]) else { continue };
            let k = rng.range(1, 3) as usize;
            let fail = rng.chance(1, 5);
            let mut acts = vec![];
            let nowrite = rng.chance(1, 2);
            for q in 0..k {
                let mut body = if nowrite { vec![Op::Emit(rng.below(1000))] } else { gen_body(rng, &DagParams { check_pct: 0, ..p.clone() }) };
                if fail && q == k - 1 {
                    body.push(Op::Fail);
                }
                acts.push((Priority::Basic(rng.below(p.prios as u64) as u32), body));
            }
            let nonce = rng.next_u64();
            let sink_mark = reps[a].sink.log.len();
            let _ = audit_take();
            let res = reps[a].action(KAction { cmds: acts.clone(), nonce, init: false });
            let evs = audit_take();
            fp.push_str(&format!("\naction r{a} k{k} fail{fail} {:?}", res.as_ref().map_err(err_name)));
            let post = observe(&mut reps[a]);
            match (&res, post) {
                (Ok(()), Some(post)) => {
                    rec.count("action:ok");
                    if pre.heads.len() >= 2 {
                        rec.count("action:on-multi-head");
                    }
                    // C07/C04-style checks that belong to C04 here:
                    let new: Vec<&KCmd> = post.committed.iter().filter(|c| !pre.ids.contains(&c.id)).collect();
                    let published: Vec<&&KCmd> = new.iter().filter(|c| !matches!(c.parent, Prior::Merge(..))).collect();
                    // first published command's parent = previously advertised hello head
                    if let (Some(hello), Some(first)) = (pre.hello, published.iter().min_by_key(|c| c.max_cut())) {
                        match first.parent {
                            Prior::Single(pa) => {
                                if pa.id != hello.id || mc(pa.max_cut) != mc(hello.max_cut) {
                                    rec.oracle_fail(format!("{which}: action's first command has parent {} but the advertised hello head was {}", short(pa.id), short(hello.id)));
                                }
                            }
                            _ => rec.oracle_fail(format!("{which}: published command without a single parent")),
                        }
                    }
                    // collapse emits no effects: every effect consumed during the action belongs to a published command
                    let pub_ids: BTreeSet<CmdId> = published.iter().map(|c| c.id).collect();
                    for ev in &reps[a].sink.log[sink_mark..] {
                        if let SinkEv::Consume(e) = ev {
                            if !pub_ids.contains(&e.cmd) {
                                rec.oracle_fail(format!("{which}: effect of {} emitted during an action that did not publish it (collapse must be silent)", short(e.cmd)));
                            }
                        }
                    }
                    // no merge command was ever evaluated by the policy
                    for ev in &evs {
                        if let AuditEv::Rule { was_merge: true, id, .. } = ev {
                            rec.oracle_fail(format!("{which}: policy evaluated merge command {}", short(*id)));
                        }
                    }
                    // a no-write action stores exactly the state queries saw before it
                    if nowrite {
                        if post.facts != pre.facts {
                            rec.oracle_fail(format!("{which}: fact cache before a no-write action {} differs from the state stored by it {}", pre.facts, post.facts));
                        }
                    }
                    if post.heads.len() != 1 {
                        rec.oracle_fail(format!("{which}: {} heads after a successful action", post.heads.len()));
                    }
                }
                (Err(_), Some(post)) => {
                    rec.count("action:err");
                    if post.heads != pre.heads || post.facts != pre.facts || post.ids != pre.ids {
                        rec.oracle_fail(format!("{which}: failed action changed the committed state"));
                    }
                }
                _ => {}
            }
            // sessions see the fact cache (C04): `np<k>` accepted iff k present
            if which == "C04" {
                if let Some(cur) = observe(&mut reps[a]) {
                    if let Ok(mut s) = reps[a].client.session(g) {
                        for kk in 0..p.keys {
                            let mut es = KSink::default();
                            let mut ms = NullMsgSink;
                            let r = s.action(&reps[a].client, &mut es, &mut ms, KAction { cmds: vec![(Priority::Basic(0), vec![Op::ReqPresent(kk)])], nonce: 1, init: false });
                            let present = cur.facts.contains(&format!("f|{}|", crate::hex(&kk.to_be_bytes())));
                            if r.is_ok() != present {
                                rec.oracle_fail(format!("{which}: session sees key {kk} present={} but fact cache says {present}", r.is_ok()));
                            }
                            rec.count("session_probes");
                        }
                    }
                }
            }
        } else {
            // relay: everything a has that b lacks, delivered in (max_cut, id) order
            let b = (a + 1 + rng.below(nrep as u64 - 1) as usize) % nrep;
            let (oa, ob) = (observe(&mut reps[a]), observe(&mut reps[b]));
            if let Some(oa) = oa {
                let have = ob.map(|o| o.ids).unwrap_or_default();
                let miss = missing_from(&oa, &have);
                fp.push_str(&format!("\nrelay r{a}->r{b} {}", miss.len()));
                rec.count("relay");
                let pc = rng.chance(1, 4);
                deliver(rec, rng, &mut reps[b], &miss, pc);
            }
        }
    }
    rec.nontrivial(fnv(&fp));
}

pub struct NullMsgSink;
impl<'b> aranya_runtime::Sink<&'b [u8]> for NullMsgSink {
    fn begin(&mut self) {}
    fn consume(&mut self, _e: &'b [u8]) {}
    fn rollback(&mut self) {}
    fn commit(&mut self) {}
}

#[allow(dead_code)]
fn _unused(_: ClientError, _: BTreeMap<u8, u8>) {}

/// Deterministic witness of the known C19 finding: peer head is the merge command of the
/// replica's own two heads.
fn c19_witness(rec: &mut Recorder) {
    let d = Dag {
        nodes: vec![
            Node { parents: vec![], prio: Priority::Init, body: vec![Op::Set(0, 0), Op::Append] },
            Node { parents: vec![0], prio: Priority::Basic(0), body: vec![Op::Set(1, 1), Op::Append] },
            Node { parents: vec![0], prio: Priority::Basic(0), body: vec![Op::Set(2, 2), Op::Append] },
            Node { parents: vec![1, 2], prio: Priority::Merge, body: vec![] },
        ],
    };
    let cmds = realize(&d, 4242);
    let g = graph_id_of(&cmds[0]);
    let mut x = mem_replica(g);
    let mut y = mem_replica(g);
    for (r, n) in [(&mut x, 3usize), (&mut y, 4usize)] {
        let mut trx = r.transaction();
        let _ = r.add(&mut trx, &cmds[..n]);
        let _ = r.commit(trx);
    }
    let (Some(ox), Some(oy)) = (observe(&mut x), observe(&mut y)) else { return };
    emit_obs(rec, "witness x", &ox);
    rec.line("save 0", "ok");
    let Some(hello) = oy.hello else { return };
    let mut buf = TraversalBuffer::new();
    let dec = x.client.should_sync_on_hello(g, hello, &mut buf);
    if let Some((term, _)) = synth_term_expanded(&oy) {
        rec.line(format!("hello 0 {term}"), if matches!(dec, Ok(true)) { "sync" } else { "no-sync" });
    }
    if matches!(dec, Ok(false)) && !oy.ids.is_subset(&ox.ids) {
        let miss: Vec<CmdId> = oy.ids.difference(&ox.ids).copied().collect();
        rec.oracle_fail(format!("C19: hello-no-sync-but-lacks-own-fold-merges: replica decided NOT to sync on a hello whose peer holds merge command(s) {} of the replica's own head-set fold that the replica has not written", show_ids(&miss)));
    }
    let _ = audit_take();
}

pub fn main_for(which: &str) {
    let args = Args::parse();
    let mut rec = Recorder::new(&args.out);
    let mut rng = Rng::new(args.seed ^ fnv(which));
    let mut cases = args.budget(250, 2500);
    let mut only: Option<usize> = None;
    let mut seed = args.seed;
    if let Some(p) = &args.replay {
        // replay input: ["scen <which> <seed> <case>"] or ["scen <which> witness"]
        let lines = crate::read_replay_input(p);
        let t: Vec<&str> = lines.first().map(|l| l.split(' ').collect()).unwrap_or_default();
        if t.len() == 3 && t[2] == "witness" {
            rec.begin_case();
            c19_witness(&mut rec);
            rec.finish(args.seed, &args.tier);
            return;
        }
        if t.len() == 4 {
            seed = t[2].parse().unwrap_or(seed);
            let k: usize = t[3].parse().unwrap_or(0);
            only = Some(k);
            cases = k + 1;
            rng = Rng::new(seed ^ fnv(which));
        }
    }
    if which == "C19" && only.is_none() {
        rec.begin_case();
        let n0 = rec.oracle_failures.len();
        c19_witness(&mut rec);
        for f in &mut rec.oracle_failures[n0..] {
            f.input = vec![format!("scen {which} witness")];
        }
    }
    for case in 0..cases {
        let mut crng = rng.fork();
        if only.is_some_and(|k| k != case) {
            continue;
        }
        rec.begin_case();
        let salt = seed.wrapping_mul(7_777_777).wrapping_add(case as u64);
        let thorough = args.thorough() || args.search;
        let n0 = rec.oracle_failures.len();
        match crate::catch(std::panic::AssertUnwindSafe(|| run_case(&mut rec, &mut crng, which, thorough, salt))) {
            Ok(()) => {}
            Err(p) => {
                if p.contains("trx has perspective when has phead") {
                    rec.notes.push(format!("case {case}: {p}"));
                } else {
                    rec.panics.push(format!("scen {which} {seed} {case}: {p}"));
                }
            }
        }
        for f in &mut rec.oracle_failures[n0..] {
            f.input = vec![format!("scen {which} {seed} {case}")];
        }
    }
    rec.finish(args.seed, &args.tier);
}
