//! Shared plumbing for the correspondence harnesses (`src/bin/cNN.rs`).
//!
//! Every harness binary:
//!   * drives the REAL aranya-core code in-process on seeded, structured inputs,
//!   * writes `<out>/requests.txt` (one model-driver request per line) and `<out>/real.txt`
//!     (the implementation's canonicalised answer to the same request, line-aligned),
//!   * evaluates the property's S-level oracle directly on the implementation's outputs and
//!     records every oracle failure,
//!   * writes `<out>/stats.json` (cases, distribution, samples, oracle failures).
//! `./check` pipes requests.txt through the Lean model driver and diffs it against real.txt.

pub mod gk;
pub mod gkb;
pub mod scen;
pub mod sk;

use std::{
    collections::BTreeMap,
    fmt::Write as _,
    fs,
    io::Write as _,
    path::{Path, PathBuf},
};

/// SplitMix64: every random choice of a run derives from one seed.
#[derive(Clone, Debug)]
pub struct Rng(pub u64);

impl Rng {
    pub fn new(seed: u64) -> Self {
        Self(seed ^ 0x9E37_79B9_7F4A_7C15)
    }
    pub fn next_u64(&mut self) -> u64 {
        self.0 = self.0.wrapping_add(0x9E37_79B9_7F4A_7C15);
        let mut z = self.0;
        z = (z ^ (z >> 30)).wrapping_mul(0xBF58_476D_1CE4_E5B9);
        z = (z ^ (z >> 27)).wrapping_mul(0x94D0_49BB_1331_11EB);
        z ^ (z >> 31)
    }
    /// uniform in `0..n` (n > 0)
    pub fn below(&mut self, n: u64) -> u64 {
        self.next_u64() % n
    }
    pub fn range(&mut self, lo: u64, hi_incl: u64) -> u64 {
        lo + self.below(hi_incl - lo + 1)
    }
    pub fn chance(&mut self, num: u64, den: u64) -> bool {
        self.below(den) < num
    }
    pub fn pick<'a, T>(&mut self, xs: &'a [T]) -> &'a T {
        &xs[self.below(xs.len() as u64) as usize]
    }
    pub fn bytes(&mut self, n: usize) -> Vec<u8> {
        (0..n).map(|_| self.next_u64() as u8).collect()
    }
    pub fn fork(&mut self) -> Rng {
        Rng::new(self.next_u64())
    }
    pub fn shuffle<T>(&mut self, xs: &mut [T]) {
        for i in (1..xs.len()).rev() {
            let j = self.below(i as u64 + 1) as usize;
            xs.swap(i, j);
        }
    }
}

pub fn hex(bs: &[u8]) -> String {
    if bs.is_empty() {
        return "-".into();
    }
    let mut s = String::with_capacity(bs.len() * 2);
    for b in bs {
        write!(s, "{:02x}", b).unwrap();
    }
    s
}

pub fn unhex(s: &str) -> Option<Vec<u8>> {
    if s == "-" {
        return Some(vec![]);
    }
    if s.len() % 2 != 0 {
        return None;
    }
    (0..s.len())
        .step_by(2)
        .map(|i| u8::from_str_radix(&s[i..i + 2], 16).ok())
        .collect()
}

#[derive(Clone, Debug)]
pub struct Args {
    pub seed: u64,
    pub tier: String,
    pub out: PathBuf,
    pub replay: Option<PathBuf>,
    pub search: bool,
}

impl Args {
    pub fn parse() -> Self {
        let mut a = Args {
            seed: 1,
            tier: "quick".into(),
            out: PathBuf::from("."),
            replay: None,
            search: false,
        };
        let v: Vec<String> = std::env::args().collect();
        let mut i = 1;
        while i < v.len() {
            match v[i].as_str() {
                "--seed" => {
                    a.seed = v[i + 1].parse().expect("seed");
                    i += 1;
                }
                "--tier" => {
                    a.tier = v[i + 1].clone();
                    i += 1;
                }
                "--out" => {
                    a.out = PathBuf::from(&v[i + 1]);
                    i += 1;
                }
                "--replay" => {
                    a.replay = Some(PathBuf::from(&v[i + 1]));
                    i += 1;
                }
                "--search" => a.search = true,
                x => panic!("unknown argument {x}"),
            }
            i += 1;
        }
        a
    }
    pub fn thorough(&self) -> bool {
        self.tier == "thorough"
    }
    /// `q` cases in the quick tier, `t` in the thorough tier (search mode: thorough).
    pub fn budget(&self, q: usize, t: usize) -> usize {
        if self.thorough() || self.search {
            // VERIF_SCALE=<n> multiplies the thorough budget for a soak run (default 1).
            let scale = std::env::var("VERIF_SCALE")
                .ok()
                .and_then(|v| v.parse::<usize>().ok())
                .unwrap_or(1)
                .max(1);
            t.saturating_mul(scale)
        } else {
            q
        }
    }
}

/// One oracle failure: the property itself evaluated on the implementation's outputs failed.
#[derive(Clone, Debug)]
pub struct OracleFailure {
    pub case: usize,
    pub what: String,
    /// the replayable input (request lines or a description)
    pub input: Vec<String>,
}

/// Collects request/answer lines, case boundaries, distribution counters, samples.
pub struct Recorder {
    pub out: PathBuf,
    req: Vec<String>,
    real: Vec<String>,
    /// first line index of each case
    case_start: Vec<usize>,
    pub dist: BTreeMap<String, u64>,
    pub samples: Vec<String>,
    pub oracle_failures: Vec<OracleFailure>,
    pub nontrivial: std::collections::BTreeSet<u64>,
    pub notes: Vec<String>,
    pub panics: Vec<String>,
}

impl Recorder {
    pub fn new(out: &Path) -> Self {
        fs::create_dir_all(out).expect("mkdir out");
        Recorder {
            out: out.to_path_buf(),
            req: vec![],
            real: vec![],
            case_start: vec![],
            dist: BTreeMap::new(),
            samples: vec![],
            oracle_failures: vec![],
            nontrivial: Default::default(),
            notes: vec![],
            panics: vec![],
        }
    }
    pub fn begin_case(&mut self) -> usize {
        self.case_start.push(self.req.len());
        self.case_start.len() - 1
    }
    pub fn cases(&self) -> usize {
        self.case_start.len()
    }
    /// A request to the model driver together with the implementation's answer.
    pub fn line(&mut self, req: impl Into<String>, real: impl Into<String>) {
        let (req, real) = (req.into(), real.into());
        debug_assert!(!req.contains('\n') && !real.contains('\n'));
        self.req.push(req);
        self.real.push(real);
    }
    pub fn count(&mut self, key: &str) {
        *self.dist.entry(key.to_string()).or_insert(0) += 1;
    }
    pub fn count_n(&mut self, key: &str, n: u64) {
        *self.dist.entry(key.to_string()).or_insert(0) += n;
    }
    /// request lines of the current (last) case
    pub fn current_case_lines(&self) -> Vec<String> {
        let s = *self.case_start.last().unwrap_or(&0);
        self.req[s..].to_vec()
    }
    pub fn oracle_fail(&mut self, what: impl Into<String>) {
        let case = self.cases().saturating_sub(1);
        let input = self.current_case_lines();
        self.oracle_failures.push(OracleFailure {
            case,
            what: what.into(),
            input,
        });
    }
    pub fn oracle_fail_with(&mut self, what: impl Into<String>, input: Vec<String>) {
        let case = self.cases().saturating_sub(1);
        self.oracle_failures.push(OracleFailure {
            case,
            what: what.into(),
            input,
        });
    }
    /// mark the current case non-trivial, with a fingerprint used to count distinct ones
    pub fn nontrivial(&mut self, fingerprint: u64) {
        self.nontrivial.insert(fingerprint);
    }
    pub fn sample(&mut self, s: impl Into<String>) {
        if self.samples.len() < 5 {
            self.samples.push(s.into());
        }
    }
    pub fn finish(self, seed: u64, tier: &str) {
        let mut f = fs::File::create(self.out.join("requests.txt")).unwrap();
        for l in &self.req {
            writeln!(f, "{l}").unwrap();
        }
        let mut f = fs::File::create(self.out.join("real.txt")).unwrap();
        for l in &self.real {
            writeln!(f, "{l}").unwrap();
        }
        let mut f = fs::File::create(self.out.join("cases.txt")).unwrap();
        for s in &self.case_start {
            writeln!(f, "{s}").unwrap();
        }
        let js = |s: &str| serde_json::to_string(s).unwrap();
        let mut o = String::new();
        o.push_str("{\n");
        write!(o, "  \"seed\": {seed},\n  \"tier\": {},\n", js(tier)).unwrap();
        write!(o, "  \"cases\": {},\n  \"requests\": {},\n", self.case_start.len(), self.req.len()).unwrap();
        write!(o, "  \"distinct_nontrivial\": {},\n", self.nontrivial.len()).unwrap();
        o.push_str("  \"distribution\": {");
        let mut first = true;
        for (k, v) in &self.dist {
            if !first {
                o.push(',');
            }
            first = false;
            write!(o, "\n    {}: {}", js(k), v).unwrap();
        }
        o.push_str("\n  },\n  \"samples\": [");
        for (i, s) in self.samples.iter().enumerate() {
            if i > 0 {
                o.push(',');
            }
            write!(o, "\n    {}", js(s)).unwrap();
        }
        o.push_str("\n  ],\n  \"notes\": [");
        for (i, s) in self.notes.iter().enumerate() {
            if i > 0 {
                o.push(',');
            }
            write!(o, "\n    {}", js(s)).unwrap();
        }
        o.push_str("\n  ],\n  \"panics\": [");
        for (i, s) in self.panics.iter().enumerate() {
            if i > 0 {
                o.push(',');
            }
            write!(o, "\n    {}", js(s)).unwrap();
        }
        o.push_str("\n  ],\n  \"oracle_failures\": [");
        // keep up to 30 failures, one per distinct class (first 48 chars of `what`, digits
        // blanked) first, so that a new kind of failure is never hidden behind many of one kind
        let class = |w: &str| -> String { w.chars().take(48).map(|c| if c.is_ascii_hexdigit() && !c.is_ascii_alphabetic() { '#' } else { c }).collect() };
        let mut seen = std::collections::BTreeSet::new();
        let mut first: Vec<&OracleFailure> = vec![];
        let mut rest: Vec<&OracleFailure> = vec![];
        for fl in &self.oracle_failures {
            if seen.insert(class(&fl.what)) {
                first.push(fl);
            } else {
                rest.push(fl);
            }
        }
        first.extend(rest);
        for (i, fl) in first.into_iter().take(30).enumerate() {
            if i > 0 {
                o.push(',');
            }
            write!(o, "\n    {{\"case\": {}, \"what\": {}, \"input\": [", fl.case, js(&fl.what)).unwrap();
            for (j, l) in fl.input.iter().enumerate() {
                if j > 0 {
                    o.push(',');
                }
                o.push_str(&js(l));
            }
            o.push_str("]}");
        }
        write!(o, "\n  ],\n  \"oracle_failure_count\": {}\n}}\n", self.oracle_failures.len()).unwrap();
        fs::write(self.out.join("stats.json"), o).unwrap();
    }
}

/// FNV-1a, used for case fingerprints.
pub fn fnv(s: &str) -> u64 {
    let mut h: u64 = 0xcbf29ce484222325;
    for b in s.as_bytes() {
        h ^= *b as u64;
        h = h.wrapping_mul(0x100000001b3);
    }
    h
}

/// Run `f` catching panics; the panic message is returned as `Err`.
pub fn catch<T>(f: impl FnOnce() -> T + std::panic::UnwindSafe) -> Result<T, String> {
    match std::panic::catch_unwind(f) {
        Ok(v) => Ok(v),
        Err(e) => {
            let msg = if let Some(s) = e.downcast_ref::<&str>() {
                s.to_string()
            } else if let Some(s) = e.downcast_ref::<String>() {
                s.clone()
            } else {
                "panic".to_string()
            };
            Err(msg)
        }
    }
}

/// Silence the default panic hook output (harnesses report panics themselves).
pub fn quiet_panics() {
    std::panic::set_hook(Box::new(|_| {}));
}

/// Replay files written by `./check` contain the request lines of the failing case under the
/// JSON key `input`; this reads them back.
pub fn read_replay_input(path: &Path) -> Vec<String> {
    let txt = fs::read_to_string(path).expect("read replay");
    let v: serde_json::Value = serde_json::from_str(&txt).expect("replay json");
    v["input"]
        .as_array()
        .map(|a| a.iter().filter_map(|x| x.as_str().map(|s| s.to_string())).collect())
        .unwrap_or_default()
}
pub mod langkit;
pub mod coop;
pub mod factsworld;
pub mod sessworld;
#[cfg(feature = "policykit")]
pub mod policykit;
#[cfg(feature = "shmworld")]
pub mod shmworld;
