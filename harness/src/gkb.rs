//! graphkit extras for the braid properties C02 / C03 / C05:
//!   * re-parsing `cmd` request lines (replay input) into real commands,
//!   * a counting `Spill` so the harness can tell whether the braid result buffer or the
//!     convergence map really spilled,
//!   * shaped DAG generators (chains, ladders of diamonds, parallel ladders) big enough to cross
//!     the spill thresholds,
//!   * the C02 oracle on an audit log (exactly once / ancestors first / no merges), and the C05
//!     oracle (incomparable finalize pair).

use std::cell::RefCell;
use std::collections::{BTreeMap, BTreeSet};

use aranya_runtime::{
    Address, ClientError, CmdId, MaxCut, MemSpill, Prior, Priority, Spill, StorageError, StorageProvider,
};

use crate::gk::*;
use crate::Rng;

// ---------------------------------------------------------------------------------- replay parsing

pub fn parse_prio(s: &str) -> Option<Priority> {
    match s {
        "merge" => Some(Priority::Merge),
        "finalize" => Some(Priority::Finalize),
        "init" => Some(Priority::Init),
        _ => s.strip_prefix("basic:").and_then(|n| n.parse().ok()).map(Priority::Basic),
    }
}

pub fn parse_id(s: &str) -> Option<CmdId> {
    let b = crate::unhex(s)?;
    let a: [u8; 32] = b.try_into().ok()?;
    Some(CmdId::from(a))
}

/// `cmd <idhex> <prio> <parents> <body>` -> command (max cuts of the parents from `known`)
pub fn parse_cmd_line(line: &str, known: &BTreeMap<CmdId, u64>) -> Option<KCmd> {
    let t: Vec<&str> = line.split_whitespace().collect();
    if t.len() != 5 || t[0] != "cmd" {
        return None;
    }
    let id = parse_id(t[1])?;
    let prio = parse_prio(t[2])?;
    let addr = |s: &str| -> Option<Address> {
        let pid = parse_id(s)?;
        Some(Address { id: pid, max_cut: MaxCut::new(*known.get(&pid)?) })
    };
    let parent = if t[3] == "-" {
        Prior::None
    } else {
        let ps: Vec<&str> = t[3].split(',').collect();
        match ps.len() {
            1 => Prior::Single(addr(ps[0])?),
            2 => Prior::Merge(addr(ps[0])?, addr(ps[1])?),
            _ => return None,
        }
    };
    let body = if t[4] == "-" { String::new() } else { t[4].to_string() };
    decode_body(&body)?;
    Some(KCmd {
        id,
        parent,
        prio,
        policy: if matches!(parent, Prior::None) { Some(vec![0u8; 8]) } else { None },
        data: body.into_bytes(),
    })
}

/// Split replay request lines into cases (at `reset`) and re-parse the commands of each case.
/// Commands whose parents are unknown (they were sent after a failed commit) are kept out.
pub fn parse_cases(lines: &[String]) -> Vec<Vec<KCmd>> {
    let mut cases: Vec<Vec<KCmd>> = vec![];
    let mut known: BTreeMap<CmdId, u64> = BTreeMap::new();
    for l in lines {
        let l = l.trim();
        if l == "reset" {
            cases.push(vec![]);
            known.clear();
            continue;
        }
        if l.starts_with("cmd ") {
            if cases.is_empty() {
                cases.push(vec![]);
            }
            if let Some(c) = parse_cmd_line(l, &known) {
                if !known.contains_key(&c.id) {
                    known.insert(c.id, c.max_cut());
                    cases.last_mut().unwrap().push(c);
                }
            }
        }
    }
    cases.retain(|c| !c.is_empty());
    cases
}

// ---------------------------------------------------------------------------------- counting spill

#[derive(Clone, Copy, Debug, Default)]
pub struct SpillStats {
    /// blocks written by `BraidResult::flush_to_disk`
    pub braid_writes: u64,
    /// blocks written by `ConvergenceMap::spill_lru`
    pub conv_writes: u64,
    pub braid_reads: u64,
    pub conv_reads: u64,
}

thread_local! {
    pub static SPILL: RefCell<SpillStats> = const { RefCell::new(SpillStats { braid_writes: 0, conv_writes: 0, braid_reads: 0, conv_reads: 0 }) };
}

pub fn spill_take() -> SpillStats {
    SPILL.with(|s| std::mem::take(&mut *s.borrow_mut()))
}

/// `MemSpill` that counts block writes/reads. The two users are told apart by the record size:
/// the convergence map writes 24-byte entries, the braid result 16-byte `Location`s in full
/// blocks (256 * 16 is not a multiple of 24).
pub struct CountSpill(MemSpill);

impl CountSpill {
    pub fn new() -> Result<Self, StorageError> {
        Ok(CountSpill(MemSpill::new()?))
    }
}

impl Spill for CountSpill {
    fn write_at(&mut self, offset: usize, data: &[u8]) -> Result<(), StorageError> {
        SPILL.with(|s| {
            let mut s = s.borrow_mut();
            if data.len() % 24 == 0 {
                s.conv_writes += 1;
            } else {
                s.braid_writes += 1;
            }
        });
        self.0.write_at(offset, data)
    }
    fn read_at(&mut self, offset: usize, data: &mut [u8]) -> Result<(), StorageError> {
        SPILL.with(|s| {
            let mut s = s.borrow_mut();
            if data.len() % 24 == 0 {
                s.conv_reads += 1;
            } else {
                s.braid_reads += 1;
            }
        });
        self.0.read_at(offset, data)
    }
}

/// `add_commands` / `commit` with the counting spill
pub fn add_cs<SP: StorageProvider>(r: &mut Replica<SP>, trx: &mut Trx<SP>, cmds: &[KCmd]) -> Result<usize, ClientError> {
    r.client.add_commands(trx, &mut r.sink, cmds, &mut r.buffers, CountSpill::new)
}

pub fn commit_cs<SP: StorageProvider>(r: &mut Replica<SP>, trx: Trx<SP>) -> Result<bool, ClientError> {
    r.client.commit(trx, &mut r.sink, &mut r.buffers, CountSpill::new)
}

// ---------------------------------------------------------------------------------- shaped DAGs

fn basic(rng: &mut Rng, lo: u32, hi: u32) -> Priority {
    Priority::Basic(rng.range(lo as u64, hi as u64) as u32)
}

/// body for the big graphs: a write to a per-node key; every `log_every`-th node also appends its
/// tag to the log fact (kept sparse: the log value is copied on every append)
fn big_body(i: usize, log_every: usize) -> Vec<Op> {
    let mut b = vec![Op::Set(1 + (i as u64 % 64), i as u64)];
    if log_every > 0 && i % log_every == 0 {
        b.push(Op::Append);
    }
    b
}

fn push(d: &mut Dag, parents: Vec<usize>, prio: Priority, log_every: usize) -> usize {
    let i = d.nodes.len();
    let body = if parents.len() == 2 { vec![] } else { big_body(i, log_every) };
    d.nodes.push(Node { parents, prio, body });
    i
}

fn init_dag() -> Dag {
    let mut d = Dag::default();
    d.nodes.push(Node { parents: vec![], prio: Priority::Init, body: vec![Op::Set(0, 0), Op::Append] });
    d
}

/// two (or more) chains from a common trunk: no convergence points, region = sum of the lengths
pub fn chains_dag(rng: &mut Rng, trunk: usize, lens: &[usize], log_every: usize) -> Dag {
    let mut d = init_dag();
    let mut t = 0;
    for _ in 0..trunk {
        t = push(&mut d, vec![t], basic(rng, 0, 2), log_every);
    }
    for &l in lens {
        let mut x = t;
        for _ in 0..l {
            x = push(&mut d, vec![x], basic(rng, 0, 2), log_every);
        }
    }
    d
}

/// One ladder of `k` diamonds on top of node `from`: fork -> (a, b) -> merge -> ...; `stretch`:
/// chance (percent) of an extra chain node on a rung.  Returns the top node.
pub fn ladder_on(d: &mut Dag, rng: &mut Rng, from: usize, k: usize, stretch: u64, lo: u32, hi: u32, log_every: usize) -> usize {
    let mut top = from;
    for _ in 0..k {
        let mut a = push(d, vec![top], basic(rng, lo, hi), log_every);
        let mut b = push(d, vec![top], basic(rng, lo, hi), log_every);
        if rng.chance(stretch, 100) {
            a = push(d, vec![a], basic(rng, lo, hi), log_every);
        }
        if rng.chance(stretch, 100) {
            b = push(d, vec![b], basic(rng, lo, hi), log_every);
        }
        top = push(d, vec![a, b], Priority::Merge, log_every);
    }
    top
}

/// `w` parallel ladders of `k` diamonds each on a common trunk, joined by a tree of merges, plus two
/// side chains on the trunk:
///   * `side_lo` commands of the lowest priority: this strand is consumed first, which makes the
///     convergence BFS run down to the trunk while all fork points of the ladders are pending
///     (that is what fills the convergence map);
///   * `side_hi` commands of the highest basic priority: this strand stays in the heap to the end,
///     so the braid does not stop at the first fork (`lone`) but walks all ladders down to the trunk
///     (that is what fills the braid result buffer).
/// Heads of the final graph: the join (or a basic command on it) and the side tips.
pub fn ladders_dag(rng: &mut Rng, w: usize, k: usize, side_lo: usize, side_hi: usize, stretch: u64, log_every: usize) -> Dag {
    let mut d = init_dag();
    let trunk = push(&mut d, vec![0], Priority::Basic(1), log_every);
    let mut side_first = vec![];
    // sometimes the side chains are listed (delivered) before the ladders
    let early = rng.chance(1, 2);
    let mut sides = |d: &mut Dag| {
        let mut x = trunk;
        for _ in 0..side_lo {
            x = push(d, vec![x], Priority::Basic(0), log_every);
        }
        let mut y = trunk;
        for _ in 0..side_hi {
            y = push(d, vec![y], Priority::Basic(9), log_every);
        }
        side_first.push((x, y));
    };
    if early {
        sides(&mut d);
    }
    let mut tops: Vec<usize> = (0..w).map(|_| ladder_on(&mut d, rng, trunk, k, stretch, 1, 3, log_every)).collect();
    while tops.len() > 1 {
        let mut next = vec![];
        for pair in tops.chunks(2) {
            if pair.len() == 2 {
                next.push(push(&mut d, vec![pair[0], pair[1]], Priority::Merge, log_every));
            } else {
                next.push(pair[0]);
            }
        }
        tops = next;
    }
    if rng.chance(1, 2) {
        push(&mut d, vec![tops[0]], basic(rng, 1, 3), log_every);
    }
    if !early {
        sides(&mut d);
    }
    d
}

// ---------------------------------------------------------------------------------- C02 oracle

/// The property C02 evaluated on one braid's audit log: `calls` are the ids passed to
/// `call_rule(.., OnGraphInBraid)` in call order.  Returns the list of violations (empty = ok).
/// `start`: the point whose stored state the braid was replayed on (from the reference braid).
pub fn c02_check(og: &oracle::OGraph, heads: &[CmdId], start: CmdId, calls: &[CmdId], merge_flags: &[bool]) -> Vec<String> {
    let mut bad = vec![];
    // exactly once: no duplicates
    let mut pos: BTreeMap<CmdId, usize> = BTreeMap::new();
    for (i, c) in calls.iter().enumerate() {
        if pos.insert(*c, i).is_some() {
            bad.push(format!("command {} evaluated twice in one braid", short(*c)));
        }
    }
    // merges are never evaluated
    for (i, c) in calls.iter().enumerate() {
        let is_merge = merge_flags.get(i).copied().unwrap_or(false)
            || og.cmds.get(c).map_or(false, |k| matches!(k.parent, Prior::Merge(..)));
        if is_merge {
            bad.push(format!("merge command {} evaluated by the policy", short(*c)));
        }
        if !og.cmds.contains_key(c) {
            bad.push(format!("unknown command {} evaluated", short(*c)));
        }
    }
    // exactly the non-merge commands of anc*(heads) that are not in anc*(start)
    let region = og.anc_self(heads);
    let below = og.anc_self(&[start]);
    let want: BTreeSet<CmdId> = region
        .iter()
        .filter(|x| !below.contains(x))
        .filter(|x| og.cmds.get(x).map_or(false, |k| !matches!(k.parent, Prior::Merge(..))))
        .copied()
        .collect();
    let got: BTreeSet<CmdId> = calls.iter().copied().collect();
    for m in want.difference(&got).take(3) {
        bad.push(format!("command {} of the braided region was never evaluated", short(*m)));
    }
    for m in got.difference(&want).take(3) {
        bad.push(format!("command {} evaluated but it is not above the start / not in the region", short(*m)));
    }
    // after its ancestors: for every command, the latest position among its evaluated proper
    // ancestors must be earlier than its own position.  `m[x]` = max position among evaluated
    // ancestors-or-self of x, computed parents-first over the region.
    let mut order: Vec<&KCmd> = region.iter().filter_map(|x| og.cmds.get(x)).collect();
    order.sort_by_key(|c| (c.max_cut(), c.id));
    let mut m: BTreeMap<CmdId, i64> = BTreeMap::new();
    for c in order {
        let mut up: i64 = -1;
        for p in oracle::parents(c) {
            up = up.max(*m.get(&p).unwrap_or(&-1));
        }
        let mine = pos.get(&c.id).map(|p| *p as i64);
        if let Some(p) = mine {
            if up >= p {
                bad.push(format!("command {} evaluated before one of its ancestors", short(c.id)));
            }
        }
        m.insert(c.id, up.max(mine.unwrap_or(-1)));
    }
    bad.truncate(6);
    bad
}

/// merge flags of the in-braid rule calls of an audit slice (parallel to `braid_calls`)
pub fn braid_merge_flags(evs: &[AuditEv]) -> Vec<bool> {
    evs.iter()
        .filter_map(|e| match e {
            AuditEv::Rule { placement: Placement::Braid, was_merge, .. } => Some(*was_merge),
            _ => None,
        })
        .collect()
}

// ---------------------------------------------------------------------------------- C05 oracle

pub fn is_finalize(c: &KCmd) -> bool {
    c.prio == Priority::Finalize
}

/// Some pair of finalize commands in anc*(heads), neither an ancestor of the other.
pub fn parallel_finalize_pair(og: &oracle::OGraph, heads: &[CmdId]) -> Option<(CmdId, CmdId)> {
    let region = og.anc_self(heads);
    let fins: Vec<CmdId> = region.iter().filter(|x| og.cmds.get(x).map_or(false, is_finalize)).copied().collect();
    let anc: Vec<BTreeSet<CmdId>> = fins.iter().map(|f| og.anc_self(&[*f])).collect();
    for i in 0..fins.len() {
        for j in (i + 1)..fins.len() {
            if !anc[i].contains(&fins[j]) && !anc[j].contains(&fins[i]) {
                return Some((fins[i], fins[j]));
            }
        }
    }
    None
}

// ---------------------------------------------------------------------------------- incremental light graph

/// The command graph accepted so far, without fact states (cheap to extend; `OGraph::new`
/// recomputes every stored state, which is too slow for the spill-sized graphs).
pub struct LightGraph {
    pub og: oracle::OGraph,
    pub order: Vec<KCmd>,
}

impl Default for LightGraph {
    fn default() -> Self {
        Self::new()
    }
}

impl LightGraph {
    pub fn new() -> Self {
        LightGraph {
            og: oracle::OGraph { cmds: BTreeMap::new(), children: BTreeMap::new(), states: BTreeMap::new() },
            order: vec![],
        }
    }
    pub fn len(&self) -> usize {
        self.order.len()
    }
    pub fn is_empty(&self) -> bool {
        self.order.is_empty()
    }
    pub fn push(&mut self, c: &KCmd) {
        self.og.cmds.insert(c.id, c.clone());
        for p in oracle::parents(c) {
            self.og.children.entry(p).or_default().push(c.id);
        }
        self.order.push(c.clone());
    }
    pub fn truncate(&mut self, n: usize) {
        while self.order.len() > n {
            let c = self.order.pop().unwrap();
            self.og.cmds.remove(&c.id);
            for p in oracle::parents(&c) {
                if let Some(v) = self.og.children.get_mut(&p) {
                    v.retain(|x| *x != c.id);
                }
            }
        }
    }
    pub fn has_parents(&self, c: &KCmd) -> bool {
        oracle::parents(c).iter().all(|p| self.og.cmds.contains_key(p))
    }
}

// ---------------------------------------------------------------------------------- delivery schedules

/// A delivery schedule: the commands of each transaction (one `commit` after each batch).
pub type Schedule = Vec<Vec<KCmd>>;

/// Cut a parents-first command list into transactions.
pub fn make_schedule(rng: &mut Rng, cmds: &[KCmd], per_cmd: bool, max_batch: u64, fixed: bool) -> Schedule {
    let mut out = vec![];
    let mut i = 0;
    while i < cmds.len() {
        let n = if per_cmd {
            1
        } else if fixed {
            max_batch.max(1) as usize
        } else {
            rng.range(1, max_batch.max(1)) as usize
        };
        let b = cmds[i..(i + n).min(cmds.len())].to_vec();
        i += b.len();
        out.push(b);
    }
    out
}

/// Re-parse the request lines of a replay file into cases with their exact delivery schedule:
/// `reset` starts a case, `cmd` lines are the accepted commands, and a `frontier`, `facts` or
/// `truncate` line marks the commit that ended a transaction.
pub fn parse_schedules(lines: &[String]) -> Vec<Schedule> {
    let mut cases: Vec<Schedule> = vec![];
    let mut known: BTreeMap<CmdId, u64> = BTreeMap::new();
    let mut cur: Vec<KCmd> = vec![];
    let mut open = false;
    for l in lines {
        let l = l.trim();
        let first = l.split_whitespace().next().unwrap_or("");
        match first {
            "reset" => {
                if open && !cur.is_empty() {
                    cases.last_mut().unwrap().push(std::mem::take(&mut cur));
                }
                cases.push(vec![]);
                known.clear();
                cur.clear();
                open = true;
            }
            "cmd" => {
                if !open {
                    cases.push(vec![]);
                    open = true;
                }
                if let Some(c) = parse_cmd_line(l, &known) {
                    if !known.contains_key(&c.id) {
                        known.insert(c.id, c.max_cut());
                        cur.push(c);
                    }
                }
            }
            "frontier" | "facts" | "truncate" => {
                if open && !cur.is_empty() {
                    cases.last_mut().unwrap().push(std::mem::take(&mut cur));
                }
            }
            _ => {}
        }
    }
    if open && !cur.is_empty() {
        cases.last_mut().unwrap().push(cur);
    }
    cases.retain(|c| !c.is_empty());
    cases
}

pub fn flatten(s: &Schedule) -> Vec<KCmd> {
    s.iter().flatten().cloned().collect()
}

/// A comb: a spine `s_1 .. s_n` of lowest-priority commands; every `s_i` has one more child `t_i`
/// of the highest basic priority (optionally followed by a short chain).  Every spine command is
/// a convergence point that stays pending until its high-priority child is consumed at the very end,
/// in id (= random) order: the convergence map then holds ~n live entries whose blocks are reloaded
/// in random order while the BFS keeps inserting into whichever block is active.
/// `join`: merge the teeth pairwise into a single second head (otherwise they all stay heads).
pub fn comb_dag(rng: &mut Rng, n: usize, tooth: usize, join: bool, log_every: usize) -> Dag {
    let mut d = init_dag();
    let trunk = push(&mut d, vec![0], Priority::Basic(1), log_every);
    let mut s = trunk;
    let mut teeth = vec![];
    for _ in 0..n {
        let t0 = push(&mut d, vec![s], Priority::Basic(9), log_every);
        let mut t = t0;
        for _ in 0..tooth {
            t = push(&mut d, vec![t], basic(rng, 8, 9), log_every);
        }
        teeth.push(t);
        s = push(&mut d, vec![s], Priority::Basic(0), log_every);
    }
    if join {
        while teeth.len() > 1 {
            let mut next = vec![];
            for pair in teeth.chunks(2) {
                if pair.len() == 2 {
                    next.push(push(&mut d, vec![pair[0], pair[1]], Priority::Merge, log_every));
                } else {
                    next.push(pair[0]);
                }
            }
            teeth = next;
        }
    }
    d
}

/// A wide level: `w` fork commands that are all children of the trunk (same max cut), each with
/// two children joined by a merge, the merges joined by a tree of merges into one head; `plain`
/// further children of the trunk with a short chain on top, joined into the second head.  With
/// `w > 768` the convergence map holds more than three blocks of entries that all have the same
/// max cut.
pub fn wide_dag(rng: &mut Rng, w: usize, plain: usize, log_every: usize) -> Dag {
    let mut d = init_dag();
    let trunk = push(&mut d, vec![0], Priority::Basic(1), log_every);
    let mut tops = vec![];
    for _ in 0..w {
        let f = push(&mut d, vec![trunk], basic(rng, 1, 3), log_every);
        let a = push(&mut d, vec![f], basic(rng, 1, 3), log_every);
        let b = push(&mut d, vec![f], basic(rng, 1, 3), log_every);
        tops.push(push(&mut d, vec![a, b], Priority::Merge, log_every));
    }
    let join = |d: &mut Dag, mut tops: Vec<usize>| -> usize {
        while tops.len() > 1 {
            let mut next = vec![];
            for pair in tops.chunks(2) {
                if pair.len() == 2 {
                    next.push(push(d, vec![pair[0], pair[1]], Priority::Merge, log_every));
                } else {
                    next.push(pair[0]);
                }
            }
            tops = next;
        }
        tops[0]
    };
    join(&mut d, tops);
    let mut ps = vec![];
    for _ in 0..plain.max(1) {
        let u = push(&mut d, vec![trunk], Priority::Basic(2), log_every);
        ps.push(push(&mut d, vec![u], Priority::Basic(2), log_every));
    }
    join(&mut d, ps);
    d
}

// ---------------------------------------------------------------------------------- anc-merge family

/// Like `gk::gen_dag`, plus merge commands whose two parents are COMPARABLE (parent/child,
/// a farther ancestor, one side itself a merge) — what a peer can deliver although no honest
/// client creates it (`add_merge` does not check).  `equal`: also merges whose two parents are the
/// same command.  Additive: the shared generator is untouched.
pub fn gen_dag_anc(rng: &mut Rng, p: &DagParams, anc_pct: u64, equal: bool) -> (Dag, usize) {
    let n = rng.range(3, p.max_nodes.max(3) as u64) as usize;
    let mut d = Dag::default();
    let mut made = 0usize;
    d.nodes.push(Node { parents: vec![], prio: Priority::Init, body: vec![Op::Set(0, 0), Op::Append] });
    let dup = |d: &Dag, a: usize, b: usize| d.nodes.iter().any(|n| n.parents.len() == 2 && ((n.parents[0] == a && n.parents[1] == b) || (n.parents[0] == b && n.parents[1] == a)));
    while d.nodes.len() < n || made == 0 {
        if d.nodes.len() > n + 40 {
            break;
        }
        let tips = d.tips();
        let k = d.nodes.len();
        if k >= 2 && rng.chance(anc_pct, 100) {
            let b = rng.range(1, k as u64 - 1) as usize;
            let anc = d.ancestors(b);
            let cands: Vec<usize> = (0..k).filter(|&i| anc[i]).collect();
            let kind = rng.below(if equal { 5 } else { 4 });
            let a = match kind {
                // the direct parent(s)
                0 => Some(*rng.pick(&d.nodes[b].parents)),
                // any proper ancestor
                1 => Some(*rng.pick(&cands)),
                // an ancestor that is itself a merge, if any
                2 => {
                    let ms: Vec<usize> = cands.iter().copied().filter(|&i| d.nodes[i].parents.len() == 2).collect();
                    if ms.is_empty() { None } else { Some(*rng.pick(&ms)) }
                }
                // the descendant side is a merge
                3 => if d.nodes[b].parents.len() == 2 { Some(*rng.pick(&cands)) } else { None },
                _ => Some(b),
            };
            if let Some(a) = a {
                if !dup(&d, a, b) {
                    d.nodes.push(Node { parents: vec![a, b], prio: Priority::Merge, body: vec![] });
                    made += 1;
                    continue;
                }
            }
        }
        if tips.len() >= 2 && rng.chance(p.merge_pct, 100) {
            let a = *rng.pick(&tips);
            let mut b = *rng.pick(&tips);
            if a == b {
                b = tips[(tips.iter().position(|&x| x == a).unwrap() + 1) % tips.len()];
            }
            if !dup(&d, a, b) {
                d.nodes.push(Node { parents: vec![a, b], prio: Priority::Merge, body: vec![] });
                continue;
            }
        }
        let parent = if rng.chance(p.branch_pct, 100) { rng.below(k as u64) as usize } else { *rng.pick(&tips) };
        let mut prio = Priority::Basic(rng.below(p.prios as u64) as u32);
        if rng.chance(p.finalize_pct, 100) {
            let anc = d.ancestors(parent);
            let ok = d.nodes.iter().enumerate().all(|(i, nd)| nd.prio != Priority::Finalize || anc[i] || i == parent);
            if ok || p.allow_parallel_finalize {
                prio = Priority::Finalize;
            }
        }
        let mut body = gen_body(rng, p);
        if !body.contains(&Op::Append) {
            body.push(Op::Append);
        }
        d.nodes.push(Node { parents: vec![parent], prio, body });
    }
    (d, made)
}
