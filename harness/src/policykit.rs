//! "policykit": shared helpers for the C28/C29/C30 harnesses.
//!
//! Builds a REAL `VmPolicy` from harness-generated policy *source text* (real parser, real
//! compiler, real `Machine::from_module`), puts it behind a real `ClientState` over the real
//! in-memory linear storage, and runs actions either through `ClientState::action` (the normal
//! path: transaction, commit, sink begin/commit/rollback) or directly through
//! `Policy::call_action` on a perspective that the harness keeps, so that whatever the VM did to
//! facts and effects before failing stays observable.

use std::borrow::Cow;

use aranya_crypto::{default::DefaultEngine, id::IdExt as _, DeviceId, Rng as CRng};
use aranya_id::BaseId;
use aranya_policy_ast::Version;
use aranya_policy_compiler::Compiler;
use aranya_policy_lang::lang::parse_policy_str;
use aranya_policy_module::Module;
use aranya_policy_vm::{ffi::FfiModule as _, Identifier, KVPair, Machine, Struct, Value};
use aranya_runtime::{
    policy::{ActionPlacement, Policy, PolicyError, PolicyId, PolicyStore, Sink},
    storage::{linear::testing::MemStorageProvider, Query, Storage, StorageProvider},
    vm_policy::testing::TestFfiEnvelope,
    ClientState, GraphId, MemSpill, RuntimeBuffers, VmAction, VmEffect, VmPolicy,
};

use crate::hex;

pub type Eng = DefaultEngine<CRng>;

/// Outcome of the real front end + compiler.
pub enum Compiled {
    ParseError(String),
    Rejected(String),
    Ok(Module),
}

/// Parse (policy language V2, plain text) and compile with the `envelope` test FFI module.
pub fn compile(src: &str, debug: bool) -> Compiled {
    let ast = match parse_policy_str(src, Version::V2) {
        Ok(p) => p,
        Err(e) => return Compiled::ParseError(e.to_string()),
    };
    match Compiler::new(&ast).ffi_modules(&[TestFfiEnvelope::SCHEMA]).debug(debug).compile() {
        Ok(m) => Compiled::Ok(m),
        Err(e) => Compiled::Rejected(e.to_string()),
    }
}

pub fn compile_ok(src: &str, debug: bool) -> Result<Module, String> {
    match compile(src, debug) {
        Compiled::Ok(m) => Ok(m),
        Compiled::ParseError(e) => Err(format!("parse: {e}")),
        Compiled::Rejected(e) => Err(format!("compile: {e}")),
    }
}

/// A policy store holding exactly one `VmPolicy`.
pub struct Store {
    pub policy: VmPolicy<Eng>,
}

impl PolicyStore for Store {
    type Policy = VmPolicy<Eng>;
    type Effect = VmEffect;
    fn add_policy(&mut self, policy: &[u8]) -> Result<PolicyId, PolicyError> {
        Ok(PolicyId::new(policy[0].into()))
    }
    fn get_policy(&self, _id: PolicyId) -> Result<&Self::Policy, PolicyError> {
        Ok(&self.policy)
    }
}

pub fn vm_policy(machine: Machine) -> Result<VmPolicy<Eng>, String> {
    let (eng, _) = DefaultEngine::from_entropy(CRng);
    VmPolicy::new(machine, eng, vec![Box::from(TestFfiEnvelope { device: DeviceId::random(CRng) })])
        .map_err(|e| format!("VmPolicy::new: {e}"))
}

/// One sink event.
#[derive(Clone, Debug, PartialEq, Eq)]
pub enum Ev {
    Begin,
    Effect(VmEffect),
    Rollback,
    Commit,
}

/// A sink that logs everything it is told.
#[derive(Default)]
pub struct LogSink(pub Vec<Ev>);

impl Sink<VmEffect> for LogSink {
    fn begin(&mut self) {
        self.0.push(Ev::Begin);
    }
    fn consume(&mut self, effect: VmEffect) {
        self.0.push(Ev::Effect(effect));
    }
    fn rollback(&mut self) {
        self.0.push(Ev::Rollback);
    }
    fn commit(&mut self) {
        self.0.push(Ev::Commit);
    }
}

impl LogSink {
    pub fn effects(&self) -> Vec<&VmEffect> {
        self.0.iter().filter_map(|e| if let Ev::Effect(x) = e { Some(x) } else { None }).collect()
    }
}

pub type Client = ClientState<Store, MemStorageProvider>;

/// A real client with one graph whose init command was published by the policy's `init` action
/// (the generated policies all contain `command Init` + `action init(nonce int)`).
pub struct World {
    pub cs: Client,
    pub graph: GraphId,
    pub buffers: RuntimeBuffers<<MemStorageProvider as StorageProvider>::Segment>,
    /// a second `VmPolicy` over a clone of the same `Machine` (`ClientState` does not expose its
    /// policy store), used by `act_direct`
    pub direct: VmPolicy<Eng>,
}

fn action<'a>(name: &str, args: &'a [Value]) -> Result<VmAction<'a>, String> {
    let name: Identifier = name.parse().map_err(|_| format!("bad action name {name}"))?;
    Ok(VmAction { name, args: Cow::Borrowed(args) })
}

/// A raw stored fact: (serialized key components, serialized value)
pub type RawFact = (Vec<Vec<u8>>, Vec<u8>);

impl World {
    pub fn new(module: Module) -> Result<World, String> {
        let machine = Machine::from_module(module).map_err(|e| format!("from_module: {e}"))?;
        Self::from_machine(machine)
    }

    pub fn from_machine(machine: Machine) -> Result<World, String> {
        let direct = vm_policy(machine.clone())?;
        let policy = vm_policy(machine)?;
        let mut cs = ClientState::new(Store { policy }, MemStorageProvider::default());
        let mut sink = LogSink::default();
        let args = [Value::Int(0)];
        let graph = cs
            .new_graph(&[0u8], action("init", &args)?, &mut sink)
            .map_err(|e| format!("new_graph: {e}"))?;
        Ok(World { cs, graph, buffers: RuntimeBuffers::new(), direct })
    }

    /// The normal path: `ClientState::action` (commits on success).
    pub fn act(&mut self, name: &str, args: &[Value]) -> (Result<(), String>, LogSink) {
        let mut sink = LogSink::default();
        let a = match action(name, args) {
            Ok(a) => a,
            Err(e) => return (Err(e), sink),
        };
        let r = self
            .cs
            .action(self.graph, &mut sink, a, &mut self.buffers, MemSpill::new)
            .map_err(|e| format!("{e}"));
        (r, sink)
    }

    /// Direct path: `VmPolicy::call_action` on a fresh perspective at the current head that is NOT
    /// written back.  Returns the result, the sink log, and for each fact name in `names` what
    /// the perspective holds afterwards.
    pub fn act_direct(
        &mut self,
        name: &str,
        args: &[Value],
        names: &[String],
    ) -> (Result<(), PolicyError>, LogSink, Vec<Vec<RawFact>>) {
        let mut sink = LogSink::default();
        let a = action(name, args).expect("action name");
        let storage = self.cs.provider().get_storage(self.graph).expect("storage");
        let head = {
            let heads = storage.get_heads().expect("heads");
            let mut it = heads.iter();
            let h = it.next().expect("one head");
            assert!(it.next().is_none(), "single head expected");
            h.location()
        };
        let mut persp = storage.get_linear_perspective(head).expect("perspective");
        let r = self.direct.call_action(a, &mut persp, &mut sink, ActionPlacement::OnGraph);
        let snap = names.iter().map(|n| dump(&persp, n)).collect();
        (r, sink, snap)
    }

    /// All stored facts named `name` at the committed head, in storage order.
    pub fn facts(&mut self, name: &str) -> Vec<RawFact> {
        let storage = self.cs.provider().get_storage(self.graph).expect("storage");
        let idx = storage.fact_cache().expect("fact cache");
        dump(&idx, name)
    }
}

pub fn dump<Q: Query>(q: &Q, name: &str) -> Vec<RawFact> {
    let it = q.query_prefix(name, &[]).expect("query_prefix");
    it.map(|f| {
        let f = f.expect("fact");
        (f.key.iter().map(|c| c.to_vec()).collect(), f.value.to_vec())
    })
    .collect()
}

// ------------------------------------------------------------------ canonical value rendering

pub fn show_value(v: &Value) -> String {
    match v {
        Value::Int(i) => format!("i{i}"),
        Value::Bool(b) => format!("b{}", *b as u8),
        Value::String(s) => format!("s{}", hex(s.as_str().as_bytes())),
        Value::Bytes(b) => format!("y{}", hex(b)),
        Value::Id(id) => format!("d{}", hex(id.as_bytes())),
        Value::Enum(n, i) => format!("e{}.{i}", n),
        Value::Option(None) => "none".into(),
        Value::Option(Some(x)) => format!("some({})", show_value(x)),
        Value::Struct(s) => show_struct(s),
        other => format!("?{other}"),
    }
}

pub fn show_struct(s: &Struct) -> String {
    let fs: Vec<String> = s.fields.iter().map(|(k, v)| format!("{k}={}", show_value(v))).collect();
    format!("{}{{{}}}", s.name, fs.join(","))
}

pub fn show_fields(fs: &[KVPair]) -> String {
    let mut v: Vec<String> = fs.iter().map(|kv| format!("{}={}", kv.key(), show_value(kv.value()))).collect();
    v.sort();
    v.join(",")
}

pub fn id_from(n: &[u8; 32]) -> BaseId {
    BaseId::from_bytes(*n)
}
