"""Per-property configuration for ./check and tools/mkmanifest.py: one JSON file per claimed
property in tools/reg/<id>.json.

Keys:
  title              property title
  props              Lean modules holding the property theorems (built + audited)
  driver             lean_exe name of the model driver (null: no line-protocol correspondence)
  driver_root        Lean module of the driver (for the forbidden-token audit)
  harness            harness binary (harness/src/bin/<name>.rs); null if none
  required_theorems  theorem names that must exist in the props modules (so a property theorem
                     cannot be silently dropped or renamed away)
  technique, design_ref, level_text, level_note, modelled, assumptions, rule, partial
  gen                names of tools/items/<name>.py generators the property depends on (informational)
"""
import json, os, glob

_d = os.path.join(os.path.dirname(os.path.abspath(__file__)), "reg")
REG = {}
for _p in sorted(glob.glob(os.path.join(_d, "C*.json"))):
    REG[os.path.basename(_p)[:-5]] = json.load(open(_p))

NOT_APPLICABLE = {
    "C27": "Panic-freedom of the pest/markdown/serde_yaml front ends and ~6k lines of AST-builder/compiler error paths: a Lean model is total by typing, so the claim is vacuous unless every panic site is transliterated (a re-implementation); fuzzing is a different technique family and is not substituted (DESIGN.md section 8).",
}
