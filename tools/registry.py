"""Per-property configuration for ./check and for tools/mkmanifest.py.

props            Lean modules holding the property theorems (built + audited)
driver           lean_exe name of the model driver (None: no line-protocol correspondence)
driver_root      Lean module of the driver (for the forbidden-token audit)
harness          harness binary (harness/src/bin/<name>.rs)
required_theorems  theorem names that must exist in the props modules (so a property theorem
                 cannot be silently dropped)
"""

COMMON_MODELLED = [
    "rustc/std/alloc collections are modelled (lists, multisets), not verified",
]

REG = {
    "C21": dict(
        title="The traversal queue keeps its ordering and coverage rules",
        props=["AranyaV.Props.C21"], driver="drv_c21", driver_root="Driver.C21", harness="c21",
        required_theorems=["pop_max", "peek_max", "push_rules", "push_dup_count", "pop_dups",
                           "drain_above_spec", "drain_all_spec", "cover_up_to_spec", "reachable_onePerSeg"],
        technique="Lean 4 proof (invariant by induction over operation sequences + decision rules) on a two-region model of TraversalQueue; differential correspondence real-vs-model and real-vs-multiset-oracle",
        design_ref="DESIGN.md 6/C21",
        level_text="Kernel-checked theorems for every queue state and every operation sequence (pop/peek return a maximum, one entry per segment, documented flag rules, exact drain sets, duplicate counts); model tied to the real TraversalQueue by seeded differential runs of the real code against the Lean driver and against a multiset oracle.",
        level_note="Trusted: Lean kernel + propext/Classical.choice/Quot.sound; harness c21 + driver drv_c21; the model keeps the two regions as lists instead of Vec+partition index (index arithmetic of the swaps is covered by the correspondence, not by the theorems); the one-entry-per-segment theorem assumes push_duplicate is not mixed in (true of both call sites).",
        modelled=["Vec<Location> + partition index modelled as two lists (uncovered, covered)"],
        assumptions=["push_duplicate is not mixed with push/push_covered on the same segment"],
        rule="random op sequences (3 modes: dedup pushes; duplicate pushes; both on disjoint segments) over small segment/max-cut alphabets; non-trivial = at least 3 ops; distinct by FNV of the op list",
    ),
}

NOT_APPLICABLE = {
    "C27": "Panic-freedom of the pest/markdown/serde_yaml front ends and ~6k lines of AST-builder/compiler error paths: a Lean model is total by typing, so the claim is vacuous unless every panic site is transliterated (a re-implementation); fuzzing is a different technique family and is not substituted (DESIGN.md section 8).",
}
