#!/usr/bin/env python3
"""Regenerates MANIFEST.json from tools/registry.py (+ not_applicable list)."""
import json, sys, os, subprocess
sys.path.insert(0, os.path.dirname(os.path.abspath(__file__)))
import registry
VERIF = os.path.dirname(os.path.dirname(os.path.abspath(__file__)))
props = [json.loads(l)["id"] for l in open(os.path.join(VERIF, "properties.jsonl"))]
hooks_commits = []
hc = os.path.join(VERIF, "hooks_commits.txt")
if os.path.exists(hc):
    hooks_commits = [l.split()[0] for l in open(hc) if l.strip() and not l.startswith("#")]
checks = []
for pid in props:
    if pid not in registry.REG: continue
    c = registry.REG[pid]
    checks.append({
        "property_id": pid,
        "quick_cmd": f"./check {pid} --tier quick",
        "thorough_cmd": f"./check {pid} --tier thorough",
        "evidence_file": f"/verif/evidence/{pid}.json",
        "replay_cmd_template": f"./check {pid} --replay {{path}}",
        "engine": "lean4-proof+correspondence",
        "level_claimed": {"category": "proof", "text": c["level_text"], "design_ref": c.get("design_ref", "DESIGN.md 6")},
        "level_note": c["level_note"],
        "technique": c["technique"],
    })
na = []
for pid in props:
    if pid in registry.REG: continue
    reason = registry.NOT_APPLICABLE.get(pid) if hasattr(registry, "NOT_APPLICABLE") else None
    na.append({"property_id": pid, "reason": reason or "not yet claimed: model/theorems/correspondence for this property are not built yet (see DESIGN.md section 9, build order)"})
m = {
    "version": 1,
    "setup_cmd": "./setup.sh",
    "hooks": {
        "guard": "--cfg aranya_core_verif",
        "enable": "harness/.cargo/config.toml sets rustflags = [\"--cfg\", \"aranya_core_verif\"]; the harness crate has path dependencies on /repo/crates/* so every check rebuilds them from the working tree",
        "baseline_off_cmd": "cd /repo && cargo nextest run --workspace --no-fail-fast --offline || cargo test --workspace --no-fail-fast --offline",
        "source_commits": hooks_commits,
        "add_only": True,
    },
    "engines": [{
        "name": "lean4-proof+correspondence", "path": "/verif/check",
        "serves_properties": [c["property_id"] for c in checks],
        "kind_free_text": "Lean 4 theorems about executable models (lean/AranyaV), regenerated declarations (tools/extract.py), differential correspondence of the real Rust code against the Lean model driver and an S-level oracle (harness/), failing-input search on any break",
    }],
    "checks": checks,
    "not_applicable": na,
    "notes": "All checks: ./check <id> --tier quick|thorough. See DESIGN.md.",
}
json.dump(m, open(os.path.join(VERIF, "MANIFEST.json"), "w"), indent=1)
print(f"MANIFEST.json: {len(checks)} checks, {len(na)} not claimed")
