#!/usr/bin/env python3
"""
tools/try_seed.py <seeded/<name>> [--props C03,C01] [--tier quick|thorough]

Applies seeded/<name>/patch.diff to a private copy of /repo (never to /repo itself), runs the
named checks against the copy via VERIF_REPO, prints which ones report a VIOLATION, and appends
the outcome to seeded/<name>/trials.json.  The copy and its shadow build tree are removed.
"""
import json, os, subprocess, sys, time, shutil, hashlib
from pathlib import Path

VERIF = Path(__file__).resolve().parent.parent
seed = Path(sys.argv[1]).resolve()
meta = json.loads((seed / "meta.json").read_text())
props = [meta["property"]]
tier = "quick"
a = sys.argv[2:]
while a:
    if a[0] == "--props": props = a[1].split(","); a = a[2:]
    elif a[0] == "--tier": tier = a[1]; a = a[2:]
    else: a = a[1:]
worker = "0"
if "--worker" in sys.argv: worker = sys.argv[sys.argv.index("--worker") + 1]
# one fixed copy per worker: its shadow target dir is reused, so only the patched crate and its
# dependents are rebuilt from one trial to the next
wt = Path(f"/tmp/wt-seed-w{worker}")
rs = subprocess.run(["rsync", "-a", "-i", "--checksum", "--delete", "--exclude", "target", "--exclude", ".git", "/repo/", str(wt) + "/"],
                    check=True, capture_output=True, text=True)
# rsync -a restores the ORIGINAL (old) mtimes of files a previous trial had patched; cargo would then
# consider the crate built from the patched source still fresh.  Give every file rsync rewrote a new
# mtime so that its crate is rebuilt.
for line in rs.stdout.splitlines():
    if line.startswith(">f"):
        f = wt / line.split(" ", 1)[1]
        if f.exists():
            os.utime(f, None)
r = subprocess.run(["git", "apply", "--unsafe-paths", "--directory", str(wt), str(seed / "patch.diff")],
                   cwd="/", capture_output=True, text=True)
if r.returncode != 0:
    # fall back to patch(1)
    r = subprocess.run(["patch", "-p1", "-d", str(wt), "-i", str(seed / "patch.diff")], capture_output=True, text=True)
    if r.returncode != 0:
        print("patch does not apply:", r.stdout, r.stderr); sys.exit(2)
results = []
for p in props:
    t0 = time.time()
    env = dict(os.environ, VERIF_REPO=str(wt), VERIF_TIER=tier)
    r = subprocess.run(["./check", p, "--tier", tier], cwd=VERIF, env=env, capture_output=True, text=True)
    viol = [l for l in r.stdout.splitlines() if l.startswith("VIOLATION")]
    detail = [l for l in r.stdout.splitlines() if l.startswith("  (")][:3]
    results.append({"check": p, "tier": tier, "exit": r.returncode, "violations": viol[:5], "detail": detail,
                    "wall_s": round(time.time() - t0, 1), "tail": r.stdout.splitlines()[-6:]})
    print(f"{seed.name}: check {p} ({tier}) exit={r.returncode} {'CAUGHT' if viol else 'MISSED'} {detail[:1]}")
trials = seed / "trials.json"
old = json.loads(trials.read_text()) if trials.exists() else []
old.append({"at": time.strftime("%Y-%m-%dT%H:%M:%S"), "verif_commit": subprocess.run(["git", "rev-parse", "--short", "HEAD"], cwd=VERIF, capture_output=True, text=True).stdout.strip(), "results": results})
trials.write_text(json.dumps(old, indent=1))
if "--clean" in sys.argv:
    h = hashlib.sha1(str(wt).encode()).hexdigest()[:8]
    shutil.rmtree(VERIF / ".cache" / "shadow" / h, ignore_errors=True)
    shutil.rmtree(wt, ignore_errors=True)
# replays written by shadow runs are not kept
