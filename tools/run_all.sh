#!/bin/sh
# runs every registered check (quick by default) against /repo and prints a one-line summary each
cd "$(dirname "$0")/.."
tier="${1:-quick}"
for f in tools/reg/C*.json; do
  id=$(basename "$f" .json)
  t0=$(date +%s)
  out=$(./check "$id" --tier "$tier" 2>&1)
  rc=$?
  t1=$(date +%s)
  echo "$id rc=$rc $((t1-t0))s $(echo "$out" | grep -c '^VIOLATION') violations :: $(echo "$out" | tail -1 | cut -c1-150)"
done
