"""The items translated from Rust source to Lean declarations (see extract.py)."""
from extract import read, const, eval_int, enum_variants, strip_comments, Fail
import re


def gen_consts():
    out = ["namespace AranyaV.Gen\n"]
    def c(rel, name, lean, env=None):
        src = strip_comments(read(rel))
        v = eval_int(const(src, name, rel), rel, name, env)
        out.append(f"/-- `{name}` in {rel} -/\ndef {lean} : Nat := {v}\n")
        return v
    c("crates/aranya-runtime/src/storage/mod.rs", "QUEUE_CAPACITY", "queueCapacity")
    out.append("end AranyaV.Gen\n")
    return "\n".join(out)


ITEMS = [
    ("Consts", gen_consts),
]
