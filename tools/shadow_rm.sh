#!/bin/sh
# remove the shadow build tree that `VERIF_REPO=<dir> ./check` created for <dir> (and <dir> itself)
d="${1%/}"
h=$(python3 -c "import hashlib,sys; print(hashlib.sha1(sys.argv[1].encode()).hexdigest()[:8])" "$d")
rm -rf "/verif/.cache/shadow/$h" "$d"
echo "removed /verif/.cache/shadow/$h and $d"
