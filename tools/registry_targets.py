#!/usr/bin/env python3
import sys, os
sys.path.insert(0, os.path.dirname(os.path.abspath(__file__)))
import registry
kind = sys.argv[1]
if kind == "lean":
    t = ["AranyaV.Audit.Tool"]
    for v in registry.REG.values():
        t += v["props"]
        if v.get("driver"): t.append(v["driver"])
    print(" ".join(dict.fromkeys(t)))
else:
    bins = dict.fromkeys(v["harness"] for v in registry.REG.values() if v.get("harness"))
    feats = sorted({f for v in registry.REG.values() for f in (v.get("cargo_features") or [])})
    print(" ".join(f"--bin {b}" for b in bins) + (" --features " + ",".join(feats) if feats else ""))
