"""C18: the postcard wire layout of the sync protocol, translated from the Rust type
declarations: every enum's variant order, every struct / struct-variant's field order and field
types become `AranyaV.Postcard.Schema` terms plus index constants (`<Enum>_<Variant>`,
`<Enum>_<Variant>_<field>`) that the model uses to interpret decoded values.  Also the vector
capacities.  Unknown types / missing items are hard failures."""
import re
from extract import read, strip_comments, enum_variants, const, eval_int, Fail

RT = "crates/aranya-runtime/src/"
F_MOD, F_REQ, F_RESP, F_WIRE = RT + "sync/mod.rs", RT + "sync/requester.rs", RT + "sync/responder.rs", RT + "sync/wire.rs"
F_CMD, F_PRIOR, F_STORE, F_U64 = RT + "command.rs", RT + "prior.rs", RT + "storage/mod.rs", RT + "util/u64_le_serde.rs"
F_ID = "crates/aranya-id/src/id.rs"
F_POLICY = "crates/aranya-crypto/src/policy.rs"


def split_top(s):
    out, depth, cur = [], 0, ""
    for ch in s:
        if ch in "({[<": depth += 1
        elif ch in ")}]>": depth -= 1
        if ch == "," and depth == 0:
            out.append(cur.strip()); cur = ""
        else:
            cur += ch
    if cur.strip(): out.append(cur.strip())
    return out


def struct_fields(src, name, rel):
    m = re.search(r"\bstruct\s+" + re.escape(name) + r"\b(?:<[^>]*>)?\s*\{", src)
    if not m:
        raise Fail(f"{rel}: struct {name} not found")
    i = m.end(); depth = 1; j = i
    while depth and j < len(src):
        if src[j] == "{": depth += 1
        elif src[j] == "}": depth -= 1
        j += 1
    body = re.sub(r"#\[[^\]]*\]", "", strip_comments(src[i:j - 1]))
    return parse_fields(body, rel, name)


def parse_fields(body, rel, what):
    fs = []
    for f in split_top(body):
        m = re.fullmatch(r"(?:pub(?:\([^)]*\))?\s+)?(\w+)\s*:\s*(.+)", f, re.S)
        if not m:
            raise Fail(f"{rel}: {what}: cannot parse field `{f}`")
        fs.append((m.group(1), " ".join(m.group(2).split())))
    return fs


class Ctx:
    def __init__(self, consts):
        self.consts = consts

    def ty(self, t, rel):
        t = t.strip()
        t = re.sub(r"^(?:\w+::)+", "", t)            # drop module paths
        prim = {"u16": ".varU 16", "u32": ".varU 32", "u64": ".varU 64", "u128": ".varU 128", "usize": ".varU 64",
                "bool": ".bool", "Duration": ".duration", "GraphId": "idSchema", "CmdId": "idSchema",
                "MaxCut": ".varU 64", "Address": "address", "Priority": "priority", "CommandMeta": "commandMeta",
                "SyncRequestMessage": "syncRequestMessage", "SyncResponseMessage": "syncResponseMessage",
                "SyncHelloType": "syncHelloType"}
        if t in prim:
            return prim[t]
        m = re.fullmatch(r"Vec<(.+),\s*(\{?\s*\w+\s*\}?)>", t)
        if m:
            n = m.group(2).strip("{} ")
            if n not in self.consts:
                raise Fail(f"{rel}: unknown vector capacity `{n}` in `{t}`")
            return f"(.vec {n} ({self.ty(m.group(1), rel)}))"
        m = re.fullmatch(r"Prior<(.+)>", t)
        if m and m.group(1).strip() == "Address":
            return "priorAddress"
        raise Fail(f"{rel}: field type `{t}` is not understood by the wire translator")


def gen():
    src = {r: read(r) for r in (F_MOD, F_REQ, F_RESP, F_WIRE, F_CMD, F_PRIOR, F_STORE, F_U64, F_ID, F_POLICY)}
    clean = {r: strip_comments(s) for r, s in src.items()}
    # --- capacities (the non-`low-mem-usage` values: the harness builds without that feature)
    consts = {}
    for name in ("COMMAND_SAMPLE_MAX", "REQUEST_MISSING_MAX", "COMMAND_RESPONSE_MAX"):
        m = re.search(r'#\[cfg\(not\(feature = "low-mem-usage"\)\)\]\s*(?:pub\s+)?const\s+' + name + r"\s*:\s*usize\s*=\s*([^;]+);", clean[F_MOD])
        if not m:
            raise Fail(f"{F_MOD}: const {name} (not low-mem-usage) not found")
        consts[name] = eval_int(m.group(1).strip(), F_MOD, name)
    for r in (F_REQ, F_RESP, F_WIRE):
        if not re.search(r"^use heapless::Vec;", clean[r], re.M):
            raise Fail(f"{r}: `Vec` is not heapless::Vec")
    # --- ids: length-prefixed bytes of exactly N bytes
    m = re.search(r"pub struct Id<[^>]*>\s*\{\s*bytes:\s*\[u8;\s*(\d+)\]", clean[F_ID])
    if not m or "serializer.serialize_bytes(self.as_bytes())" not in clean[F_ID] or \
            "deserializer.deserialize_bytes(IdVisitor(PhantomData))" not in clean[F_ID]:
        raise Fail(f"{F_ID}: Id is not (de)serialized as `bytes` of a fixed-size array")
    id_len = int(m.group(1))
    if not re.search(r"custom_id!\s*\{[^}]*pub struct GraphId;", clean[F_STORE]):
        raise Fail(f"{F_STORE}: GraphId is not a custom_id!")
    if not re.search(r"custom_id!\s*\{[^}]*pub struct CmdId;", clean[F_POLICY]) or \
            not re.search(r"pub use aranya_crypto::policy::CmdId;", clean[F_CMD]):
        raise Fail(f"{F_POLICY}: CmdId is not a custom_id! re-exported by {F_CMD}")
    # --- MaxCut: transparent u64
    if not re.search(r"#\[serde\(transparent\)\]\s*(?:#\[[^\]]*\]\s*)*pub struct MaxCut\(#\[serde\(with = \"crate::util::u64_le_serde\"\)\] u64_le\);", src[F_STORE]):
        raise Fail(f"{F_STORE}: MaxCut is not a transparent u64_le_serde newtype")
    if "val.to_native().serialize(serializer)" not in clean[F_U64] or "u64::deserialize(deserializer)" not in clean[F_U64]:
        raise Fail(f"{F_U64}: u64_le_serde does not (de)serialize a plain u64")
    cx = Ctx(consts)
    out, idx = [], []

    def emit_struct(lean, rel, rust):
        fs = struct_fields(src[rel], rust, rel)
        out.append(f"/-- `struct {rust}` in {rel}: {', '.join(n + ': ' + t for n, t in fs)} -/")
        out.append(f"def {lean} : Schema := .tuple [{', '.join(cx.ty(t, rel) for _, t in fs)}]")
        for i, (n, _) in enumerate(fs):
            idx.append(f"def {rust}_{n} : Nat := {i}")

    def emit_enum(lean, rel, rust):
        vs = enum_variants(src[rel], rust, rel)
        parts, doc = [], []
        for i, (vn, text) in enumerate(vs):
            idx.append(f"def {rust}_{vn} : Nat := {i}")
            rest = text[len(vn):].strip()
            if not rest:
                parts.append(".tuple []"); doc.append(vn)
            elif rest.startswith("{"):
                fs = parse_fields(rest[1:rest.rindex("}")], rel, f"{rust}::{vn}")
                parts.append(".tuple [" + ", ".join(cx.ty(t, rel) for _, t in fs) + "]")
                for j, (n, _) in enumerate(fs):
                    idx.append(f"def {rust}_{vn}_{n} : Nat := {j}")
                doc.append(vn + " {" + ", ".join(n for n, _ in fs) + "}")
            elif rest.startswith("("):
                ts = split_top(rest[1:rest.rindex(")")])
                if len(ts) == 1:
                    # newtype variant: the payload itself, no tuple framing (same bytes)
                    parts.append(cx.ty(ts[0], rel))
                else:
                    parts.append(".tuple [" + ", ".join(cx.ty(t, rel) for t in ts) + "]")
                doc.append(vn + "(" + ", ".join(ts) + ")")
            else:
                raise Fail(f"{rel}: {rust}::{vn}: cannot parse `{text}`")
        out.append(f"/-- `enum {rust}` in {rel}: {' | '.join(doc)} -/")
        out.append(f"def {lean} : Schema := .enum [\n    " + ",\n    ".join(parts) + "]")
        idx.append(f"def {rust}_variants : Nat := {len(vs)}")

    emit_struct("address", F_CMD, "Address")
    emit_enum("priority", F_CMD, "Priority")
    # Prior<T> instantiated at Address
    vs = enum_variants(src[F_PRIOR], "Prior", F_PRIOR)
    parts = []
    for i, (vn, text) in enumerate(vs):
        idx.append(f"def Prior_{vn} : Nat := {i}")
        rest = text[len(vn):].strip()
        if not rest:
            parts.append(".tuple []")
        else:
            ts = split_top(rest[1:rest.rindex(")")])
            if any(t != "T" for t in ts):
                raise Fail(f"{F_PRIOR}: Prior::{vn}: payload {ts} is not made of `T`")
            parts.append("address" if len(ts) == 1 else ".tuple [" + ", ".join("address" for _ in ts) + "]")
    out.append(f"/-- `enum Prior<T>` in {F_PRIOR} at `T = Address`: {' | '.join(t for _, t in vs)} -/")
    out.append("def priorAddress : Schema := .enum [" + ", ".join(parts) + "]")
    idx.append(f"def Prior_variants : Nat := {len(vs)}")
    emit_struct("commandMeta", F_WIRE, "CommandMeta")
    emit_enum("syncRequestMessage", F_REQ, "SyncRequestMessage")
    emit_enum("syncResponseMessage", F_RESP, "SyncResponseMessage")
    emit_enum("syncHelloType", F_WIRE, "SyncHelloType")
    emit_enum("syncType", F_WIRE, "SyncType")
    emit_enum("subscribeResult", F_WIRE, "SubscribeResult")
    body = "\n".join(out)
    return f"""import AranyaV.Model.Postcard
namespace AranyaV.Gen.SyncWire
open AranyaV.Postcard

/-- capacities of the `heapless::Vec`s on the wire ({F_MOD}, without `low-mem-usage`) -/
def COMMAND_SAMPLE_MAX : Nat := {consts['COMMAND_SAMPLE_MAX']}
def REQUEST_MISSING_MAX : Nat := {consts['REQUEST_MISSING_MAX']}
def COMMAND_RESPONSE_MAX : Nat := {consts['COMMAND_RESPONSE_MAX']}

/-- `aranya_id::Id` (`GraphId`, `CmdId`): serde `bytes` of exactly this many bytes -/
def idLen : Nat := {id_len}
def idSchema : Schema := .bytesN idLen

{body}

/-! variant indices and field positions -/
{chr(10).join(idx)}

end AranyaV.Gen.SyncWire
"""


ITEMS = [("SyncWire", gen)]
