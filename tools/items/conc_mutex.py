"""Translator item for C43: the futex mutex of crates/aranya-fast-channels/src/mutex.rs.

Generates `AranyaV.Gen.ConcMutex`:
  * the three state constants and PASSIVE_SPIN,
  * the *skeleton* of the futex `sys_lock` / `sys_unlock`: the sequence of operations on
    `self.key` (operation name + the first argument(s) as written), in source order, and the
    arms of the `match` in `sys_unlock`.  The model file asserts (`decide`) that the skeleton
    is the one it transliterates, so an edit that changes which value is swapped in, drops the
    wake arm, reorders the operations, … breaks the build instead of leaving a stale model.
"""
import re
from extract import read, strip_comments, Fail

REL = "crates/aranya-fast-channels/src/mutex.rs"


def fn_body(src, header_re, which, rel):
    """body of the `which`-th function whose header matches header_re"""
    ms = list(re.finditer(header_re, src))
    if len(ms) <= which:
        raise Fail(f"{rel}: function #{which} matching {header_re} not found")
    i = src.index("{", ms[which].end() - 1)
    depth, j = 0, i
    while j < len(src):
        if src[j] == "{": depth += 1
        elif src[j] == "}":
            depth -= 1
            if depth == 0: break
        j += 1
    return src[i + 1:j]


def norm(a):
    return re.sub(r"\s+", "", a).replace("Self::", "")


def key_ops(body):
    out = []
    for m in re.finditer(r"(?:self\s*\.\s*key\s*\.\s*(\w+)|\b(futex_wait|futex_wake))\s*\(", body):
        name = m.group(1) or m.group(2)
        # argument text up to the matching parenthesis
        i = m.end(); depth = 1; j = i
        while depth and j < len(body):
            if body[j] == "(": depth += 1
            elif body[j] == ")": depth -= 1
            j += 1
        args = [norm(a) for a in body[i:j - 1].split(",") if norm(a)]
        args = [a for a in args if not a.startswith("Ordering::") and a != "&self.key"]
        out.append(name + "(" + ",".join(args) + ")")
    return out


CAS_FAST = r"self\s*\.\s*key\s*\.\s*compare_exchange\s*\(([^()]*)\)"


def fast_path_role(lock):
    """Control-flow role of the fast-path CAS, independent of the concrete syntax: the canonical
    string `Ok(_)=>return,Err(v)=>v,` means "success: return (lock acquired); failure: the
    observed value initialises `wait`".  Recognised spellings:
        let mut wait = match CAS { Ok(_) => return, Err(v) => v };           (arms in any order)
        let Err(mut wait) = CAS else { return; };
        let mut wait = if let Err(v) = CAS { v } else { return };
    Anything else is emitted verbatim (normalised), so that the comparison in Props/C43 fails."""
    ret = r"return\s*;?"
    pats = [
        r"let\s+mut\s+wait\s*=\s*match\s+" + CAS_FAST + r"\s*\{\s*Ok\(\s*_\s*\)\s*=>\s*return\s*,\s*Err\(\s*(\w+)\s*\)\s*=>\s*\2\s*,?\s*\}\s*;",
        r"let\s+mut\s+wait\s*=\s*match\s+" + CAS_FAST + r"\s*\{\s*Err\(\s*(\w+)\s*\)\s*=>\s*\2\s*,\s*Ok\(\s*_\s*\)\s*=>\s*return\s*,?\s*\}\s*;",
        r"let\s+Err\(\s*mut\s+wait\s*\)\s*=\s*" + CAS_FAST + r"\s*else\s*\{\s*" + ret + r"\s*\}\s*;",
        r"let\s+mut\s+wait\s*=\s*if\s+let\s+Err\(\s*(\w+)\s*\)\s*=\s*" + CAS_FAST + r"\s*\{\s*\1\s*\}\s*else\s*\{\s*" + ret + r"\s*\}\s*;",
    ]
    first_cas = re.search(CAS_FAST, lock)
    if not first_cas:
        raise Fail(f"{REL}: fast-path compare_exchange not found")
    for p in pats:
        m = re.search(p, lock)
        # it must be the FIRST compare_exchange of the function (the fast path)
        if m and m.start() <= first_cas.start() <= m.end():
            return "Ok(_)=>return,Err(v)=>v,"
    m = re.search(r"let[^;]*?" + CAS_FAST + r".*?;", lock, flags=re.S)
    return "unrecognised:" + (norm(m.group(0))[:120].replace('"', "'") if m else "none")


def split_arms(body):
    """[(pattern, expr)] of a match body (top-level arms)"""
    arms, i, n = [], 0, len(body)
    while i < n:
        j = body.find("=>", i)
        if j < 0: break
        pat = body[i:j].strip()
        k = j + 2
        while k < n and body[k].isspace(): k += 1
        depth, e = 0, k
        if k < n and body[k] == "{":
            while e < n:
                if body[e] == "{": depth += 1
                elif body[e] == "}":
                    depth -= 1
                    if depth == 0:
                        e += 1
                        break
                e += 1
        else:
            while e < n:
                if body[e] in "({[": depth += 1
                elif body[e] in ")}]": depth -= 1
                elif body[e] == "," and depth == 0: break
                e += 1
        arms.append((pat, body[k:e].strip()))
        i = e
        while i < n and (body[i].isspace() or body[i] == ","): i += 1
    return arms


def unlock_arms(unlock):
    """What `sys_unlock` does for each value swapped out of the word, in the canonical order
    UNLOCKED, SLEEPING, LOCKED, `_` (the order of arms with distinct constant patterns is
    irrelevant; `_` must be last).  The scrutinee is the result of the swap, either directly
    (`match self.key.swap(..) {`) or through a `let` (`let x = self.key.swap(..); match x {`)."""
    m = re.search(r"match\s+self\s*\.\s*key\s*\.\s*swap\s*\([^()]*\)\s*\{", unlock)
    if not m:
        l = re.search(r"let\s+(\w+)\s*=\s*self\s*\.\s*key\s*\.\s*swap\s*\([^()]*\)\s*;", unlock)
        if l:
            rest = unlock[l.end():]
            m = re.search(r"match\s+" + l.group(1) + r"\s*\{", rest)
            if m: unlock = rest
    if not m:
        return ["unrecognised: no match on the swapped-out value"]
    i = m.end() - 1
    depth, j = 0, i
    while j < len(unlock):
        if unlock[j] == "{": depth += 1
        elif unlock[j] == "}":
            depth -= 1
            if depth == 0: break
        j += 1
    arms = split_arms(unlock[i + 1:j])

    def role(b):
        if "bug!" in b: return "bug"
        if "futex_wake" in b: return "wake"
        if norm(b) in ("{}", "()", "Ok(())", "{Ok(())}"): return "nop"
        return norm(b).replace('"', "'")
    named = [(norm(a), role(b)) for a, b in arms]
    pats = [a for a, _ in named]
    order = ["MUTEX_UNLOCKED", "MUTEX_SLEEPING", "MUTEX_LOCKED", "_"]
    if len(set(pats)) == len(pats) and set(pats) <= set(order) and (("_" not in pats) or pats[-1] == "_"):
        named.sort(key=lambda x: order.index(x[0]))
    return [a + "=>" + r for a, r in named]


def gen():
    raw = read(REL)
    src = strip_comments(raw)
    # drop the verification hook lines (cfg-gated, add-only)
    src = re.sub(r"#\[cfg\(aranya_core_verif\)\]\s*\{.*?\n\s*\}\n", "", src, flags=re.S)
    src = re.sub(r"#\[cfg\(aranya_core_verif\)\]\s*[^\n{]*;\n", "", src)
    consts = {}
    for n in ("MUTEX_UNLOCKED", "MUTEX_LOCKED", "MUTEX_SLEEPING"):
        m = re.search(r"const\s+" + n + r"\s*:\s*u32\s*=\s*(\d+)\s*;", src)
        if not m: raise Fail(f"{REL}: const {n} not found")
        consts[n] = int(m.group(1))
    m = re.search(r"const\s+PASSIVE_SPIN\s*:\s*\w+\s*=\s*([^;]+);", src)
    if not m: raise Fail(f"{REL}: const PASSIVE_SPIN not found")
    from extract import eval_int
    spin = eval_int(m.group(1).strip(), REL, "PASSIVE_SPIN")
    # the futex versions are the second `fn sys_lock` / `fn sys_unlock` (the first are the CAS
    # spinlock fallbacks); identify them by content instead of position
    locks = [fn_body(src, r"fn\s+sys_lock\s*\(\s*&self\s*\)", k, REL) for k in range(len(re.findall(r"fn\s+sys_lock\s*\(", src)))]
    lock = [b for b in locks if "futex_wait" in b]
    unlocks = [fn_body(src, r"fn\s+sys_unlock\s*\(\s*&self\s*\)[^{]*", k, REL) for k in range(len(re.findall(r"fn\s+sys_unlock\s*\(", src)))]
    unlock = [b for b in unlocks if "futex_wake" in b]
    if len(lock) != 1 or len(unlock) != 1:
        raise Fail(f"{REL}: futex sys_lock/sys_unlock not found")
    lock_ops = [o for o in key_ops(lock[0])]
    unlock_ops = [o for o in key_ops(unlock[0])]
    # fast path: `Ok(_) => return, Err(v) => v` binds `wait`
    fast = fast_path_role(lock[0])
    arms = unlock_arms(unlock[0])
    # shape facts the model relies on
    shape = {
        "swap_before_wait": lock[0].index("swap(") < lock[0].index("futex_wait("),
        "wait_set_sleeping": bool(re.search(r"wait\s*=\s*Self::MUTEX_SLEEPING\s*;", lock[0])),
        "swap_returns_if_unlocked": bool(
            re.search(r"swap\(\s*Self::MUTEX_SLEEPING[^)]*\)\s*==\s*Self::MUTEX_UNLOCKED\s*\{\s*return\s*;", lock[0])
            or re.search(r"let\s+(\w+)\s*=\s*self\.key\.swap\(\s*Self::MUTEX_SLEEPING[^)]*\)\s*;\s*"
                         r"if\s+\1\s*==\s*Self::MUTEX_UNLOCKED\s*\{\s*return\s*;", lock[0])),
        "spin_while_unlocked": bool(re.search(r"while\s+self\.key\.load\([^)]*\)\s*==\s*Self::MUTEX_UNLOCKED", lock[0])),
        # the spin round is executed PASSIVE_SPIN times: a `for` over 0..PASSIVE_SPIN or the
        # equivalent counted `while`
        "for_passive_spin": bool(
            re.search(r"for\s+\w+\s+in\s+0\s*\.\.\s*PASSIVE_SPIN\s*\{", lock[0])
            or re.search(r"let\s+mut\s+(\w+)\s*(?::\s*\w+)?\s*=\s*0\s*;\s*while\s+\1\s*<\s*PASSIVE_SPIN\s*\{\s*\1\s*\+=\s*1\s*;", lock[0])),
    }
    q = lambda xs: "[" + ", ".join('"' + x.replace('"', "'") + '"' for x in xs) + "]"
    b = lambda v: "true" if v else "false"
    return (
        "namespace AranyaV.Gen.ConcMutex\n\n"
        f"/-- `MUTEX_UNLOCKED` in {REL} -/\ndef mutexUnlocked : Nat := {consts['MUTEX_UNLOCKED']}\n"
        f"/-- `MUTEX_LOCKED` -/\ndef mutexLocked : Nat := {consts['MUTEX_LOCKED']}\n"
        f"/-- `MUTEX_SLEEPING` -/\ndef mutexSleeping : Nat := {consts['MUTEX_SLEEPING']}\n"
        f"/-- `PASSIVE_SPIN` in the futex `sys_lock` -/\ndef passiveSpin : Nat := {spin}\n\n"
        f"/-- operations on `self.key` in the futex `sys_lock`, in source order -/\ndef lockOps : List String := {q(lock_ops)}\n"
        f"/-- arms of the fast-path `match` -/\ndef fastArms : String := \"{fast}\"\n"
        f"/-- operations on `self.key` in the futex `sys_unlock` -/\ndef unlockOps : List String := {q(unlock_ops)}\n"
        f"/-- arms of the `match` on the swapped-out value in `sys_unlock` -/\ndef unlockArms : List String := {q(arms)}\n"
        f"def swapBeforeWait : Bool := {b(shape['swap_before_wait'])}\n"
        f"def waitSetSleeping : Bool := {b(shape['wait_set_sleeping'])}\n"
        f"def swapReturnsIfUnlocked : Bool := {b(shape['swap_returns_if_unlocked'])}\n"
        f"def spinWhileUnlocked : Bool := {b(shape['spin_while_unlocked'])}\n"
        f"def forPassiveSpin : Bool := {b(shape['for_passive_spin'])}\n"
        "\nend AranyaV.Gen.ConcMutex\n"
    )


ITEMS = [("ConcMutex", gen)]
