"""Translator item for C43: the futex mutex of crates/aranya-fast-channels/src/mutex.rs.

Generates `AranyaV.Gen.ConcMutex`:
  * the three state constants and PASSIVE_SPIN,
  * the *skeleton* of the futex `sys_lock` / `sys_unlock`: the sequence of operations on
    `self.key` (operation name + the first argument(s) as written), in source order, and the
    arms of the `match` in `sys_unlock`.  The model file asserts (`decide`) that the skeleton
    is the one it transliterates, so an edit that changes which value is swapped in, drops the
    wake arm, reorders the operations, … breaks the build instead of leaving a stale model.
"""
import re
from extract import read, strip_comments, Fail

REL = "crates/aranya-fast-channels/src/mutex.rs"


def fn_body(src, header_re, which, rel):
    """body of the `which`-th function whose header matches header_re"""
    ms = list(re.finditer(header_re, src))
    if len(ms) <= which:
        raise Fail(f"{rel}: function #{which} matching {header_re} not found")
    i = src.index("{", ms[which].end() - 1)
    depth, j = 0, i
    while j < len(src):
        if src[j] == "{": depth += 1
        elif src[j] == "}":
            depth -= 1
            if depth == 0: break
        j += 1
    return src[i + 1:j]


def norm(a):
    return re.sub(r"\s+", "", a).replace("Self::", "")


def key_ops(body):
    out = []
    for m in re.finditer(r"(?:self\s*\.\s*key\s*\.\s*(\w+)|\b(futex_wait|futex_wake))\s*\(", body):
        name = m.group(1) or m.group(2)
        # argument text up to the matching parenthesis
        i = m.end(); depth = 1; j = i
        while depth and j < len(body):
            if body[j] == "(": depth += 1
            elif body[j] == ")": depth -= 1
            j += 1
        args = [norm(a) for a in body[i:j - 1].split(",") if norm(a)]
        args = [a for a in args if not a.startswith("Ordering::") and a != "&self.key"]
        out.append(name + "(" + ",".join(args) + ")")
    return out


def gen():
    raw = read(REL)
    src = strip_comments(raw)
    # drop the verification hook lines (cfg-gated, add-only)
    src = re.sub(r"#\[cfg\(aranya_core_verif\)\]\s*\{.*?\n\s*\}\n", "", src, flags=re.S)
    src = re.sub(r"#\[cfg\(aranya_core_verif\)\]\s*[^\n{]*;\n", "", src)
    consts = {}
    for n in ("MUTEX_UNLOCKED", "MUTEX_LOCKED", "MUTEX_SLEEPING"):
        m = re.search(r"const\s+" + n + r"\s*:\s*u32\s*=\s*(\d+)\s*;", src)
        if not m: raise Fail(f"{REL}: const {n} not found")
        consts[n] = int(m.group(1))
    m = re.search(r"const\s+PASSIVE_SPIN\s*:\s*\w+\s*=\s*([^;]+);", src)
    if not m: raise Fail(f"{REL}: const PASSIVE_SPIN not found")
    from extract import eval_int
    spin = eval_int(m.group(1).strip(), REL, "PASSIVE_SPIN")
    # the futex versions are the second `fn sys_lock` / `fn sys_unlock` (the first are the CAS
    # spinlock fallbacks); identify them by content instead of position
    locks = [fn_body(src, r"fn\s+sys_lock\s*\(\s*&self\s*\)", k, REL) for k in range(len(re.findall(r"fn\s+sys_lock\s*\(", src)))]
    lock = [b for b in locks if "futex_wait" in b]
    unlocks = [fn_body(src, r"fn\s+sys_unlock\s*\(\s*&self\s*\)[^{]*", k, REL) for k in range(len(re.findall(r"fn\s+sys_unlock\s*\(", src)))]
    unlock = [b for b in unlocks if "futex_wake" in b]
    if len(lock) != 1 or len(unlock) != 1:
        raise Fail(f"{REL}: futex sys_lock/sys_unlock not found")
    lock_ops = [o for o in key_ops(lock[0])]
    unlock_ops = [o for o in key_ops(unlock[0])]
    # fast path: `Ok(_) => return, Err(v) => v` binds `wait`
    fast = norm(re.search(r"let\s+mut\s+wait\s*=\s*match.*?\{(.*?)\};", lock[0], flags=re.S).group(1)) \
        if re.search(r"let\s+mut\s+wait\s*=\s*match.*?\{(.*?)\};", lock[0], flags=re.S) else None
    if fast is None: raise Fail(f"{REL}: fast path `let mut wait = match …` not found")
    arms = re.findall(r"(Self::MUTEX_\w+|\b_)\s*=>\s*(\{\s*\}|[^,]+,)", unlock[0])
    arms = [norm(a) + "=>" + ("bug" if "bug!" in b else "wake" if "futex_wake" in b else "nop" if norm(b) == "{}" else norm(b)) for a, b in arms]
    # shape facts the model relies on
    shape = {
        "swap_before_wait": lock[0].index("swap(") < lock[0].index("futex_wait("),
        "wait_set_sleeping": bool(re.search(r"wait\s*=\s*Self::MUTEX_SLEEPING\s*;", lock[0])),
        "swap_returns_if_unlocked": bool(re.search(r"swap\(\s*Self::MUTEX_SLEEPING[^)]*\)\s*==\s*Self::MUTEX_UNLOCKED\s*\{\s*return\s*;", lock[0])),
        "spin_while_unlocked": bool(re.search(r"while\s+self\.key\.load\([^)]*\)\s*==\s*Self::MUTEX_UNLOCKED", lock[0])),
        "for_passive_spin": bool(re.search(r"for\s+_\s+in\s+0\s*\.\.\s*PASSIVE_SPIN", lock[0])),
    }
    q = lambda xs: "[" + ", ".join('"' + x.replace('"', "'") + '"' for x in xs) + "]"
    b = lambda v: "true" if v else "false"
    return (
        "namespace AranyaV.Gen.ConcMutex\n\n"
        f"/-- `MUTEX_UNLOCKED` in {REL} -/\ndef mutexUnlocked : Nat := {consts['MUTEX_UNLOCKED']}\n"
        f"/-- `MUTEX_LOCKED` -/\ndef mutexLocked : Nat := {consts['MUTEX_LOCKED']}\n"
        f"/-- `MUTEX_SLEEPING` -/\ndef mutexSleeping : Nat := {consts['MUTEX_SLEEPING']}\n"
        f"/-- `PASSIVE_SPIN` in the futex `sys_lock` -/\ndef passiveSpin : Nat := {spin}\n\n"
        f"/-- operations on `self.key` in the futex `sys_lock`, in source order -/\ndef lockOps : List String := {q(lock_ops)}\n"
        f"/-- arms of the fast-path `match` -/\ndef fastArms : String := \"{fast}\"\n"
        f"/-- operations on `self.key` in the futex `sys_unlock` -/\ndef unlockOps : List String := {q(unlock_ops)}\n"
        f"/-- arms of the `match` on the swapped-out value in `sys_unlock` -/\ndef unlockArms : List String := {q(arms)}\n"
        f"def swapBeforeWait : Bool := {b(shape['swap_before_wait'])}\n"
        f"def waitSetSleeping : Bool := {b(shape['wait_set_sleeping'])}\n"
        f"def swapReturnsIfUnlocked : Bool := {b(shape['swap_returns_if_unlocked'])}\n"
        f"def spinWhileUnlocked : Bool := {b(shape['spin_while_unlocked'])}\n"
        f"def forPassiveSpin : Bool := {b(shape['for_passive_spin'])}\n"
        "\nend AranyaV.Gen.ConcMutex\n"
    )


ITEMS = [("ConcMutex", gen)]
