from extract import read, enum_variants, strip_comments, Fail

REL = "crates/aranya-runtime/src/command.rs"

def gen():
    """`Priority` (derived Ord = declaration order, then payload). Regenerated so that reordering
    or adding variants changes `Priority.cls` and breaks the theorems that depend on the order."""
    src = read(REL)
    vs = enum_variants(src, "Priority", REL)
    names = [n for n, _ in vs]
    if sorted(names) != sorted(["Merge", "Basic", "Finalize", "Init"]):
        raise Fail(f"{REL}: Priority variants changed: {names} (model knows Merge/Basic/Finalize/Init)")
    # derive(Ord) must still be present on the enum
    import re
    m = re.search(r"#\[derive\(([^)]*)\)\]\s*pub enum Priority", strip_comments(src), flags=re.S)
    if not m or "Ord" not in m.group(1):
        raise Fail(f"{REL}: Priority no longer derives Ord")
    lines = ["namespace AranyaV.Gen", "",
             f"/-- `Priority` in {REL}; variant order = derived `Ord` order -/",
             "inductive Priority where"]
    for n, full in vs:
        if "(" in full:
            lines.append(f"  | {n.lower()} (n : Nat)")
        else:
            lines.append(f"  | {n.lower()}")
    lines.append("deriving DecidableEq, Repr, Inhabited")
    lines.append("")
    lines.append("/-- position of the variant in the declaration (major key of the derived order) -/")
    lines.append("def Priority.cls : Priority → Nat")
    for i, (n, full) in enumerate(vs):
        pat = f".{n.lower()} _" if "(" in full else f".{n.lower()}"
        lines.append(f"  | {pat} => {i}")
    lines.append("")
    lines.append("/-- payload (minor key) -/")
    lines.append("def Priority.arg : Priority → Nat")
    for n, full in vs:
        if "(" in full:
            lines.append(f"  | .{n.lower()} n => n")
    lines.append("  | _ => 0")
    lines.append("")
    lines.append("end AranyaV.Gen")
    return "\n".join(lines) + "\n"

ITEMS = [("Priority", gen)]
