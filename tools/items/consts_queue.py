from extract import read, const, eval_int, strip_comments

def gen():
    rel = "crates/aranya-runtime/src/storage/mod.rs"
    v = eval_int(const(strip_comments(read(rel)), "QUEUE_CAPACITY", rel), rel, "QUEUE_CAPACITY")
    return f"namespace AranyaV.Gen\n\n/-- `QUEUE_CAPACITY` in {rel} -/\ndef queueCapacity : Nat := {v}\n\nend AranyaV.Gen\n"

# (Lean module name under AranyaV/Gen, generator)
ITEMS = [("ConstsQueue", gen)]
