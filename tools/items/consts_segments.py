from extract import read, const, eval_int, strip_comments


def gen():
    rel = "crates/aranya-runtime/src/storage/linear/mod.rs"
    v = eval_int(const(strip_comments(read(rel)), "MIN_SKIP_GAP", rel), rel, "MIN_SKIP_GAP")
    return (
        "namespace AranyaV.Gen\n\n"
        f"/-- `MIN_SKIP_GAP` in {rel} -/\n"
        f"def minSkipGap : Nat := {v}\n\n"
        "end AranyaV.Gen\n"
    )


# (Lean module name under AranyaV/Gen, generator)
ITEMS = [("ConstsSegments", gen)]
