"""C29: `KeyType` tags of crates/aranya-runtime/src/vm_policy/io.rs (the byte that `ser_key` writes
between a key's identifier and its value bytes) as written (`tag as u8` = declaration index of a
`#[repr(u8)]` enum without explicit discriminants) and as read back (`KeyType::from_u8` match arms).
Also pins the shape facts the Lean model relies on: the `1 << 63` sign-bit flip in the three
places it occurs for ints and enums, big-endian conversion, and the 8-byte identifier length
prefix.  Anything that cannot be located is a hard failure."""
import re
from extract import read, strip_comments, enum_variants, Fail

REL = "crates/aranya-runtime/src/vm_policy/io.rs"


def gen():
    src = strip_comments(read(REL))
    m = re.search(r"#\[repr\(u8\)\]\s*enum\s+KeyType\b", src)
    if not m:
        raise Fail(f"{REL}: `#[repr(u8)] enum KeyType` not found")
    vs = enum_variants(src, "KeyType", REL)
    names = []
    for n, full in vs:
        if "=" in full:
            raise Fail(f"{REL}: KeyType variant `{full}` has an explicit discriminant (not understood)")
        names.append(n)
    want = ["Int", "Bool", "String", "Id", "Enum"]
    if sorted(names) != sorted(want):
        raise Fail(f"{REL}: KeyType variants are {names}, the model knows {want}")
    ser = {n: i for i, n in enumerate(names)}
    # from_u8 arms
    m = re.search(r"fn from_u8\(val: u8\)\s*->\s*Option<Self>\s*\{\s*Some\(match val\s*\{(.*?)\}\)", src, re.S)
    if not m:
        raise Fail(f"{REL}: KeyType::from_u8 not found")
    de = {}
    for a in re.finditer(r"(\d+|_)\s*=>\s*([^,]+),", m.group(1)):
        pat, rhs = a.group(1), a.group(2).strip()
        if pat == "_":
            if "return None" not in rhs:
                raise Fail(f"{REL}: from_u8 default arm is `{rhs}`, expected `return None`")
            continue
        mm = re.fullmatch(r"Self::(\w+)", rhs)
        if not mm:
            raise Fail(f"{REL}: from_u8 arm `{pat} => {rhs}` not understood")
        de[mm.group(1)] = int(pat)
    if sorted(de) != sorted(want):
        raise Fail(f"{REL}: from_u8 covers {sorted(de)}, expected {sorted(want)}")
    # shape facts
    need = [
        (r"let identifier_len = \(identifier\.len\(\) as u64\)\.to_be_bytes\(\);", "8-byte big-endian identifier length"),
        (r"&HashableValue::Int\(int\)\s*=>\s*\{\s*int_bytes = i64::to_be_bytes\(int \^ \(1 << 63\)\);", "ser_key Int arm: sign-bit flip + big-endian"),
        (r"HashableValue::Enum\(id, value\)\s*=>\s*\{\s*let int_bytes = i64::to_be_bytes\(value \^ \(1 << 63\)\);\s*bytes = \[int_bytes\.as_slice\(\), id\.as_str\(\)\.as_bytes\(\)\]\.concat\(\);", "ser_key Enum arm: flipped value then name"),
        (r"let bytes = if bool \{ &\[1\] \} else \{ &\[0\] \};", "ser_key Bool arm"),
        (r"HashableValue::String\(string\)\s*=>\s*\(KeyType::String, string\.as_str\(\)\.as_bytes\(\)\)", "ser_key String arm"),
        (r"HashableValue::Id\(id\)\s*=>\s*\(KeyType::Id, id\.as_bytes\(\)\)", "ser_key Id arm"),
        (r"\[\s*identifier_len\.as_slice\(\),\s*identifier\.as_bytes\(\),\s*&\[tag as u8\],\s*value_bytes,\s*\]\s*\.concat\(\)", "ser_key layout len ++ identifier ++ tag ++ value"),
        (r"let int = i64::from_be_bytes\(bytes\) \^ \(1 << 63\);", "deser_key Int arm: unflip"),
        (r"let value = i64::from_be_bytes\(\*value_bytes\) \^ \(1 << 63\);", "deser_key Enum arm: unflip"),
    ]
    for pat, what in need:
        if not re.search(pat, src):
            raise Fail(f"{REL}: cannot locate {what}")
    out = ["namespace AranyaV.Gen.FactKeyTags", "",
           f"/-- `tag as u8` of `KeyType` in {REL} (declaration index, `#[repr(u8)]`) -/"]
    for n in want:
        out.append(f"def ser{n} : Nat := {ser[n]}")
    out += ["", "/-- literal arms of `KeyType::from_u8`; every other byte is `invalid tag` -/"]
    for n in want:
        out.append(f"def de{n} : Nat := {de[n]}")
    out += ["", "/-- bit flipped by `ser_key`/`deser_key` for ints and enum values (`1 << 63`) -/",
            "def signBit : Nat := 63", "", "end AranyaV.Gen.FactKeyTags", ""]
    return "\n".join(out)


ITEMS = [("FactKeyTags", gen)]
