"""C29: `KeyType` tags of crates/aranya-runtime/src/vm_policy/io.rs (the byte that `ser_key` writes
between a key's identifier and its value bytes) as written (`tag as u8` = declaration index of a
`#[repr(u8)]` enum without explicit discriminants) and as read back (`KeyType::from_u8` match arms).
Also pins the shape facts the Lean model relies on: the `1 << 63` sign-bit flip in the three
places it occurs for ints and enums, big-endian conversion, and the 8-byte identifier length
prefix.  Anything that cannot be located is a hard failure."""
import re
from extract import read, strip_comments, enum_variants, Fail

REL = "crates/aranya-runtime/src/vm_policy/io.rs"


SIGN_BIT_EXPRS = [r"\(?\s*1(?:_?i64|_?u64)?\s*<<\s*63\s*\)?", r"i64::MIN(?:\s+as\s+u64)?",
                  r"0x8000_?0000_?0000_?0000(?:_?u64|_?i64)?(?:\s+as\s+i64)?", r"\(?\s*1u64\s*<<\s*63\s*\)?\s+as\s+i64"]


def fn_body(src, name):
    m = re.search(r"\bfn\s+" + re.escape(name) + r"\s*\(", src)
    if not m:
        raise Fail(f"{REL}: fn {name} not found")
    # skip the (possibly destructuring) parameter list, then the body starts at the next `{`
    k = m.end(); depth = 1
    while depth and k < len(src):
        if src[k] == "(": depth += 1
        elif src[k] == ")": depth -= 1
        k += 1
    i = src.find("{", k) + 1
    if i <= 0:
        raise Fail(f"{REL}: fn {name} has no body")
    depth = 1; j = i
    while depth and j < len(src):
        if src[j] == "{": depth += 1
        elif src[j] == "}": depth -= 1
        j += 1
    return src[i:j - 1]


def resolve_sign_flip(src):
    """rewrite `x ^ CONST` (CONST a private const equal to the i64 sign bit) and calls of a same-file
    one-argument fn whose whole body is `arg ^ <sign bit>` into the literal form `x ^ (1 << 63)`"""
    # 1. consts equal to the sign bit
    for m in list(re.finditer(r"\bconst\s+(\w+)\s*:\s*(?:i64|u64)\s*=\s*([^;]+);", src)):
        if any(re.fullmatch(p, m.group(2).strip()) for p in SIGN_BIT_EXPRS):
            src = re.sub(r"(?<![\w:])" + re.escape(m.group(1)) + r"\b(?!\s*:)", "(1 << 63)", src)
    # 2. one level of private fns `fn f(a: i64) -> i64 { a ^ (1 << 63) }`
    for m in list(re.finditer(r"(?:pub\(crate\)\s+)?(?:const\s+)?fn\s+(\w+)\s*\(\s*(\w+)\s*:\s*(?:i64|u64)\s*\)\s*->\s*(?:i64|u64)\s*\{\s*([^{}]*?)\s*\}", src)):
        name, arg, body = m.group(1), m.group(2), m.group(3)
        a = re.escape(arg)
        if not (re.fullmatch(a + r"\s*\^\s*\(1 << 63\)", body) or re.fullmatch(r"\(1 << 63\)\s*\^\s*" + a, body)):
            continue
        out, pos = "", 0
        for c in re.finditer(r"(?<![\w.])" + re.escape(name) + r"\(", src):
            if c.start() < pos or src[max(0, c.start() - 3):c.start()].endswith("fn "):
                continue
            i = c.end(); depth = 1; j = i
            while depth and j < len(src):
                if src[j] == "(": depth += 1
                elif src[j] == ")": depth -= 1
                j += 1
            inner = src[i:j - 1].strip()
            inner = inner[1:].strip() if inner.startswith("*") else inner
            out += src[pos:c.start()] + inner + " ^ (1 << 63)"
            pos = j
        src = out + src[pos:]
    return src


def gen():
    src = strip_comments(read(REL))
    m = re.search(r"#\[repr\(u8\)\]\s*enum\s+KeyType\b", src)
    if not m:
        raise Fail(f"{REL}: `#[repr(u8)] enum KeyType` not found")
    vs = enum_variants(src, "KeyType", REL)
    names = []
    for n, full in vs:
        if "=" in full:
            raise Fail(f"{REL}: KeyType variant `{full}` has an explicit discriminant (not understood)")
        names.append(n)
    want = ["Int", "Bool", "String", "Id", "Enum"]
    if sorted(names) != sorted(want):
        raise Fail(f"{REL}: KeyType variants are {names}, the model knows {want}")
    ser = {n: i for i, n in enumerate(names)}
    # from_u8 arms
    m = re.search(r"fn from_u8\(val: u8\)\s*->\s*Option<Self>\s*\{\s*Some\(match val\s*\{(.*?)\}\)", src, re.S)
    if not m:
        raise Fail(f"{REL}: KeyType::from_u8 not found")
    de = {}
    for a in re.finditer(r"(\d+|_)\s*=>\s*([^,]+),", m.group(1)):
        pat, rhs = a.group(1), a.group(2).strip()
        if pat == "_":
            if "return None" not in rhs:
                raise Fail(f"{REL}: from_u8 default arm is `{rhs}`, expected `return None`")
            continue
        mm = re.fullmatch(r"Self::(\w+)", rhs)
        if not mm:
            raise Fail(f"{REL}: from_u8 arm `{pat} => {rhs}` not understood")
        de[mm.group(1)] = int(pat)
    if sorted(de) != sorted(want):
        raise Fail(f"{REL}: from_u8 covers {sorted(de)}, expected {sorted(want)}")
    # shape facts, recognised up to harmless refactors: private consts equal to the sign bit and
    # one level of private (const) fn calls whose body is the flip are resolved first
    norm = resolve_sign_flip(src)
    ser_body = fn_body(norm, "ser_key")
    de_body = fn_body(norm, "deser_key")
    FLIP = r"\^\s*\(1 << 63\)"
    for body, what in ((ser_body, "ser_key"), (de_body, "deser_key")):
        if re.search(r"_le_bytes|_ne_bytes|swap_bytes|rotate_", body):
            raise Fail(f"{REL}: {what} uses a non-big-endian conversion")
    def arm(body, start, stops, what):
        i = body.find(start)
        if i < 0:
            raise Fail(f"{REL}: cannot locate {what}")
        ends = [body.find(x, i + len(start)) for x in stops]
        ends = [e for e in ends if e >= 0]
        return body[i:min(ends)] if ends else body[i:]
    H = "HashableValue::"
    ser_int = arm(ser_body, H + "Int", [H + "Bool"], "ser_key Int arm")
    ser_bool = arm(ser_body, H + "Bool", [H + "String"], "ser_key Bool arm")
    ser_enum = arm(ser_body, H + "Enum", ["identifier_len.as_slice()"], "ser_key Enum arm")
    de_int = arm(de_body, "KeyType::Int =>", ["KeyType::Bool =>"], "deser_key Int arm")
    de_enum = arm(de_body, "KeyType::Enum =>", ["Ok(FactKey"], "deser_key Enum arm")
    need = [
        (ser_body, r"let identifier_len = \(identifier\.len\(\) as u64\)\.to_be_bytes\(\);", "8-byte big-endian identifier length"),
        (ser_int, r"i64::to_be_bytes\(\s*\*?\w+\s*" + FLIP + r"\s*\)", "ser_key Int arm: sign-bit flip + big-endian"),
        (ser_int, r"KeyType::Int\b", "ser_key Int arm: tag"),
        (ser_enum, r"i64::to_be_bytes\(\s*\*?\w+\s*" + FLIP + r"\s*\)", "ser_key Enum arm: sign-bit flip + big-endian"),
        (ser_enum, r"\[\s*\w+\.as_slice\(\),\s*\w+\.as_str\(\)\.as_bytes\(\)\s*\]\s*\.concat\(\)", "ser_key Enum arm: flipped value then name"),
        (ser_enum, r"KeyType::Enum\b", "ser_key Enum arm: tag"),
        (ser_bool, r"if \w+ \{ &\[1\] \} else \{ &\[0\] \}", "ser_key Bool arm"),
        (ser_body, r"HashableValue::String\(\w+\)\s*=>\s*\(KeyType::String, \w+\.as_str\(\)\.as_bytes\(\)\)", "ser_key String arm"),
        (ser_body, r"HashableValue::Id\(\w+\)\s*=>\s*\(KeyType::Id, \w+\.as_bytes\(\)\)", "ser_key Id arm"),
        (ser_body, r"\[\s*identifier_len\.as_slice\(\),\s*identifier\.as_bytes\(\),\s*&\[tag as u8\],\s*value_bytes,\s*\]\s*\.concat\(\)", "ser_key layout len ++ identifier ++ tag ++ value"),
        (de_int, r"i64::from_be_bytes\(\s*\*?\w+\s*\)\s*" + FLIP, "deser_key Int arm: unflip"),
        (de_enum, r"i64::from_be_bytes\(\s*\*?\w+\s*\)\s*" + FLIP, "deser_key Enum arm: unflip"),
    ]
    for body, pat, what in need:
        if not re.search(pat, body):
            raise Fail(f"{REL}: cannot locate {what}")
    out = ["namespace AranyaV.Gen.FactKeyTags", "",
           f"/-- `tag as u8` of `KeyType` in {REL} (declaration index, `#[repr(u8)]`) -/"]
    for n in want:
        out.append(f"def ser{n} : Nat := {ser[n]}")
    out += ["", "/-- literal arms of `KeyType::from_u8`; every other byte is `invalid tag` -/"]
    for n in want:
        out.append(f"def de{n} : Nat := {de[n]}")
    out += ["", "/-- bit flipped by `ser_key`/`deser_key` for ints and enum values (`1 << 63`) -/",
            "def signBit : Nat := 63", "", "end AranyaV.Gen.FactKeyTags", ""]
    return "\n".join(out)


ITEMS = [("FactKeyTags", gen)]
