"""Sync limits (C16/C17): the values compiled into the harness, i.e. the declarations that are
active when the feature `low-mem-usage` is OFF (the harness does not enable it).  Every constant
is declared twice under `#[cfg(feature = "low-mem-usage")]` / `#[cfg(not(feature = ...))]`; an
unconditional declaration is accepted too.  Anything else is a broken tie."""
import re
from extract import read, eval_int, strip_comments, Fail

SYNC = "crates/aranya-runtime/src/sync/mod.rs"
STORAGE = "crates/aranya-runtime/src/storage/mod.rs"


def cfg_const(src, name, rel):
    """expression of `const name` that is active without the feature low-mem-usage"""
    pat = re.compile(
        r"((?:#\[[^\]]*\]\s*)*)(?:pub(?:\([^)]*\))?\s+)?const\s+" + re.escape(name) + r"\s*:\s*[\w:<>]+\s*=\s*([^;]+);")
    found = []
    for m in pat.finditer(src):
        attrs = m.group(1)
        cfgs = re.findall(r"#\[cfg\(([^\]]*)\)\]", attrs)
        if not cfgs:
            found.append(m.group(2).strip())
        elif len(cfgs) == 1 and re.fullmatch(r'not\(\s*feature\s*=\s*"low-mem-usage"\s*\)', cfgs[0].strip()):
            found.append(m.group(2).strip())
        elif len(cfgs) == 1 and re.fullmatch(r'feature\s*=\s*"low-mem-usage"', cfgs[0].strip()):
            pass
        else:
            raise Fail(f"{rel}: const {name} under an unexpected cfg {cfgs}")
    if len(found) != 1:
        raise Fail(f"{rel}: expected exactly one active declaration of const {name}, found {len(found)}")
    return found[0]


def gen():
    sync = strip_comments(read(SYNC))
    sto = strip_comments(read(STORAGE))
    env = {}
    env["MAX_COMMAND_LENGTH"] = eval_int(cfg_const(sto, "MAX_COMMAND_LENGTH", STORAGE), STORAGE, "MAX_COMMAND_LENGTH")
    for n in ["PEER_HEAD_MAX", "COMMAND_SAMPLE_MAX", "COMMAND_RESPONSE_MAX", "SEGMENT_BUFFER_MAX"]:
        env[n] = eval_int(cfg_const(sync, n, SYNC), SYNC, n)
    env["MAX_SYNC_MESSAGE_SIZE"] = eval_int(cfg_const(sync, "MAX_SYNC_MESSAGE_SIZE", SYNC), SYNC,
                                            "MAX_SYNC_MESSAGE_SIZE", env)
    # the model hard-wires two facts about how the limits are used; check them textually
    if not re.search(r"has\s*:\s*Vec<Address,\s*COMMAND_SAMPLE_MAX>", strip_comments(read("crates/aranya-runtime/src/sync/responder.rs"))):
        raise Fail("responder.rs: SyncResponder::has is no longer Vec<Address, COMMAND_SAMPLE_MAX>")
    if not re.search(r"to_send\s*:\s*Vec<Location,\s*SEGMENT_BUFFER_MAX>", strip_comments(read("crates/aranya-runtime/src/sync/responder.rs"))):
        raise Fail("responder.rs: SyncResponder::to_send is no longer Vec<Location, SEGMENT_BUFFER_MAX>")
    out = ["namespace AranyaV.Gen.Sync", ""]
    names = {
        "PEER_HEAD_MAX": "peerHeadMax",
        "COMMAND_SAMPLE_MAX": "commandSampleMax",
        "COMMAND_RESPONSE_MAX": "commandResponseMax",
        "SEGMENT_BUFFER_MAX": "segmentBufferMax",
        "MAX_COMMAND_LENGTH": "maxCommandLength",
        "MAX_SYNC_MESSAGE_SIZE": "maxSyncMessageSize",
    }
    for k, v in names.items():
        rel = STORAGE if k == "MAX_COMMAND_LENGTH" else SYNC
        out.append(f"/-- `{k}` in {rel} (feature `low-mem-usage` off) -/")
        out.append(f"def {v} : Nat := {env[k]}")
        out.append("")
    out.append("end AranyaV.Gen.Sync")
    return "\n".join(out) + "\n"


# (Lean module name under AranyaV/Gen, generator)
ITEMS = [("SyncConsts", gen)]
