"""AFC wire-format constants for C39 (crates/aranya-fast-channels/src/{header.rs,client.rs},
crates/aranya-crypto/src/default.rs):

  * packed sizes of `Header` and `DataHeader` (sum of the field sizes of the `packed!` structs),
  * `Version::V1`, `MsgType::{Data, Control}` discriminants,
  * tag size = `SealKey::<CS>::OVERHEAD` = overhead of the default cipher suite's AEAD
    (third-party value, from a fixed table keyed on the AEAD named in default.rs; the harness
    additionally compares `Client::OVERHEAD` at run time),
  * nonce size of that AEAD (decides `Seq::max`, the sequence number at which opening fails
    with `MessageLimitReached`).
"""
import re
from extract import read, strip_comments, Fail

HDR = "crates/aranya-fast-channels/src/header.rs"
DEF = "crates/aranya-crypto/src/default.rs"

# sizes of the field types of the packed structs
REPR_SIZE = {"u8": 1, "u16": 2, "u32": 4, "u64": 8}
# third-party AEADs: (overhead, nonce size) in bytes
AEADS = {"Aes256Gcm": (16, 12)}


def enum_repr_and_variants(src, name):
    m = re.search(r"#\[repr\((u8|u16|u32|u64)\)\]\s*pub\s+enum\s+" + name + r"\s*\{([^}]*)\}", src)
    if not m:
        raise Fail(f"{HDR}: #[repr(..)] enum {name} not found")
    body = m.group(2)
    vs = {}
    for mm in re.finditer(r"(\w+)\s*=\s*(0x[0-9a-fA-F_]+|[0-9_]+)", body):
        vs[mm.group(1)] = int(mm.group(2).replace("_", ""), 0)
    if not vs:
        raise Fail(f"{HDR}: enum {name} has no explicit discriminants")
    return REPR_SIZE[m.group(1)], vs


def packed_fields(src, name):
    m = re.search(r"packed!\s*\{[^{}]*?struct\s+" + name + r"\s*\{([^}]*)\}", src, flags=re.S)
    if not m:
        raise Fail(f"{HDR}: packed! struct {name} not found")
    body = re.sub(r"#\[[^\]]*\]", "", m.group(1))
    fs = re.findall(r"(?:pub(?:\([^)]*\))?\s+)?(\w+)\s*:\s*(\w+)", body)
    if not fs:
        raise Fail(f"{HDR}: packed! struct {name} has no fields")
    return fs


def gen():
    src = strip_comments(read(HDR))
    vsize, versions = enum_repr_and_variants(src, "Version")
    msize, msgs = enum_repr_and_variants(src, "MsgType")
    # `Seq` wraps a u64 (aranya-crypto afc/keys.rs -> hpke::Seq { seq: u64 })
    keys = strip_comments(read("crates/aranya-crypto/src/afc/keys.rs"))
    if not re.search(r"pub\s+const\s+fn\s+to_u64\s*\(\s*&self\s*\)\s*->\s*u64", keys):
        raise Fail("afc/keys.rs: Seq::to_u64 -> u64 not found")
    sizes = {"Version": vsize, "MsgType": msize, "Seq": 8}

    def size_of(struct):
        total = 0
        for fname, ftype in packed_fields(src, struct):
            if ftype not in sizes:
                raise Fail(f"{HDR}: {struct}.{fname}: unknown field type {ftype}")
            total += sizes[ftype]
        return total

    header = size_of("Header")
    data_header = size_of("DataHeader")
    fields = [f for f, _ in packed_fields(src, "DataHeader")]
    if fields != ["seq"]:
        raise Fail(f"{HDR}: DataHeader fields are {fields}, the model knows only [seq]")
    if "V1" not in versions or set(msgs) != {"Data", "Control"}:
        raise Fail(f"{HDR}: unexpected Version/MsgType variants {versions} {msgs}")
    d = strip_comments(read(DEF))
    m = re.search(r"type\s+Aead\s*=\s*(?:\w+::)*(\w+)\s*;", d)
    if not m:
        raise Fail(f"{DEF}: `type Aead = ...;` not found")
    if m.group(1) not in AEADS:
        raise Fail(f"{DEF}: default AEAD {m.group(1)} not in the translator's table")
    tag, nonce = AEADS[m.group(1)]
    # Seq::max::<N>() = 2^(8N)-1 saturated to u64::MAX
    seq_max = min(2 ** (8 * nonce) - 1, 2 ** 64 - 1)
    cl = strip_comments(read("crates/aranya-fast-channels/src/client.rs"))
    if not re.search(r"TAG_SIZE\s*\.\s*checked_add\s*\(\s*DataHeader::PACKED_SIZE\s*\)", cl):
        raise Fail("client.rs: OVERHEAD is no longer TAG_SIZE + DataHeader::PACKED_SIZE")
    if not re.search(r"const\s+TAG_SIZE\s*:\s*usize\s*=\s*SealKey::<S::CipherSuite>::OVERHEAD", cl):
        raise Fail("client.rs: TAG_SIZE is no longer SealKey::OVERHEAD")
    # layout of the additional data `AuthData::to_bytes` (afc/keys.rs): version (u32 LE) ‖ label id
    kb = fn_body(keys, "to_bytes", "crates/aranya-crypto/src/afc/keys.rs", within="AuthData")
    mv = re.search(r"LittleEndian::write_u32\(\s*&mut\s+b\[(\d+)\.\.(\d+)\]\s*,\s*self\.version\s*\)", kb)
    ml = re.search(r"b\[(\d+)\.\.\]\s*\.copy_from_slice\(\s*self\.label_id\.as_bytes\(\)\s*\)", kb)
    if not mv or not ml:
        raise Fail("afc/keys.rs: AuthData::to_bytes is no longer `write_u32(&mut b[a..b], version); b[c..].copy_from_slice(label)`")
    ad_voff, ad_vend, ad_loff = int(mv.group(1)), int(mv.group(2)), int(ml.group(1))
    ma = re.search(r"packed!\s*\{[^{}]*?struct\s+AuthData\s*\{([^}]*)\}", keys, flags=re.S)
    if not ma:
        raise Fail("afc/keys.rs: packed! struct AuthData not found")
    ad_fields = re.findall(r"pub\s+(\w+)\s*:\s*(\w+)", re.sub(r"#\[[^\]]*\]", "", ma.group(1)))
    if ad_fields != [("version", "u32"), ("label_id", "LabelId")]:
        raise Fail(f"afc/keys.rs: AuthData fields are {ad_fields}")
    id_size = 32  # custom_id! ids are 32 bytes (aranya-id `Id { bytes: [u8; 32] }`)
    idsrc = strip_comments(read("crates/aranya-id/src/id.rs"))
    if not re.search(r"from_bytes\(bytes:\s*\[u8;\s*32\]\)", idsrc):
        raise Fail("aranya-id: Id::from_bytes([u8; 32]) not found")
    ad_size = 4 + id_size
    return f"""namespace AranyaV.Gen.Afc

/-- `AuthData::to_bytes` ({"crates/aranya-crypto/src/afc/keys.rs"}): the version occupies bytes
`[adVersionOff, adVersionEnd)` (u32 LE), the label id starts at `adLabelOff` and runs to the end of
the `AuthData::PACKED_SIZE = adSize` buffer -/
def adVersionOff : Nat := {ad_voff}
def adVersionEnd : Nat := {ad_vend}
def adLabelOff : Nat := {ad_loff}
def adSize : Nat := {ad_size}
def labelIdSize : Nat := {id_size}

/-- `Header::PACKED_SIZE` ({HDR}) -/
def headerSize : Nat := {header}
/-- `DataHeader::PACKED_SIZE` ({HDR}): the little-endian sequence number -/
def dataHeaderSize : Nat := {data_header}
/-- `Version::V1` -/
def versionV1 : Nat := {versions['V1']}
/-- all `Version` discriminants -/
def versions : List Nat := {sorted(versions.values())}
/-- `MsgType::Data` / `MsgType::Control` -/
def msgTypeData : Nat := {msgs['Data']}
def msgTypeControl : Nat := {msgs['Control']}
/-- `Client::TAG_SIZE` = overhead of `{m.group(1)}` ({DEF}) -/
def tagSize : Nat := {tag}
/-- `Seq::max::<NonceSize>()` for the {nonce}-byte nonce of `{m.group(1)}` -/
def seqMax : Nat := {seq_max}

end AranyaV.Gen.Afc
"""


# --------------------------------------------------------------------------------------------
# Panic-site inventory (DESIGN.md 3.3) for the functions the C39 model transliterates.
# A panic-capable construct = unwrap/expect/panic!/unreachable!/todo!/unimplemented!/assert*!,
# an index expression `x[..]`, or an unchecked binary `+ - *` on values (rustfmt spacing).
# Each function must contain exactly the sites listed here, each of which has an explicit
# outcome in the model (`hostPanic` via `csub`/the `usizeMax` test, shown unreachable by
# `seal_no_panic`).  `bug!`/`assume(..)?` return `Err(Bug)`, they do not panic.
CLIENT = "crates/aranya-fast-channels/src/client.rs"
INVENTORY = {
    (CLIENT, "seal"): [],
    (CLIENT, "seal_in_place"): ["+ Self::OVERHEAD", "- Self::TAG_SIZE"],
    (CLIENT, "do_seal"): [],
    (CLIENT, "open"): [],
    (CLIENT, "open_in_place"): [],
    (CLIENT, "do_open"): [],
    (HDR, "DataHeader::try_parse"): [],
}
SITE = re.compile(
    r"\.unwrap\(|\.expect\(|\bpanic!|\bunreachable!|\btodo!|\bunimplemented!|\bassert(?:_eq|_ne)?!"
    r"|\bdebug_assert(?:_eq|_ne)?!"
    r"|[\w\)\]]\[[^\]]*\]"          # index expression
    r"|(?<=[\w\)\]]) [-+*] (?=[\w\(])[\w:]+(?:\(\))?"   # binary arithmetic
)


def fn_body(src, name, rel, within=None):
    """text of `fn name(..) {..}` (optionally inside `impl within {..}`)"""
    start = 0
    if within:
        m = re.search(r"\bimpl\s+" + re.escape(within) + r"\s*\{", src)
        if not m:
            raise Fail(f"{rel}: impl {within} not found")
        start = m.end()
    m = re.compile(r"\bfn\s+" + re.escape(name) + r"\s*[<(]").search(src, start)
    if not m:
        raise Fail(f"{rel}: fn {name} not found")
    i = src.find("{", m.end())
    # skip a `where` clause / return type: the body is the first `{` at paren depth 0
    depth_par, j = 0, m.end() - 1
    while j < len(src):
        ch = src[j]
        if ch in "(<" and not (ch == "<" and src[j - 1] == " "):
            depth_par += 1 if ch == "(" else 0
        elif ch == ")":
            depth_par -= 1
        elif ch == "{" and depth_par == 0:
            i = j
            break
        j += 1
    depth, k = 0, i
    while k < len(src):
        if src[k] == "{":
            depth += 1
        elif src[k] == "}":
            depth -= 1
            if depth == 0:
                return src[i:k + 1]
        k += 1
    raise Fail(f"{rel}: unbalanced braces in fn {name}")


def gen_sites():
    rows = []
    cache = {}
    for (rel, fn), want in INVENTORY.items():
        src = cache.setdefault(rel, strip_comments(read(rel)))
        if "::" in fn:
            within, name = fn.split("::")
            body = fn_body(src, name, rel, within=within)
        else:
            body = fn_body(src, fn, rel)
        # attributes and string literals are not code
        body = re.sub(r"#\[[^\]]*\]", "", body)
        body = re.sub(r'"(?:[^"\\]|\\.)*"', '""', body)
        got = [re.sub(r"\s+", " ", m.group(0)).strip() for m in SITE.finditer(body)]
        if got != want:
            raise Fail(f"{rel}: panic-site inventory of fn {fn} changed: found {got}, inventory has {want} "
                       f"(update the C39 model and tools/items/consts_afc.py)")
        rows.append((rel, fn, want))
    lines = ["namespace AranyaV.Gen.Afc", "",
             "/-- panic-capable constructs found in the functions the C39 model transliterates",
             "(file, function, sites); checked against the committed inventory on every run -/",
             "def panicSites : List (String × String × List String) := ["]
    for i, (rel, fn, want) in enumerate(rows):
        ws = ", ".join('"' + w + '"' for w in want)
        lines.append(f'  ("{rel}", "{fn}", [{ws}])' + ("," if i + 1 < len(rows) else ""))
    lines += ["]", "", "end AranyaV.Gen.Afc", ""]
    return "\n".join(lines)


ITEMS = [("ConstsAfc", gen), ("PanicSitesAfc", gen_sites)]
