"""AFC wire-format constants for C39 (crates/aranya-fast-channels/src/{header.rs,client.rs},
crates/aranya-crypto/src/default.rs):

  * packed sizes of `Header` and `DataHeader` (sum of the field sizes of the `packed!` structs),
  * `Version::V1`, `MsgType::{Data, Control}` discriminants,
  * tag size = `SealKey::<CS>::OVERHEAD` = overhead of the default cipher suite's AEAD
    (third-party value, from a fixed table keyed on the AEAD named in default.rs; the harness
    additionally compares `Client::OVERHEAD` at run time),
  * nonce size of that AEAD (decides `Seq::max`, the sequence number at which opening fails
    with `MessageLimitReached`).
"""
import re
from extract import read, strip_comments, Fail

HDR = "crates/aranya-fast-channels/src/header.rs"
DEF = "crates/aranya-crypto/src/default.rs"

# sizes of the field types of the packed structs
REPR_SIZE = {"u8": 1, "u16": 2, "u32": 4, "u64": 8}
# third-party AEADs: (overhead, nonce size) in bytes
AEADS = {"Aes256Gcm": (16, 12)}


def enum_repr_and_variants(src, name):
    m = re.search(r"#\[repr\((u8|u16|u32|u64)\)\]\s*pub\s+enum\s+" + name + r"\s*\{([^}]*)\}", src)
    if not m:
        raise Fail(f"{HDR}: #[repr(..)] enum {name} not found")
    body = m.group(2)
    vs = {}
    for mm in re.finditer(r"(\w+)\s*=\s*(0x[0-9a-fA-F_]+|[0-9_]+)", body):
        vs[mm.group(1)] = int(mm.group(2).replace("_", ""), 0)
    if not vs:
        raise Fail(f"{HDR}: enum {name} has no explicit discriminants")
    return REPR_SIZE[m.group(1)], vs


def packed_fields(src, name):
    m = re.search(r"packed!\s*\{[^{}]*?struct\s+" + name + r"\s*\{([^}]*)\}", src, flags=re.S)
    if not m:
        raise Fail(f"{HDR}: packed! struct {name} not found")
    body = re.sub(r"#\[[^\]]*\]", "", m.group(1))
    fs = re.findall(r"(?:pub(?:\([^)]*\))?\s+)?(\w+)\s*:\s*(\w+)", body)
    if not fs:
        raise Fail(f"{HDR}: packed! struct {name} has no fields")
    return fs


def gen():
    src = strip_comments(read(HDR))
    vsize, versions = enum_repr_and_variants(src, "Version")
    msize, msgs = enum_repr_and_variants(src, "MsgType")
    # `Seq` wraps a u64 (aranya-crypto afc/keys.rs -> hpke::Seq { seq: u64 })
    keys = strip_comments(read("crates/aranya-crypto/src/afc/keys.rs"))
    if not re.search(r"pub\s+const\s+fn\s+to_u64\s*\(\s*&self\s*\)\s*->\s*u64", keys):
        raise Fail("afc/keys.rs: Seq::to_u64 -> u64 not found")
    sizes = {"Version": vsize, "MsgType": msize, "Seq": 8}

    def size_of(struct):
        total = 0
        for fname, ftype in packed_fields(src, struct):
            if ftype not in sizes:
                raise Fail(f"{HDR}: {struct}.{fname}: unknown field type {ftype}")
            total += sizes[ftype]
        return total

    header = size_of("Header")
    data_header = size_of("DataHeader")
    fields = [f for f, _ in packed_fields(src, "DataHeader")]
    if fields != ["seq"]:
        raise Fail(f"{HDR}: DataHeader fields are {fields}, the model knows only [seq]")
    if "V1" not in versions or set(msgs) != {"Data", "Control"}:
        raise Fail(f"{HDR}: unexpected Version/MsgType variants {versions} {msgs}")
    d = strip_comments(read(DEF))
    m = re.search(r"type\s+Aead\s*=\s*(?:\w+::)*(\w+)\s*;", d)
    if not m:
        raise Fail(f"{DEF}: `type Aead = ...;` not found")
    if m.group(1) not in AEADS:
        raise Fail(f"{DEF}: default AEAD {m.group(1)} not in the translator's table")
    tag, nonce = AEADS[m.group(1)]
    # Seq::max::<N>() = 2^(8N)-1 saturated to u64::MAX
    seq_max = min(2 ** (8 * nonce) - 1, 2 ** 64 - 1)
    cl = strip_comments(read("crates/aranya-fast-channels/src/client.rs"))
    if not re.search(r"TAG_SIZE\s*\.\s*checked_add\s*\(\s*DataHeader::PACKED_SIZE\s*\)", cl):
        raise Fail("client.rs: OVERHEAD is no longer TAG_SIZE + DataHeader::PACKED_SIZE")
    if not re.search(r"const\s+TAG_SIZE\s*:\s*usize\s*=\s*SealKey::<S::CipherSuite>::OVERHEAD", cl):
        raise Fail("client.rs: TAG_SIZE is no longer SealKey::OVERHEAD")
    return f"""namespace AranyaV.Gen.Afc

/-- `Header::PACKED_SIZE` ({HDR}) -/
def headerSize : Nat := {header}
/-- `DataHeader::PACKED_SIZE` ({HDR}): the little-endian sequence number -/
def dataHeaderSize : Nat := {data_header}
/-- `Version::V1` -/
def versionV1 : Nat := {versions['V1']}
/-- all `Version` discriminants -/
def versions : List Nat := {sorted(versions.values())}
/-- `MsgType::Data` / `MsgType::Control` -/
def msgTypeData : Nat := {msgs['Data']}
def msgTypeControl : Nat := {msgs['Control']}
/-- `Client::TAG_SIZE` = overhead of `{m.group(1)}` ({DEF}) -/
def tagSize : Nat := {tag}
/-- `Seq::max::<NonceSize>()` for the {nonce}-byte nonce of `{m.group(1)}` -/
def seqMax : Nat := {seq_max}

end AranyaV.Gen.Afc
"""


ITEMS = [("ConstsAfc", gen)]
