"""C38: AFC unidirectional channel keys: the fixed `Info` layout and how `UniChannel::info()` fills
it, the HPKE calls of `UniSecrets::new` / `from_author_secret` / `from_peer_encap` (auth mode, whose
key is sender / recipient, info), the `seal_id == open_id` refusals, and the role checks and
`UniChannel` construction of `Handler::uni_channel_created` / `uni_channel_received`."""
import re
from extract import read, strip_comments, Fail
from crypto_c34 import lean_bytes, fn_body, advisory, advisory_comment, lean_bool, ADVISORY
from crypto_c37 import struct_fields, width


def gen():
    n0 = len(ADVISORY)
    L = ["namespace AranyaV.Gen.C38", ""]
    rel = "crates/aranya-crypto/src/afc/uni.rs"
    src = strip_comments(read(rel))
    fs = struct_fields(src, "Info", rel)
    if fs[0][0] != "domain":
        raise Fail(f"{rel}: Info: first field is not `domain`")
    ib = fn_body(src, "info", rel)
    m = re.search(r'Info\s*\{\s*domain:\s*\*b"([^"]*)"\s*,(.*?)\}', ib, flags=re.S)
    if not m:
        raise Fail(f"{rel}: UniChannel::info(): `Info {{ domain: *b\"..\", .. }}` not found")
    dom = m.group(1).encode()
    if width(fs[0][1], rel, "Info") != len(dom):
        raise Fail(f"{rel}: Info.domain width != len({dom!r})")
    fill = dict(re.findall(r"(\w+)\s*:\s*self\.(\w+)", m.group(2)))
    names = {"parent_cmd_id": "parent", "seal_id": "sealId", "open_id": "openId", "label_id": "label"}
    lay = []
    for n, t in fs[1:]:
        if n not in names:
            raise Fail(f"{rel}: Info: unknown field {n}")
        if fill.get(n) != n:
            raise Fail(f"{rel}: UniChannel::info(): Info.{n} is filled from self.{fill.get(n)}")
        lay.append((names[n], width(t, rel, "Info")))
    L += [f"/-- `afc::uni::Info` in {rel}: domain `{dom.decode()}` then fixed-width ids, each filled from the",
          "same-named `UniChannel` field -/",
          f"def uniDomain : List UInt8 := {lean_bytes(dom)}",
          "inductive ChanField where | parent | sealId | openId | label",
          "deriving DecidableEq, Repr",
          "def uniLayout : List (ChanField × Nat) := [" + ", ".join(f"(.{n}, {w})" for n, w in lay) + "]", ""]
    s = re.sub(r"\s+", "", src)
    same = "ifch.seal_id==ch.open_id{returnErr(Error::same_device_id());}"
    if s.count(same) < 3:
        advisory(f"{rel}: the literal `seal_id == open_id` refusal was not found three times (UniSecrets::new / from_author_secret / from_peer_encap)")
    nb = re.sub(r"\s+", "", fn_body(src, "new", rel))
    if "hpke::setup_send_deterministically::<CS>(Mode::Auth(&author_sk.sk),&peer_pk.pk,[ch.info().as_bytes()],root_sk.clone().into_inner(),)?" not in nb \
            or "letauthor_sk=ch.our_sk;letpeer_pk=ch.their_pk;" not in nb:
        advisory(f"{rel}: UniSecrets::new is not literally setup_send_deterministically(Auth(our_sk), their_pk, [info], root)")
    ab = re.sub(r"\s+", "", fn_body(src, "from_author_secret", rel))
    if "hpke::setup_send_deterministically::<CS>(Mode::Auth(&author_sk.sk),&peer_pk.pk,[ch.info().as_bytes()],secret.sk.into_inner(),)?" not in ab \
            or "letauthor_sk=ch.our_sk;letpeer_pk=ch.their_pk;" not in ab:
        advisory(f"{rel}: from_author_secret is not literally setup_send_deterministically(Auth(our_sk), their_pk, [info], secret)")
    pb = re.sub(r"\s+", "", fn_body(src, "from_peer_encap", rel))
    if "hpke::setup_recv::<CS>(Mode::Auth(&author_pk.pk),enc.as_inner(),&peer_sk.sk,[ch.info().as_bytes()],)?" not in pb \
            or "letpeer_sk=ch.our_sk;letauthor_pk=ch.their_pk;" not in pb:
        advisory(f"{rel}: from_peer_encap is not literally setup_recv(Auth(their_pk), enc, our_sk, [info])")
    uni_ok = len(ADVISORY) == n0
    L += ["/-- `UniSecrets::new` / `from_author_secret` = HPKE auth `setup_send_deterministically(skS = our_sk,",
          "pkR = their_pk, info = Info, skE = root secret)`; `from_peer_encap` = `setup_recv(pkS = their_pk, enc,",
          "skR = our_sk, info = Info)`; all three refuse `seal_id == open_id` (advisory literal comparison with " + rel + ";",
          "the harness decides the behaviour) -/",
          f"def uniShape : Bool := {lean_bool(uni_ok)}", ""]
    n_h = len(ADVISORY)
    # ---- handler
    rel = "crates/aranya-afc-util/src/handler.rs"
    src = strip_comments(read(rel))
    cb = re.sub(r"\s+", "", fn_body(src, "uni_channel_created", rel))
    rb = re.sub(r"\s+", "", fn_body(src, "uni_channel_received", rel))
    if not cb.startswith("{ifself.device_id==effect.open_id{returnErr(Error::AuthorMustBeSealer);}"):
        advisory(f"{rel}: uni_channel_created does not literally start with the `device_id == open_id` refusal")
    if not rb.startswith("{ifeffect.seal_id==self.device_id{returnErr(Error::AuthorMustBeSealer);}"):
        advisory(f"{rel}: uni_channel_received does not literally start with the `seal_id == device_id` refusal")
    if "letch=UniChannel{parent_cmd_id:effect.parent_cmd_id,seal_id:self.device_id,open_id:effect.open_id,our_sk,their_pk,label_id:effect.label_id,};UniKey::new(&ch,secret,UniKey::SealOnly)" not in cb:
        advisory(f"{rel}: uni_channel_created: literal UniChannel construction / SealOnly not found")
    if "letch=UniChannel{parent_cmd_id:effect.parent_cmd_id,seal_id:effect.seal_id,open_id:self.device_id,our_sk,their_pk,label_id:effect.label_id,};UniKey::new(&ch,encap,UniKey::OpenOnly)" not in rb:
        advisory(f"{rel}: uni_channel_received: literal UniChannel construction / OpenOnly not found")
    L += ["/-- `Handler::uni_channel_created`: refuse `device == open_id`, channel with `seal_id := device`, SealOnly;",
          "`uni_channel_received`: refuse `seal_id == device`, channel with `open_id := device`, OpenOnly",
          "(advisory literal comparison with " + rel + "; the harness drives the real Handler in both roles) -/",
          f"def handlerShape : Bool := {lean_bool(len(ADVISORY) == n_h)}", ""] + advisory_comment(n0) + ["", "end AranyaV.Gen.C38"]
    return "\n".join(L) + "\n"


ITEMS = [("CryptoC38", gen)]
