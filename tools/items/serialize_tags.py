"""C26: wire tags of aranya-policy-vm/src/serialize.rs (option/result tags on both the
serializer and the deserializer side, ID_SIZE, the integer width used for ints/enums) and the
size of `aranya_id::Id`'s byte array.  Anything that cannot be located is a hard failure."""
import re
from extract import read, strip_comments, Fail

REL = "crates/aranya-policy-vm/src/serialize.rs"
REL_ID = "crates/aranya-id/src/id.rs"


def _one(pat, src, what, flags=re.S):
    m = re.search(pat, src, flags)
    if not m:
        raise Fail(f"{REL}: cannot locate {what}")
    return m


def _arms(block, what):
    """literal-pattern match arms `<int> => <expr>` of a `match tag { ... }` block.
    Every arm must be a single integer literal or `_`; alternatives (`1 | 2`), ranges or guards
    are not understood and break the tie."""
    arms = []
    for m in re.finditer(r"(?:^|[{,\n])\s*([^=\n{},]+?)\s*=>\s*([^\n]*)", block):
        pat, rhs = m.group(1).strip(), m.group(2).strip()
        if pat == "_":
            arms.append(("_", rhs)); continue
        if not re.fullmatch(r"\d+", pat):
            raise Fail(f"{REL}: {what}: match arm pattern `{pat}` is not a single literal")
        arms.append((int(pat), rhs))
    return arms


def _match_block(src, start, what):
    i = src.find("match tag", start)
    if i < 0:
        raise Fail(f"{REL}: {what}: `match tag` not found")
    j = src.find("{", i)
    depth, k = 1, j + 1
    while depth and k < len(src):
        if src[k] == "{": depth += 1
        elif src[k] == "}": depth -= 1
        k += 1
    return src[j + 1:k - 1]


def gen():
    src = strip_comments(read(REL))
    # --- serializer side: Value::Option / Value::Result arms push one literal byte each
    m = _one(r"Value::Option\(x\)\s*=>\s*match x\s*\{\s*None\s*=>\s*\{\s*self\.out\.push\((\d+)\);\s*\}\s*"
             r"Some\(x\)\s*=>\s*\{\s*self\.out\.push\((\d+)\);\s*self\.serialize_value\(x\)\?;\s*\}",
             src, "serializer Option arms")
    s_none, s_some = int(m.group(1)), int(m.group(2))
    m = _one(r"Value::Result\(x\)\s*=>\s*match x\s*\{\s*Ok\(x\)\s*=>\s*\{\s*self\.out\.push\((\d+)\);\s*"
             r"self\.serialize_value\(x\)\?;\s*\}\s*Err\(x\)\s*=>\s*\{\s*self\.out\.push\((\d+)\);\s*"
             r"self\.serialize_value\(x\)\?;\s*\}", src, "serializer Result arms")
    s_ok, s_err = int(m.group(1)), int(m.group(2))
    _one(r"Value::Id\(x\)\s*=>\s*\{\s*self\.out\.push\(ID_SIZE\);\s*self\.out\.extend_from_slice\(x\.as_bytes\(\)\);",
         src, "serializer Id arm (push ID_SIZE then the bytes)")
    _one(r"Value::Int\(x\)\s*=>\s*postcard_core::ser::try_push_i64\(", src, "Int serialized as i64")
    _one(r"Value::Enum\(_,\s*x\)\s*=>\s*postcard_core::ser::try_push_i64\(", src, "Enum serialized as i64")
    # --- deserializer side
    i = _one(r"TypeKind::Optional\(vtype\)\s*=>\s*\{", src, "deserializer Optional arm").end()
    arms = _arms(_match_block(src, i, "Optional"), "Optional")
    d_none = [p for p, r in arms if p != "_" and "NONE" in r]
    d_some = [p for p, r in arms if p != "_" and "Some(" in r]
    rest = [r for p, r in arms if p == "_"]
    if len(arms) != 3 or len(d_none) != 1 or len(d_some) != 1 or len(rest) != 1 or "Err(Bad)" not in rest[0]:
        raise Fail(f"{REL}: deserializer Optional: expected arms `<n> => NONE, <m> => Some(..), _ => return Err(Bad)`, found {arms}")
    i = _one(r"TypeKind::Result\(res\)\s*=>\s*\{", src, "deserializer Result arm").end()
    arms = _arms(_match_block(src, i, "Result"), "Result")
    d_ok = [p for p, r in arms if p != "_" and r.startswith("Ok(")]
    d_err = [p for p, r in arms if p != "_" and r.startswith("Err(Box")]
    rest = [r for p, r in arms if p == "_"]
    if len(arms) != 3 or len(d_ok) != 1 or len(d_err) != 1 or len(rest) != 1 or "Err(Bad)" not in rest[0]:
        raise Fail(f"{REL}: deserializer Result: expected arms `<n> => Ok(..), <m> => Err(..), _ => return Err(Bad)`, found {arms}")
    _one(r"TypeKind::Int\s*=>\s*\{\s*let x = postcard_core::de::try_take_i64\(", src, "Int deserialized as i64")
    _one(r"const ID_SIZE:\s*u8\s*=\s*size_of::<BaseId>\(\)\s*as u8;", src, "ID_SIZE = size_of::<BaseId>()")
    _one(r"let len = self\.pop\(\)\?;\s*if len != ID_SIZE\s*\{\s*return Err\(Bad\);", src, "Id length check")
    ids = strip_comments(read(REL_ID))
    m = re.search(r"pub struct Id<[^>]*>\s*\{\s*bytes:\s*\[u8;\s*(\d+)\]\s*,\s*tag:\s*PhantomData<Tag>,?\s*\}", ids)
    if not m:
        raise Fail(f"{REL_ID}: struct Id {{ bytes: [u8; N], tag: PhantomData }} not found")
    id_size = int(m.group(1))
    return f"""namespace AranyaV.Gen.SerializeTags

/-- `size_of::<BaseId>()` = N of `bytes: [u8; N]` in {REL_ID}; `ID_SIZE` in {REL} -/
def idSize : Nat := {id_size}

/-- bytes pushed by `SerializeCtx::serialize_value` for `Value::Option` / `Value::Result` -/
def serNone : Nat := {s_none}
def serSome : Nat := {s_some}
def serOk : Nat := {s_ok}
def serErr : Nat := {s_err}

/-- literal match arms of `DeserializeCtx::deserialize_value` for `Optional` / `Result`;
every other tag value is `BadInput` -/
def deNone : Nat := {d_none[0]}
def deSome : Nat := {d_some[0]}
def deOk : Nat := {d_ok[0]}
def deErr : Nat := {d_err[0]}

end AranyaV.Gen.SerializeTags
"""


ITEMS = [("SerializeTags", gen)]
