"""C26: wire tags of aranya-policy-vm/src/serialize.rs (option/result tags on both the
serializer and the deserializer side, ID_SIZE, the integer width used for ints/enums) and the
size of `aranya_id::Id`'s byte array.  Anything that cannot be located is a hard failure."""
import re
from extract import read, strip_comments, Fail

REL = "crates/aranya-policy-vm/src/serialize.rs"
REL_ID = "crates/aranya-id/src/id.rs"


def _one(pat, src, what, flags=re.S):
    m = re.search(pat, src, flags)
    if not m:
        raise Fail(f"{REL}: cannot locate {what}")
    return m


def _arms(block, what):
    """literal-pattern match arms `<int> => <expr>` of a `match tag { ... }` block.
    Every arm must be a single integer literal or `_`; alternatives (`1 | 2`), ranges or guards
    are not understood and break the tie."""
    arms = []
    for m in re.finditer(r"(?:^|[{,\n])\s*([^=\n{},]+?)\s*=>\s*([^\n]*)", block):
        pat, rhs = m.group(1).strip(), m.group(2).strip()
        if pat == "_":
            arms.append(("_", rhs)); continue
        if not re.fullmatch(r"\d+", pat):
            raise Fail(f"{REL}: {what}: match arm pattern `{pat}` is not a single literal")
        arms.append((int(pat), rhs))
    return arms


def _match_block(src, start, what):
    i = src.find("match tag", start)
    if i < 0:
        raise Fail(f"{REL}: {what}: `match tag` not found")
    j = src.find("{", i)
    depth, k = 1, j + 1
    while depth and k < len(src):
        if src[k] == "{": depth += 1
        elif src[k] == "}": depth -= 1
        k += 1
    return src[j + 1:k - 1]


def _block_at(src, j):
    """text of the brace block whose `{` is at src[j] (without the braces)"""
    depth, k = 1, j + 1
    while depth and k < len(src):
        if src[k] == "{": depth += 1
        elif src[k] == "}": depth -= 1
        k += 1
    return src[j + 1:k - 1]


def _arm_body(src, i):
    """body of a match arm starting right after its `=>` at src[i:]: a brace block, or an
    expression up to the next top-level comma"""
    while i < len(src) and src[i].isspace(): i += 1
    if src[i] == "{":
        return _block_at(src, i)
    depth, k = 0, i
    while k < len(src):
        ch = src[k]
        if ch in "({[": depth += 1
        elif ch in ")}]":
            if depth == 0: break
            depth -= 1
        elif ch == "," and depth == 0: break
        k += 1
    return src[i:k]


def _resolve_u8(expr, src, what):
    """a tag expression: integer literal, or a same-file `const NAME: u8 = <literal>;`"""
    e = expr.strip()
    m = re.fullmatch(r"(\d[\d_]*)(?:u8)?", e)
    if m:
        return int(m.group(1).replace("_", ""))
    if re.fullmatch(r"[A-Za-z_]\w*", e):
        m = re.search(r"\bconst\s+" + re.escape(e) + r"\s*:\s*u8\s*=\s*(\d[\d_]*)(?:u8)?\s*;", src)
        if m:
            return int(m.group(1).replace("_", ""))
    raise Fail(f"{REL}: {what}: tag expression `{e}` is neither a literal nor a same-file u8 const")


def _ser_tag(src, ty, case, has_payload):
    what = f"serializer {ty}::{case} arm"
    pay = r"\(\s*\w+\s*\)" if has_payload else ""
    # flattened arm
    m = re.search(r"Value::" + ty + r"\(\s*" + case + pay + r"\s*\)\s*=>", src)
    if m:
        body = _arm_body(src, m.end())
    else:
        # nested: `Value::<ty>(x) => match x { ... <case>(..) => body ... }`
        m = re.search(r"Value::" + ty + r"\(\s*(\w+)\s*\)\s*=>\s*match\s+(\w+)\s*\{", src)
        if not m or m.group(1) != m.group(2):
            raise Fail(f"{REL}: cannot locate {what}")
        inner = _block_at(src, m.end() - 1)
        m2 = re.search(r"(?:^|[\s,{])" + case + pay + r"\s*=>", inner)
        if not m2:
            raise Fail(f"{REL}: cannot locate {what} (nested match has no `{case}` arm)")
        body = _arm_body(inner, m2.end())
    pushes = re.findall(r"self\.out\.push\(([^()]*)\)", body)
    if len(pushes) == 1:
        if has_payload:
            if "serialize_value(" not in body or body.index("self.out.push(") > body.index("serialize_value("):
                raise Fail(f"{REL}: {what}: payload is not serialized after the tag")
        elif "serialize_value(" in body:
            raise Fail(f"{REL}: {what}: unexpected payload")
        return _resolve_u8(pushes[0], src, what)
    if pushes:
        raise Fail(f"{REL}: {what}: more than one byte pushed")
    # one level of same-file helper: self.helper(args) with `fn helper(&mut self, p: u8, ..)`
    calls = re.findall(r"self\.(\w+)\(([^()]*)\)", body)
    calls = [c for c in calls if c[0] != "serialize_value"]
    if len(calls) != 1:
        raise Fail(f"{REL}: {what}: no `self.out.push(..)` and no single helper call in `{body.strip()}`")
    name, args = calls[0][0], [a.strip() for a in calls[0][1].split(",") if a.strip()]
    m = re.search(r"\bfn\s+" + re.escape(name) + r"\s*\(\s*&mut\s+self\s*,([^)]*)\)[^{]*\{", src)
    if not m:
        raise Fail(f"{REL}: {what}: helper `{name}` not found in the file")
    params = [p.split(":")[0].strip() for p in m.group(1).split(",") if p.strip()]
    hbody = _block_at(src, m.end() - 1)
    hp = re.findall(r"self\.out\.push\(([^()]*)\)", hbody)
    if len(hp) != 1 or len(params) != len(args):
        raise Fail(f"{REL}: {what}: helper `{name}` does not push exactly one byte")
    if has_payload and ("serialize_value(" not in hbody or hbody.index("self.out.push(") > hbody.index("serialize_value(")):
        raise Fail(f"{REL}: {what}: helper `{name}` does not serialize the payload after the tag")
    if not has_payload and "serialize_value(" in hbody:
        raise Fail(f"{REL}: {what}: unexpected payload in helper `{name}`")
    pushed = hp[0].strip()
    expr = args[params.index(pushed)] if pushed in params else pushed
    return _resolve_u8(expr, src, what)


def gen():
    src = strip_comments(read(REL))
    # --- serializer side: the tag byte pushed for None / Some / Ok / Err.  Accepted shapes: nested
    # `Value::Option(x) => match x { None => .., Some(x) => .. }` or flattened
    # `Value::Option(None) => ..`; the byte may be a literal or a same-file `const`, pushed directly
    # (`self.out.push(T)`) or through one same-file helper `self.helper(T, payload)` that pushes
    # its parameter before serializing the payload.
    s_none = _ser_tag(src, "Option", "None", False)
    s_some = _ser_tag(src, "Option", "Some", True)
    s_ok = _ser_tag(src, "Result", "Ok", True)
    s_err = _ser_tag(src, "Result", "Err", True)
    _one(r"Value::Id\(x\)\s*=>\s*\{\s*self\.out\.push\(ID_SIZE\);\s*self\.out\.extend_from_slice\(x\.as_bytes\(\)\);",
         src, "serializer Id arm (push ID_SIZE then the bytes)")
    _one(r"Value::Int\(x\)\s*=>\s*postcard_core::ser::try_push_i64\(", src, "Int serialized as i64")
    _one(r"Value::Enum\(_,\s*x\)\s*=>\s*postcard_core::ser::try_push_i64\(", src, "Enum serialized as i64")
    # --- deserializer side
    i = _one(r"TypeKind::Optional\(vtype\)\s*=>\s*\{", src, "deserializer Optional arm").end()
    arms = _arms(_match_block(src, i, "Optional"), "Optional")
    d_none = [p for p, r in arms if p != "_" and "NONE" in r]
    d_some = [p for p, r in arms if p != "_" and "Some(" in r]
    rest = [r for p, r in arms if p == "_"]
    if len(arms) != 3 or len(d_none) != 1 or len(d_some) != 1 or len(rest) != 1 or "Err(Bad)" not in rest[0]:
        raise Fail(f"{REL}: deserializer Optional: expected arms `<n> => NONE, <m> => Some(..), _ => return Err(Bad)`, found {arms}")
    i = _one(r"TypeKind::Result\(res\)\s*=>\s*\{", src, "deserializer Result arm").end()
    arms = _arms(_match_block(src, i, "Result"), "Result")
    d_ok = [p for p, r in arms if p != "_" and r.startswith("Ok(")]
    d_err = [p for p, r in arms if p != "_" and r.startswith("Err(Box")]
    rest = [r for p, r in arms if p == "_"]
    if len(arms) != 3 or len(d_ok) != 1 or len(d_err) != 1 or len(rest) != 1 or "Err(Bad)" not in rest[0]:
        raise Fail(f"{REL}: deserializer Result: expected arms `<n> => Ok(..), <m> => Err(..), _ => return Err(Bad)`, found {arms}")
    _one(r"TypeKind::Int\s*=>\s*\{\s*let x = postcard_core::de::try_take_i64\(", src, "Int deserialized as i64")
    _one(r"const ID_SIZE:\s*u8\s*=\s*size_of::<BaseId>\(\)\s*as u8;", src, "ID_SIZE = size_of::<BaseId>()")
    _one(r"let len = self\.pop\(\)\?;\s*if len != ID_SIZE\s*\{\s*return Err\(Bad\);", src, "Id length check")
    ids = strip_comments(read(REL_ID))
    m = re.search(r"pub struct Id<[^>]*>\s*\{\s*bytes:\s*\[u8;\s*(\d+)\]\s*,\s*tag:\s*PhantomData<Tag>,?\s*\}", ids)
    if not m:
        raise Fail(f"{REL_ID}: struct Id {{ bytes: [u8; N], tag: PhantomData }} not found")
    id_size = int(m.group(1))
    return f"""namespace AranyaV.Gen.SerializeTags

/-- `size_of::<BaseId>()` = N of `bytes: [u8; N]` in {REL_ID}; `ID_SIZE` in {REL} -/
def idSize : Nat := {id_size}

/-- bytes pushed by `SerializeCtx::serialize_value` for `Value::Option` / `Value::Result` -/
def serNone : Nat := {s_none}
def serSome : Nat := {s_some}
def serOk : Nat := {s_ok}
def serErr : Nat := {s_err}

/-- literal match arms of `DeserializeCtx::deserialize_value` for `Optional` / `Result`;
every other tag value is `BadInput` -/
def deNone : Nat := {d_none[0]}
def deSome : Nat := {d_some[0]}
def deOk : Nat := {d_ok[0]}
def deErr : Nat := {d_err[0]}

end AranyaV.Gen.SerializeTags
"""


ITEMS = [("SerializeTags", gen)]
