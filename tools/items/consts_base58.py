"""C46: constants of the `spideroak-base58` crate (the version pinned by /repo/Cargo.lock, read
from the cargo registry) and of aranya-id's `Id` (byte length)."""
import glob, os, re
from extract import read, strip_comments, eval_int, Fail


def _crate_src():
    lock = read("Cargo.lock")
    m = re.search(r'name = "spideroak-base58"\s*\nversion = "([^"]+)"', lock)
    if not m:
        raise Fail("Cargo.lock: spideroak-base58 not found")
    ver = m.group(1)
    home = os.environ.get("CARGO_HOME", os.path.expanduser("~/.cargo"))
    cands = sorted(glob.glob(os.path.join(home, "registry", "src", "*", f"spideroak-base58-{ver}", "src", "base58.rs")))
    if not cands:
        raise Fail(f"spideroak-base58-{ver}/src/base58.rs not found in the cargo registry")
    return ver, cands[0], strip_comments(open(cands[0]).read())


def _array(src, name, rel):
    m = re.search(r"\bconst\s+" + name + r"\s*:\s*\[\s*(\w+)\s*;\s*(\d+)\s*\]\s*=\s*\[(.*?)\];", src, re.S)
    if not m:
        raise Fail(f"{rel}: const {name} not found")
    n = int(m.group(2))
    elems = [e.strip() for e in m.group(3).split(",") if e.strip()]
    if len(elems) != n:
        raise Fail(f"{rel}: const {name}: {len(elems)} elements, declared {n}")
    return elems


def gen():
    ver, path, src = _crate_src()
    rel = f"spideroak-base58-{ver}/src/base58.rs"
    alpha = []
    for e in _array(src, "ALPHABET", rel):
        m = re.fullmatch(r"b'(.)'", e)
        if not m:
            raise Fail(f"{rel}: ALPHABET element {e}")
        alpha.append(ord(m.group(1)))
    table = [eval_int(e, rel, "B58") for e in _array(src, "B58", rel)]
    radii = [eval_int(e, rel, "RADII") for e in _array(src, "RADII", rel)]
    m = re.search(r"const\s+B58_SIZE\s*:\s*usize\s*=\s*\(\$size\s*\*\s*(\d+)\)\s*/\s*(\d+)\s*;", src)
    if not m:
        raise Fail(f"{rel}: B58_SIZE formula not found")
    num, den = int(m.group(1)), int(m.group(2))
    m = re.search(r"const\s+RADIX\s*:\s*u64\s*=\s*([^;]+);", src)
    if not m:
        raise Fail(f"{rel}: RADIX not found")
    radix = eval_int(m.group(1).strip(), rel, "RADIX")
    m = re.search(r"\.chunks\((\d+)\)", src)
    if not m:
        raise Fail(f"{rel}: decode chunk size not found")
    chunk = int(m.group(1))
    m = re.search(r"for\s+_\s+in\s+0\.\.(\d+)\s*\{", src)
    if not m:
        raise Fail(f"{rel}: encode digit-group size not found")
    group = int(m.group(1))
    if not re.search(r"String32\s*=>\s*32\b", src):
        raise Fail(f"{rel}: String32 => 32 not found")
    # aranya-id: Id { bytes: [u8; 32] } and decode via String32
    idrel = "crates/aranya-id/src/id.rs"
    idsrc = strip_comments(read(idrel))
    m = re.search(r"bytes\s*:\s*\[u8;\s*(\d+)\]", idsrc)
    if not m:
        raise Fail(f"{idrel}: Id.bytes length not found")
    idlen = int(m.group(1))
    if "spideroak_base58::String32::decode" not in idsrc:
        raise Fail(f"{idrel}: Id::decode no longer goes through String32::decode")
    lst = lambda xs: "[" + ", ".join(str(x) for x in xs) + "]"
    return f"""namespace AranyaV.Gen.Base58

/-- `ALPHABET` in {rel} -/
def alphabet : List UInt8 := {lst(alpha)}

/-- `B58` (byte → digit, 255 = invalid) in {rel} -/
def table : List Nat := {lst(table)}

/-- `RADII` in {rel} -/
def radii : List Nat := {lst(radii)}

/-- `RADIX` in `Uint::quo_radix` -/
def radix : Nat := {radix}

/-- `s.chunks(N)` in `decode` -/
def chunk : Nat := {chunk}

/-- `for _ in 0..N` in `encode` -/
def group : Nat := {group}

/-- `B58_SIZE = (size * {num}) / {den}` for `String32` -/
def b58Size32 : Nat := (32 * {num}) / {den}

/-- `Id.bytes : [u8; N]` in {idrel} -/
def idLen : Nat := {idlen}

end AranyaV.Gen.Base58
"""


ITEMS = [("ConstsBase58", gen)]
