"""Translator item for C40-C42: the shared-memory channel table of
crates/aranya-fast-channels/src/shm/{write.rs, read.rs, shared.rs}.

Generates `AranyaV.Gen.ConcShm`: for every function the model `AranyaV.Shm` transliterates,
the *skeleton* of its shared-memory accesses in source order — the labels of the verification
yield points (one directly before each access), `lock` for each `.lock()`, and `call:<f>` for
calls of the helper functions that contain accesses themselves (`write_off`, `swap_offsets`,
`load_read_list`, `load_write_list`, `clear`, `remove_if`, `swap_remove`, `find`, `find_mut`,
`exists`).  `Props/C42.lean` asserts (`decide`) that the skeletons are the ones the model was
written against, so an edit that reorders the accesses of `WriteState::add` (e.g. swapping the
offsets before the first list is updated), drops a generation bump, or moves it outside the
lock breaks the build instead of leaving a stale model.  The magic constants of the layout are
extracted as well.
"""
import re
from extract import read, strip_comments, Fail

W = "crates/aranya-fast-channels/src/shm/write.rs"
R = "crates/aranya-fast-channels/src/shm/read.rs"
S = "crates/aranya-fast-channels/src/shm/shared.rs"

CALLS = ["write_off", "swap_offsets", "load_read_list", "load_write_list", "clear", "remove_if",
         "swap_remove", "find_mut", "find", "exists", "read_off"]


def fn_body(src, name, rel, nth=0):
    ms = list(re.finditer(r"\bfn\s+" + re.escape(name) + r"\s*(?:<[^>{]*>)?\s*\(", src))
    if len(ms) <= nth:
        raise Fail(f"{rel}: fn {name} (#{nth}) not found")
    i = src.index("{", ms[nth].end())
    # skip a `where` clause / return type: the body is the first `{` at paren depth 0
    depth, j = 0, i
    while j < len(src):
        if src[j] == "{": depth += 1
        elif src[j] == "}":
            depth -= 1
            if depth == 0: break
        j += 1
    return src[i + 1:j]


def skeleton(body):
    ev = []
    pat = re.compile(r'yield_point\(\s*"([^"]+)"\s*\)|\.\s*lock\s*\(\s*\)|(?:\.|\b)(' + "|".join(CALLS) + r')\s*\(|\.\s*(fetch_add|store|swap|load)\s*\(')
    for m in pat.finditer(body):
        if m.group(1): ev.append(m.group(1))
        elif m.group(2): ev.append("call:" + m.group(2))
        elif m.group(3): ev.append("op:" + m.group(3))
        else: ev.append("lock")
    return ev


def magic(src, struct, rel):
    m = re.search(r"impl<[^>]*>\s+" + struct + r"<[^>]*>\s*\{.*?const\s+MAGIC\s*:\s*U32\s*=\s*U32::new\((0x[0-9a-fA-F]+)\)", src, flags=re.S)
    if not m:
        raise Fail(f"{rel}: {struct}::MAGIC not found")
    return int(m.group(1), 16)


def gen():
    w = strip_comments(read(W)); r = strip_comments(read(R)); s = strip_comments(read(S))
    items = [
        ("wAdd", w, "add", W, 0), ("wRemove", w, "remove", W, 0), ("wRemoveAll", w, "remove_all", W, 0),
        ("wRemoveIf", w, "remove_if", W, 0), ("wExists", w, "exists", W, 0),
        ("rSetupSeal", r, "setup_seal_ctx", R, 0), ("rSetupOpen", r, "setup_open_ctx", R, 0),
        ("rSeal", r, "seal", R, 0), ("rOpen", r, "open", R, 1), ("rExists", r, "exists", R, 0),
        ("sReadOff", s, "read_off", S, 0), ("sWriteOff", s, "write_off", S, 0),
        ("sSwapOffsets", s, "swap_offsets", S, 0), ("sClear", s, "clear", S, 0),
        ("sRemoveIf", s, "remove_if", S, 0), ("sSwapRemove", s, "swap_remove", S, 0),
    ]
    q = lambda xs: "[" + ", ".join('"' + x + '"' for x in xs) + "]"
    out = ["namespace AranyaV.Gen.ConcShm\n"]
    for lean, src, fn, rel, nth in items:
        sk = skeleton(fn_body(src, fn, rel, nth))
        if not sk:
            raise Fail(f"{rel}: fn {fn}: no shared-memory access found (hooks missing?)")
        out.append(f"/-- accesses of `{fn}` in {rel}, in source order -/\ndef {lean} : List String := {q(sk)}\n")
    # facts the model relies on that a skeleton does not show
    rs = fn_body(r, "seal", R, 0)
    facts = {
        "sealHitCompare": bool(re.search(r"if\s+cache\.generation\s*==\s*generation\s*\{", rs)),
        "sealUpdatesOnlyOnOk": bool(re.search(r"if\s+likely!\(result\.is_ok\(\)\)\s*\{[^}]*cache\.key\s*=\s*key", rs, flags=re.S)),
        "sealRederivesAtCachedSeq": bool(re.search(r"SealKey::from_raw\(&chan\.seal_key,\s*cache\.key\.seq\(\)\)", rs)),
        "sealClearsCtxOnNotFound": bool(re.search(r"None\s*=>\s*\{\s*\*ctx\s*=\s*SealCtx\(None\)\s*;\s*return\s+Err\(crate::Error::NotFound", rs)),
        "setupSealStartsAtZero": bool(re.search(r"SealKey::from_raw\(&chan\.seal_key,\s*Seq::ZERO\)", fn_body(r, "setup_seal_ctx", R, 0))),
        "addChecksCapFirst": bool(re.search(r"if\s+side\.len\s*>=\s*side\.cap\s*\{\s*return\s+Err\(Error::OutOfSpace\)", fn_body(w, "add", W, 0))),
    }
    for k, v in facts.items():
        out.append(f"def {k} : Bool := {'true' if v else 'false'}\n")
    out.append(f"/-- `SharedMem::MAGIC`, `ChanList::MAGIC`, `ShmChan::MAGIC` -/\ndef magics : List Nat := [{magic(s, 'SharedMem', S)}, {magic(s, 'ChanList', S)}, {magic(s, 'ShmChan', S)}]\n")
    out.append("end AranyaV.Gen.ConcShm\n")
    return "\n".join(out)


ITEMS = [("ConcShm", gen)]
