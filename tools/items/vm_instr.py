"""C25: the VM instruction set, translated from
crates/aranya-policy-module/src/instructions.rs on every run, plus `STACK_SIZE` of machine.rs.

Generated `AranyaV.Gen.VMInstr`: `ExitReason`, `WrapType`, `Target`, `Instr` (constructor names =
Rust variant names, payload types mapped below) and `stackSize`.  The model's `step` matches on
`Instr` exhaustively, so a new/renamed/re-typed variant breaks elaboration of the model instead of
leaving it silently stale.  An operand type without a mapping is a hard failure.
"""
import re
from extract import read, strip_comments, enum_variants, const, eval_int, Fail

INS = "crates/aranya-policy-module/src/instructions.rs"
MACH = "crates/aranya-policy-vm/src/machine.rs"

# Rust operand type -> Lean type of the model
TYMAP = {
    "ConstValue": "Value",       # model values are a superset of ConstValue
    "Identifier": "Nat",         # identifiers are interned by the harness
    "Label": "Nat",
    "Target": "Target",
    "usize": "Nat",
    "NonZeroUsize": "Nat",
    "i64": "Int",
    "ExitReason": "ExitReason",
    "WrapType": "WrapType",
    "Meta": "Unit",              # tracing metadata: ignored by `step`
}


def payload(v, enum, rel):
    m = re.match(r"\w+\s*\((.*)\)\s*$", v, re.S)
    if not m:
        if re.fullmatch(r"\w+", v.strip()):
            return []
        raise Fail(f"{rel}: {enum}: cannot parse variant `{v}`")
    tys = [t.strip() for t in m.group(1).split(",") if t.strip()]
    out = []
    for t in tys:
        if t not in TYMAP:
            raise Fail(f"{rel}: {enum}: operand type `{t}` of `{v}` has no model mapping")
        out.append(TYMAP[t])
    return out


def simple_enum(src, name):
    vs = enum_variants(src, name, INS)
    for n, raw in vs:
        if raw.strip() != n:
            raise Fail(f"{INS}: enum {name}: variant `{raw}` is not a unit variant")
    return [n for n, _ in vs]


def gen():
    src = read(INS)
    er = simple_enum(src, "ExitReason")
    wt = simple_enum(src, "WrapType")
    tg = enum_variants(src, "Target", INS)
    ins = enum_variants(src, "Instruction", INS)
    msrc = strip_comments(read(MACH))
    stack = eval_int(const(msrc, "STACK_SIZE", MACH), MACH, "STACK_SIZE")

    o = ["import AranyaV.Model.VMValue", "namespace AranyaV.VM", ""]
    o.append(f"/-- `ExitReason` in {INS} -/")
    o.append("inductive ExitReason where")
    o += [f"  | {n}" for n in er]
    o += ["deriving Repr, DecidableEq, Inhabited", ""]
    o.append(f"/-- `WrapType` in {INS} -/")
    o.append("inductive WrapType where")
    o += [f"  | {n}" for n in wt]
    o += ["deriving Repr, DecidableEq, Inhabited", ""]
    LBL = "crates/aranya-policy-module/src/label.rs"
    lsrc = read(LBL)
    lt = enum_variants(lsrc, "LabelType", LBL)
    for n, raw in lt:
        if raw.strip() != n:
            raise Fail(f"{LBL}: enum LabelType: variant `{raw}` is not a unit variant")
    o.append(f"/-- `LabelType` in {LBL} -/")
    o.append("inductive LabelType where")
    o += [f"  | {n}" for n, _ in lt]
    o += ["deriving Repr, DecidableEq, Inhabited", ""]
    o.append(f"/-- `Target` in {INS} -/")
    o.append("inductive Target where")
    for n, raw in tg:
        p = payload(raw, "Target", INS)
        o.append(f"  | {n}" + "".join(f" (a{i} : {t})" for i, t in enumerate(p)))
    o += ["deriving Repr, Inhabited", ""]
    o.append(f"/-- `Instruction` in {INS} ({len(ins)} variants) -/")
    o.append("inductive Instr where")
    for n, raw in ins:
        p = payload(raw, "Instruction", INS)
        o.append(f"  | {n}" + "".join(f" (a{i} : {t})" for i, t in enumerate(p)))
    o += ["deriving Repr, Inhabited", ""]
    o.append("/-- variant names in declaration order -/")
    o.append("def instrNames : List String := [" + ", ".join(f'"{n}"' for n, _ in ins) + "]")
    o.append("")
    o.append(f"/-- `STACK_SIZE` in {MACH} -/")
    o.append(f"def stackSize : Nat := {stack}")
    o.append("")
    # ---- the two arms of `step` whose panic behaviour the model cannot see from types
    flat = re.sub(r"\s+", " ", msrc)
    ok_arm = r"\{? ?return Err\(self\.err\(MachineErrorType::InvalidInstruction\)\);? ?\}?"
    mm = re.search(r"Instruction::Next \| Instruction::Last => (.*?)(?=,? Instruction::)", flat)
    if mm:
        arm = mm.group(1).strip().rstrip(",").strip()
        if arm == "todo!()":
            todo = True
        elif re.fullmatch(ok_arm, arm):
            todo = False
        else:
            raise Fail(f"{MACH}: step: unrecognised arm `Instruction::Next | Instruction::Last => {arm}`")
    else:
        arms = {}
        for v in ("Next", "Last"):
            mm = re.search(r"Instruction::" + v + r" => (.*?)(?=,? Instruction::)", flat)
            if not mm:
                raise Fail(f"{MACH}: step: arm `Instruction::{v} =>` not found")
            arm = mm.group(1).strip().rstrip(",").strip()
            if arm == "todo!()":
                arms[v] = True
            elif re.fullmatch(ok_arm, arm):
                arms[v] = False
            else:
                raise Fail(f"{MACH}: step: unrecognised arm `Instruction::{v} => {arm}`")
        if arms["Next"] != arms["Last"]:
            raise Fail(f"{MACH}: step: Next and Last arms differ; the model treats them alike")
        todo = arms["Next"]
    o.append(f"/-- `Instruction::Next` / `Instruction::Last` are `todo!()` in `step` ({MACH}) -/")
    o.append(f"def nextLastTodo : Bool := {'true' if todo else 'false'}")
    o.append("")
    mm = re.search(r"Instruction::MStructSet\(n\) => \{ let n: usize = n\.into\(\); let mut field_name_value_pairs = ([^;]+);", flat)
    if not mm:
        raise Fail(f"{MACH}: step: MStructSet prologue not recognised")
    alloc = mm.group(1).replace(" ", "")
    if alloc == "Vec::with_capacity(n)":
        unbounded = True
    elif alloc in ("Vec::with_capacity(n.min(STACK_SIZE))", "Vec::new()"):
        unbounded = False
    else:
        raise Fail(f"{MACH}: step: MStructSet allocation `{mm.group(1)}` not recognised")
    o.append(f"/-- `MStructSet(n)` allocates `Vec::with_capacity(n)` with the unchecked operand `n` ({MACH}) -/")
    o.append(f"def mstructSetCapUnbounded : Bool := {'true' if unbounded else 'false'}")
    # ---- QueryStart/QueryNext: does the iterator stack remember the query literal and skip
    #      rows that do not `fact_match` it?  Update: compare only the given value fields?
    nows = flat.replace(" ", "")
    unrecognised = []  # soft: breaks only C25 (Props/C25 requires `armsRecognised = true`)
    if "query_iter_stack:Vec<(Fact,M::QueryIterator)>," in nows:
        if "iter.find(|r|matchr{Ok((k,v))=>fact_match(query,k,v),Err(_)=>true" not in nows:
            unrecognised.append("QueryNext keeps the query literal but its row filter is not recognised")
        qfilter = True
    elif "query_iter_stack:Vec<M::QueryIterator>," in nows:
        qfilter = False
    else:
        unrecognised.append("RunState.query_iter_stack: element type not recognised")
        qfilter = False
    mm = re.search(r"Instruction::Update => \{(.*?)Instruction::Emit =>", flat)
    if not mm:
        raise Fail(f"{MACH}: step: Update arm not found")
    upd = mm.group(1).replace(" ", "")
    if "sort_unstable_by" in upd and "replaced_fact_values.as_slice()!=fact_from.values.as_slice()" in upd:
        given_only = False
    elif "letvalues_match=fact_from.values.iter().all(|fv|{replaced_fact.1.iter().find(|v|v.identifier==fv.identifier).is_some_and(|v|v.value==fv.value)" in upd:
        given_only = True
    else:
        unrecognised.append("Update value comparison not recognised")
        given_only = False
    o.append("")
    o.append(f"/-- `QueryNext` skips rows that do not `fact_match` the `QueryStart` literal ({MACH}) -/")
    o.append(f"def queryNextFilters : Bool := {'true' if qfilter else 'false'}")
    o.append("")
    o.append(f"/-- `Update` compares only the value fields given in the `from` literal ({MACH}) -/")
    o.append(f"def updateGivenOnly : Bool := {'true' if given_only else 'false'}")
    # ---- error-position lookup: SpannedText::linecol's assertion on the position
    CM = "crates/aranya-policy-module/src/codemap.rs"
    cflat = re.sub(r"\s+", "", strip_comments(read(CM)))
    mm = re.search(r"fnlinecol\(&self,pos:usize\)->\(usize,usize\)\{(assert!\(pos(<=?)self\.text\.len\(\)\);)?", cflat)
    if not mm:
        unrecognised.append("codemap.rs: SpannedText::linecol not recognised")
        strict = False
    elif mm.group(1) is None:
        strict = False
    else:
        strict = (mm.group(2) == "<")
    o.append("")
    o.append(f"/-- `SpannedText::linecol` asserts `pos < text.len()` (strict), which fails for a span that starts at the end of the text ({CM}) -/")
    o.append(f"def linecolAssertStrict : Bool := {'true' if strict else 'false'}")
    o.append("")
    o.append("/-- the `QueryStart`/`QueryNext`/`Update` arms have one of the shapes the model knows -/")
    o.append(f"def armsRecognised : Bool := {'true' if not unrecognised else 'false'}")
    o.append("def armsUnrecognised : List String := [" + ", ".join('"' + u + '"' for u in unrecognised) + "]")
    o += ["", "end AranyaV.VM", ""]
    return "\n".join(o)


ITEMS = [("VMInstr", gen)]
