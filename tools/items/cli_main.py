"""C31: the decision-relevant shape of the policy-compiler CLI's `main` and the polarity of
`validate`, translated from the source on every run.

Generated `AranyaV.Gen.CliMain`:
  * `guardNegated`            -- does `main` negate `validate`'s result in its reject-guard?
  * `validateTrueMeansFailed` -- does `validate` return `true` when a trace failed?
Anything else than the recognised shapes is a hard failure of the tie.
"""
import re
from extract import read, strip_comments, Fail

MAIN = "crates/aranya-policy-compiler/src/bin/policy-compiler/main.rs"
VALIDATE = "crates/aranya-policy-compiler/src/validate.rs"


def fn_body(src, name, rel):
    m = re.search(r"\bfn\s+" + re.escape(name) + r"\s*\([^)]*\)[^{]*\{", src)
    if not m:
        raise Fail(f"{rel}: fn {name} not found")
    i = m.end(); depth = 1; j = i
    while depth and j < len(src):
        if src[j] == "{": depth += 1
        elif src[j] == "}": depth -= 1
        j += 1
    if depth:
        raise Fail(f"{rel}: fn {name}: unbalanced braces")
    return src[i:j - 1]


def gen():
    main = fn_body(strip_comments(read(MAIN)), "main", MAIN)
    flat = re.sub(r"\s+", " ", main)

    # 1. control-flow landmarks must appear in this order (the model `cli` is this sequence)
    marks = ["read_to_string(&args.file)", "parse_policy_document(", ".compile()", "validate(&module)",
             "if args.stub_ffi", "File::create(", "into_writer("]
    pos = -1
    for mk in marks:
        p = flat.find(mk, pos + 1)
        if p < 0:
            raise Fail(f"{MAIN}: main: landmark `{mk}` missing or out of order")
        pos = p
    if flat.count("validate(") != 1:
        raise Fail(f"{MAIN}: main: expected exactly one call of validate")
    # every early exit between parse and the end is one of these two
    n_fail = flat.count("return ExitCode::FAILURE")
    n_succ = flat.count("ExitCode::SUCCESS")
    if n_fail != 3 or n_succ != 2:
        raise Fail(f"{MAIN}: main: expected 3 FAILURE returns and 2 SUCCESS exits, found {n_fail}/{n_succ}")

    # 2. the reject-guard
    m = re.search(r"if ([^{}]*validate\(&module\)[^{}]*) \{ return ExitCode::FAILURE; \}", flat)
    if not m:
        raise Fail(f"{MAIN}: main: guard `if … validate(&module) … {{ return ExitCode::FAILURE; }}` not found")
    guard = m.group(1).replace(" ", "")
    if guard == "!args.no_validate&&!validate(&module)":
        negated = True
    elif guard == "!args.no_validate&&validate(&module)":
        negated = False
    else:
        raise Fail(f"{MAIN}: main: unrecognised validation guard `{m.group(1)}`")

    # 3. polarity of validate
    vsrc = strip_comments(read(VALIDATE))
    vb = re.sub(r"\s+", " ", fn_body(vsrc, "validate", VALIDATE)).strip()
    if not re.search(r"\) -> bool", re.sub(r"\s+", " ", vsrc)):
        raise Fail(f"{VALIDATE}: validate does not return bool")
    if "let mut failed = false;" not in vb or "failed = true;" not in vb:
        raise Fail(f"{VALIDATE}: validate: `failed` flag protocol not recognised")
    # `failed = true` must sit inside the loop over trace failures
    loop = re.search(r"for TraceFailure \{[^}]*\} in failures \{(.*?)\} \} Err\(", vb)
    if not loop or "failed = true;" not in loop.group(1):
        raise Fail(f"{VALIDATE}: validate: `failed = true` is not set per reported TraceFailure")
    if vb.endswith("} failed"):
        true_means_failed = True
    elif vb.endswith("} !failed"):
        true_means_failed = False
    else:
        raise Fail(f"{VALIDATE}: validate: tail expression not recognised: …{vb[-30:]}")

    b = lambda x: "true" if x else "false"
    return f"""namespace AranyaV.Gen.CliMain

/-- `main` in {MAIN} rejects when `!args.no_validate && [!]validate(&module)`;
this is whether the `!` in front of `validate` is present. -/
def guardNegated : Bool := {b(negated)}

/-- `validate` in {VALIDATE} returns its `failed` flag
(`true` = at least one trace failure was reported). -/
def validateTrueMeansFailed : Bool := {b(true_means_failed)}

end AranyaV.Gen.CliMain
"""


ITEMS = [("CliMain", gen)]
