"""C31: the one fact about the policy-compiler CLI's `main` that the Lean model imports.

Generated `AranyaV.Gen.CliMain`:
  * `guardNegated`    -- in the CLI path, `validate(&module)` is called under the
                         `--no-validate` flag and a `true` (false if negated) result leads to
                         `return ExitCode::FAILURE`; this is whether the call is negated (`!validate`).
  * `guardRecognised` -- the guard has one of the shapes below.  `Props/C31` requires it to be
                         `true`; an unknown shape therefore breaks only C31 (whose harness then decides
                         semantically by running the real binary), not the translator run of every
                         other property.

Everything else about `main` (order of parse / compile / validate / write, exit codes of the
front-end errors, `--stub-ffi`) and the meaning of `validate`'s result (true = a trace failed, for
the first, a middle or the last label alike) is decided semantically by `harness/src/bin/c31.rs`
against the real binary and the real library, so refactors of `validate()` (early returns, let-else,
helper extraction) or of `main` that preserve behaviour do not disturb the tie.

Recognised guard shapes (whitespace-insensitive, comments stripped):
    if !args.no_validate && [!]validate(&module) { return ExitCode::FAILURE; }
    if !args.no_validate { if [!]validate(&module) { return ExitCode::FAILURE; } }
    let <x> = [!]validate(&module); … if !args.no_validate && [!]<x> { return ExitCode::FAILURE; }   (lazy
      evaluation differs, the result does not)
"""
import re
from extract import read, strip_comments, Fail

MAIN = "crates/aranya-policy-compiler/src/bin/policy-compiler/main.rs"


def gen():
    src = strip_comments(read(MAIN))
    if not re.search(r"\bfn\s+main\s*\(", src):
        raise Fail(f"{MAIN}: fn main not found")
    flat = re.sub(r"\s+", "", src)
    calls = flat.count("validate(&module)")
    negated, recognised, why = False, False, ""
    fail = r"\{returnExitCode::FAILURE;?\}"
    m = re.search(r"if!args\.no_validate&&(!?)validate\(&module\)" + fail, flat) or \
        re.search(r"if!args\.no_validate\{if(!?)validate\(&module\)" + fail + r"\}", flat)
    if calls != 1:
        why = f"expected exactly one call `validate(&module)` in the CLI, found {calls}"
    elif m:
        negated, recognised = (m.group(1) == "!"), True
    else:
        m2 = re.search(r"let(\w+)=(!?)validate\(&module\);", flat)
        if m2:
            m3 = re.search(r"if!args\.no_validate&&(!?)" + re.escape(m2.group(1)) + fail, flat)
            if m3:
                negated, recognised = ((m2.group(2) == "!") != (m3.group(1) == "!")), True
        if not recognised:
            why = "the guard around `validate(&module)` has none of the recognised shapes"
    b = lambda x: "true" if x else "false"
    esc = why.replace('"', "'")
    return f"""namespace AranyaV.Gen.CliMain

/-- `main` in {MAIN} rejects (`return ExitCode::FAILURE`) when
`!args.no_validate && [!]validate(&module)`; this is whether the `!` in front of `validate` is present. -/
def guardNegated : Bool := {b(negated)}

/-- the validation guard of `main` has a shape the translator recognises -/
def guardRecognised : Bool := {b(recognised)}
def guardUnrecognisedWhy : String := "{esc}"

end AranyaV.Gen.CliMain
"""


ITEMS = [("CliMain", gen)]
