"""C37: the context encodings of group keys, sealed group keys, PSK seeds, topic keys and topic-key
messages: tuple-hash tags + item orders, fixed-width `#[repr(C)]` info layouts (domain literal,
field order, widths), HPKE `wrap_info` order, which value is used as HPKE info and as AEAD AD."""
import re
from extract import read, strip_comments, Fail
from crypto_c34 import (lean_bytes, fn_body, hash_call, map_items, advisory, advisory_comment, lean_bool, ADVISORY,
                        helper_calls, scan_lets, resolve, lit_bytes, _call_in)

ID = 32  # every custom_id is 32 bytes


def struct_fields(src, name, rel):
    m = re.search(r"\bstruct\s+" + re.escape(name) + r"\s*\{([^}]*)\}", src)
    if not m:
        raise Fail(f"{rel}: struct {name} not found")
    # require #[repr(C)] right before (no padding is possible: all fields are byte arrays / ids / unaligned ints)
    head = src[max(0, m.start() - 200):m.start()]
    if "#[repr(C)]" not in head:
        raise Fail(f"{rel}: struct {name} is no longer #[repr(C)]")
    out = []
    for f in m.group(1).split(","):
        f = f.strip()
        if not f:
            continue
        mm = re.fullmatch(r"(?:pub(?:\([^)]*\))?\s+)?(\w+)\s*:\s*(.+)", f, flags=re.S)
        if not mm:
            raise Fail(f"{rel}: struct {name}: cannot parse field `{f}`")
        out.append((mm.group(1), re.sub(r"\s+", "", mm.group(2))))
    return out


def width(ty, rel, name):
    m = re.fullmatch(r"\[u8;(\d+)\]", ty)
    if m:
        return int(m.group(1))
    if ty in ("GroupId", "CmdId", "DeviceId", "LabelId", "PolicyId", "PskSeedId"):
        return ID
    if ty == "U32<BE>":
        return 4
    raise Fail(f"{rel}: struct {name}: unknown field type {ty}")


def layout(src, struct, rel, domain_lit, fieldmap):
    """returns Lean list literal of (field, width) with the domain replaced by its literal"""
    fs = struct_fields(src, struct, rel)
    if not fs or fs[0][0] != "domain":
        raise Fail(f"{rel}: struct {struct}: first field is not `domain`")
    if width(fs[0][1], rel, struct) != len(domain_lit):
        raise Fail(f"{rel}: struct {struct}: domain width {fs[0][1]} != len({domain_lit!r})")
    out = []
    for n, t in fs[1:]:
        if n not in fieldmap:
            raise Fail(f"{rel}: struct {struct}: unknown field {n}")
        out.append((fieldmap[n], width(t, rel, struct)))
    return out


def domain_of(body, struct, rel, src=None):
    pat = re.escape(struct) + r'\s*\{\s*domain:\s*\*b"([^"]*)"'
    m = re.search(pat, body)
    if not m and src is not None:
        # the record may be built by one level of helper function of the same file
        for h, _ in helper_calls(body, src, exclude=[]):
            m = re.search(pat, fn_body(src, h, rel))
            if m:
                break
    if not m:
        raise Fail(f"{rel}: `{struct} {{ domain: *b\"..\" }}` not found")
    return m.group(1).encode()


def gen():
    n0 = len(ADVISORY)
    L = ["namespace AranyaV.Gen.C37", ""]
    # ---------------- group key context
    rel = "crates/aranya-crypto/src/groupkey.rs"
    src = strip_comments(read(rel))
    i = src.find("impl<CS: CipherSuite> Context<'_, CS>")
    if i < 0:
        raise Fail(f"{rel}: impl Context not found")
    tag, items = hash_call(src, "to_bytes", "CS::tuple_hash", rel, scope=src[i:])
    order = map_items(items, {"self.label.as_bytes()": "label", "self.parent.as_ref()": "parent",
                              "self.author_sign_pk.id()?.as_bytes()": "author"}, rel, "Context::to_bytes")
    sb = re.sub(r"\s+", "", fn_body(src, "seal", rel))
    ob = re.sub(r"\s+", "", fn_body(src, "open", rel))
    if "letinfo=ctx.to_bytes()?;letkey=self.derive_key(&info)?;Ok(CS::Aead::new(&key).seal(out,nonce,plaintext,&info)?)" not in sb:
        advisory(f"{rel}: GroupKey::seal is not literally key = derive_key(info), AD = info")
    if "letinfo=ctx.to_bytes()?;letkey=self.derive_key(&info)?;Ok(CS::Aead::new(&key).open(dst,nonce,ciphertext,&info)?)" not in ob:
        advisory(f"{rel}: GroupKey::open is not literally key = derive_key(info), AD = info")
    db = fn_body(src, "derive_key", rel)
    dl = scan_lets(db)
    ex = _call_in(db, re.escape("CS::labeled_extract"))
    xp = _call_in(db, re.escape("CS::labeled_expand"))
    if ex is None or xp is None or len(ex) < 4 or len(xp) < 4:
        raise Fail(f"{rel}: GroupKey::derive_key: labeled_extract / labeled_expand calls not found")
    e_dom, e_lab = lit_bytes(ex[0], dl), lit_bytes(ex[2], dl)
    x_dom, x_lab = lit_bytes(xp[0], dl), lit_bytes(xp[2], dl)
    if None in (e_dom, e_lab, x_dom, x_lab):
        raise Fail(f"{rel}: GroupKey::derive_key: domains / labels are not (and do not resolve to) byte-string literals")
    if "self.seed" not in resolve(ex[3], dl) or re.sub(r"\s+", "", resolve(xp[3], dl)) != "[info]":
        advisory(f"{rel}: GroupKey::derive_key: ikm is not literally the seed / expand info is not literally [info]")

    class _M:  # keep the shape the code below expects
        def __init__(self, a, b): self.a, self.b = a, b
        def group(self, i): return (self.a if i == 1 else self.b).decode()
    m1, m2 = _M(e_dom, e_lab), _M(x_dom, x_lab)
    L += [f"/-- tag of `Context::to_bytes` in {rel}: `{tag.decode()}` -/",
          f"def groupKeyTag : List UInt8 := {lean_bytes(tag)}", "",
          "inductive GkField where | label | parent | author",
          "deriving DecidableEq, Repr", "",
          "/-- items hashed into the group-key context (= KDF info = AEAD AD), in source order -/",
          "def gkOrder : List GkField := [" + ", ".join("." + o for o in order) + "]", "",
          f"/-- `derive_key`: LabeledExtract(`{m1.group(1)}`, `{m1.group(2)}`, seed), LabeledExpand(`{m2.group(1)}`, `{m2.group(2)}`, [info]) -/",
          f"def gkExtractDomain : List UInt8 := {lean_bytes(m1.group(1).encode())}",
          f"def gkExtractLabel : List UInt8 := {lean_bytes(m1.group(2).encode())}",
          f"def gkExpandDomain : List UInt8 := {lean_bytes(m2.group(1).encode())}",
          f"def gkExpandLabel : List UInt8 := {lean_bytes(m2.group(2).encode())}", ""]
    # ---------------- HPKE wrap_info
    n_hp = len(ADVISORY)
    rel = "crates/aranya-crypto/src/hpke.rs"
    src = re.sub(r"\s+", "", strip_comments(read(rel)))
    if "info.into_iter().chain(#[allow(clippy::map_identity)]CS::OIDS.encode().into_iter().map(|v|v),)" not in src:
        advisory(f"{rel}: wrap_info is not literally info ++ encoded OIDs")
    L += ["/-- HPKE `info` = caller info, then every suite OID `encode_string`ed (advisory literal comparison with " + rel + ";",
          "tied by the primitive-level HPKE confirmation of the harness) -/",
          f"def hpkeInfoThenOids : Bool := {lean_bool(len(ADVISORY) == n_hp)}", ""]
    # ---------------- sealed group key
    rel = "crates/aranya-crypto/src/aranya.rs"
    src = strip_comments(read(rel))
    sb, ob = fn_body(src, "seal_group_key", rel), fn_body(src, "open_group_key", rel)
    dom = domain_of(sb, "GroupKeyInfo", rel, src)
    if domain_of(ob, "GroupKeyInfo", rel, src) != dom:
        raise Fail(f"{rel}: seal_group_key/open_group_key use different domains")
    lay = layout(src, "GroupKeyInfo", rel, dom, {"group": "group"})
    sbn, obn = re.sub(r"\s+", "", sb), re.sub(r"\s+", "", ob)
    if "hpke::setup_send::<CS,_>(rng,Mode::Base,&self.pk,[info.as_bytes()])?" not in sbn or "ctx.seal_in_place(&mutciphertext,&muttag,info.as_bytes())?" not in sbn:
        advisory(f"{rel}: seal_group_key is not literally HPKE base setup_send(pk, [info]) + seal_in_place(.., info)")
    if "hpke::setup_recv::<CS>(Mode::Base,&enc.0,&self.sk,[info.as_bytes()])?" not in obn or "ctx.open_in_place(&mutciphertext,&tag,info.as_bytes())?" not in obn:
        advisory(f"{rel}: open_group_key is not literally HPKE base setup_recv(enc, sk, [info]) + open_in_place(.., info)")
    L += [f"/-- `GroupKeyInfo` in {rel}: domain `{dom.decode()}` then fixed-width fields; HPKE base mode, info = AD -/",
          f"def sgkDomain : List UInt8 := {lean_bytes(dom)}",
          "inductive SgkField where | group",
          "deriving DecidableEq, Repr",
          "def sgkLayout : List (SgkField × Nat) := [" + ", ".join(f"(.{n}, {w})" for n, w in lay) + "]", ""]
    # ---------------- PSK seed
    rel = "crates/aranya-crypto/src/tls/psk.rs"
    src = strip_comments(read(rel))
    sb, ob = fn_body(src, "seal_psk_seed", rel), fn_body(src, "open_psk_seed", rel)
    dom = domain_of(sb, "Info", rel, src)
    if domain_of(ob, "Info", rel, src) != dom:
        raise Fail(f"{rel}: seal_psk_seed/open_psk_seed use different domains")
    lay = layout(src, "Info", rel, dom, {"group": "group"})
    sbn, obn = re.sub(r"\s+", "", sb), re.sub(r"\s+", "", ob)
    if "hpke::setup_send::<CS,_>(rng,Mode::Auth(&self.sk),&peer_pk.pk,[info.as_bytes()])?" not in sbn or "ctx.seal_in_place(&mutciphertext,&muttag,info.as_bytes())" not in sbn:
        advisory(f"{rel}: seal_psk_seed is not literally HPKE auth setup_send + seal_in_place(.., info)")
    if "hpke::setup_recv::<CS>(Mode::Auth(&peer_pk.pk),&encap.0,&self.sk,[info.as_bytes()],)?" not in obn or "ctx.open_in_place(&mutciphertext,&tag,info.as_bytes())?" not in obn:
        advisory(f"{rel}: open_psk_seed is not literally HPKE auth setup_recv + open_in_place(.., info)")
    if 'if&self.public()?==peer_pk{returnErr(Error::InvalidArgument("same`EncryptionKey`"));}' not in sbn:
        advisory(f"{rel}: seal_psk_seed: literal same-key check not found")
    L += [f"/-- `Info` in {rel}: domain `{dom.decode()}`; HPKE auth mode, info = AD -/",
          f"def pskDomain : List UInt8 := {lean_bytes(dom)}",
          "inductive PskField where | group",
          "deriving DecidableEq, Repr",
          "def pskLayout : List (PskField × Nat) := [" + ", ".join(f"(.{n}, {w})" for n, w in lay) + "]", ""]
    # ---------------- topic key
    rel = "crates/aranya-crypto/src/apq.rs"
    src = strip_comments(read(rel))
    sb, ob = fn_body(src, "seal_topic_key", rel), fn_body(src, "open_topic_key", rel)
    dom = domain_of(sb, "TopicKeyRotationInfo", rel, src)
    if domain_of(ob, "TopicKeyRotationInfo", rel, src) != dom:
        raise Fail(f"{rel}: seal_topic_key/open_topic_key use different domains")
    lay = layout(src, "TopicKeyRotationInfo", rel, dom, {"version": "version", "topic": "topic"})
    sbn, obn = re.sub(r"\s+", "", sb), re.sub(r"\s+", "", ob)
    for b in (sbn, obn):
        if "version:U32::new(version.as_u32()),topic:topic.0," not in b:
            advisory(f"{rel}: TopicKeyRotationInfo is not literally filled with (version, topic)")
    if "hpke::setup_send::<CS,_>(rng,Mode::Auth(&sk.sk),&self.pk,[ad.as_bytes()])?" not in sbn or "ctx.seal(&mutdst,&key.seed,ad.as_bytes())?" not in sbn:
        advisory(f"{rel}: seal_topic_key is not literally HPKE auth setup_send + seal(.., ad)")
    if "hpke::setup_recv::<CS>(Mode::Auth(&pk.pk),&enc.0,&self.sk,[ad.as_bytes()])?" not in obn or "ctx.open(&mutseed,ciphertext.as_bytes(),ad.as_bytes())?" not in obn:
        advisory(f"{rel}: open_topic_key is not literally HPKE auth setup_recv + open(.., ad)")
    L += [f"/-- `TopicKeyRotationInfo` in {rel}: domain `{dom.decode()}`; HPKE auth mode, info = AD -/",
          f"def topicDomain : List UInt8 := {lean_bytes(dom)}",
          "inductive TopicField where | version | topic",
          "deriving DecidableEq, Repr",
          "def topicLayout : List (TopicField × Nat) := [" + ", ".join(f"(.{n}, {w})" for n, w in lay) + "]", ""]
    # topic key messages
    tag, items = hash_call(src, "seal_message", "CS::tuple_hash", rel)
    tag2, items2 = hash_call(src, "open_message", "CS::tuple_hash", rel)
    tbl = {"&version.to_be_bytes()[..]": "version", "&topic.as_bytes()[..]": "topic",
           "ident.enc_key.id()?.as_bytes()": "encKey", "ident.sign_key.id()?.as_bytes()": "signKey"}
    o1 = map_items(items, tbl, rel, "seal_message AD")
    o2 = map_items(items2, tbl, rel, "open_message AD")
    if tag != tag2:
        raise Fail(f"{rel}: seal_message/open_message AD tags differ")
    L += [f"/-- AD of `TopicKey::seal_message`/`open_message` in {rel}: tag `{tag.decode()}` -/",
          f"def apqMsgTag : List UInt8 := {lean_bytes(tag)}",
          "inductive MsgField where | version | topic | encKey | signKey",
          "deriving DecidableEq, Repr",
          "def sealMsgOrder : List MsgField := [" + ", ".join("." + o for o in o1) + "]",
          "def openMsgOrder : List MsgField := [" + ", ".join("." + o for o in o2) + "]", ""] + advisory_comment(n0) + ["",
          "end AranyaV.Gen.C37"]
    return "\n".join(L) + "\n"


ITEMS = [("CryptoC37", gen)]
