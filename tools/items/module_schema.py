"""C28: the serde data-model layout of `aranya_policy_module::ModuleV0` and of every type reachable
from it, translated from the Rust declarations as they are NOW:

  crates/aranya-policy-module/src/{module.rs, instructions.rs, instructions/meta.rs, label.rs,
  data.rs, codemap.rs}, crates/aranya-policy-ast/src/span.rs

For every `struct` the field order = declaration order, for every `enum` the variant index =
declaration order (what `#[derive(Serialize, Deserialize)]` uses and postcard writes as
`varint(u32)`).  Field / payload types are mapped to the constructors of
`AranyaV.ModuleWire.Sch`.  Recursive types (`ConstValue` via `Option<Box<Self>>`, `Result<Box,Box>`
and `ConstStruct`'s map; `TypeKind` via `Box<TypeKind>` and `ResultTypeKind`) become families
indexed by the remaining nesting depth.  Anything not understood (an unknown type, a `#[serde(..)]`
field/variant attribute, generics) is a hard failure of the tie, never a default."""
import re
from extract import read, strip_comments, Fail

FILES = [
    "crates/aranya-policy-module/src/module.rs",
    "crates/aranya-policy-module/src/instructions.rs",
    "crates/aranya-policy-module/src/instructions/meta.rs",
    "crates/aranya-policy-module/src/label.rs",
    "crates/aranya-policy-module/src/data.rs",
    "crates/aranya-policy-module/src/codemap.rs",
    "crates/aranya-policy-ast/src/span.rs",
]

# types reachable from ModuleV0 that must be declared in FILES
WANTED = ["ModuleV0", "Instruction", "Target", "ExitReason", "WrapType", "Meta", "Label", "LabelType",
          "ConstValue", "ConstStruct", "TypeKind", "ResultTypeKind", "Field", "Persistence", "ActionDef",
          "CommandDef", "Attribute", "FactDef", "StructDef", "EnumDef", "CodeMap", "Span"]
# self-recursive families; the listed members of their cycle are inlined into them
RECURSIVE = {"ConstValue": ["ConstStruct"], "TypeKind": ["ResultTypeKind"]}

PRIM = {
    "usize": ".u", "u64": ".u", "i64": ".i64", "bool": ".bool",
    "Identifier": ".str .ident", "Text": ".str .text", "String": ".str .any",
    "NonZeroUsize": ".nz",
}


def split_top(s, sep=","):
    out, depth, cur = [], 0, ""
    for ch in s:
        if ch in "([{<": depth += 1
        elif ch in ")]}>": depth -= 1
        if ch == sep and depth == 0:
            out.append(cur); cur = ""
        else:
            cur += ch
    if cur.strip(): out.append(cur)
    return [x.strip() for x in out if x.strip()]


def strip_attrs(s, where):
    """remove `#[...]` attributes; a serde attribute on a field/variant is not understood"""
    out, i = "", 0
    while i < len(s):
        if s.startswith("#[", i):
            depth, j = 0, i
            while j < len(s):
                if s[j] == "[": depth += 1
                elif s[j] == "]":
                    depth -= 1
                    if depth == 0: break
                j += 1
            attr = s[i:j + 1]
            if re.match(r"#\[\s*serde", attr):
                raise Fail(f"{where}: serde attribute {attr} on a field/variant is not understood")
            i = j + 1
        else:
            out += s[i]; i += 1
    return out


def find_decl(srcs, name):
    for rel, src in srcs.items():
        m = re.search(r"\bpub\s+(struct|enum)\s+" + re.escape(name) + r"\s*(\{|\()", src)
        if m:
            kind, opener = m.group(1), m.group(2)
            closer = "}" if opener == "{" else ")"
            i = m.end(); depth = 1; j = i
            while depth and j < len(src):
                if src[j] == opener: depth += 1
                elif src[j] == closer: depth -= 1
                j += 1
            return rel, kind, opener, src[i:j - 1]
    raise Fail(f"declaration of `{name}` not found in {FILES}")


class Gen:
    def __init__(self, srcs):
        self.srcs = srcs
        self.decls = {n: find_decl(srcs, n) for n in WANTED}

    def ty(self, t, ctx, inline_for=None):
        """Rust type -> Sch term.  `inline_for`: the recursive family being defined (its own name
        maps to the bound variable `self_`, its inlined cycle members are expanded in place)."""
        t = t.strip()
        t = re.sub(r"^(?:crate::|super::|ast::)", "", t)
        if t in PRIM: return PRIM[t]
        m = re.fullmatch(r"Box<\[(.+)\]>", t) or re.fullmatch(r"Vec<(.+)>", t)
        if m: return f".seq ({self.ty(m.group(1), ctx, inline_for)})"
        m = re.fullmatch(r"Box<(.+)>", t)
        if m: return self.ty(m.group(1), ctx, inline_for)
        m = re.fullmatch(r"Option<(.+)>", t)
        if m: return f".opt ({self.ty(m.group(1), ctx, inline_for)})"
        m = re.fullmatch(r"BTreeMap<(.+)>", t)
        if m:
            kv = split_top(m.group(1))
            if len(kv) != 2: raise Fail(f"{ctx}: BTreeMap arity in `{t}`")
            return f".map (.tup [{self.ty(kv[0], ctx, inline_for)}, {self.ty(kv[1], ctx, inline_for)}])"
        m = re.fullmatch(r"Result<(.+)>", t)
        if m:
            ab = split_top(m.group(1))
            if len(ab) != 2: raise Fail(f"{ctx}: Result arity in `{t}`")
            return f".enum [.tup [{self.ty(ab[0], ctx, inline_for)}], .tup [{self.ty(ab[1], ctx, inline_for)}]]"
        m = re.fullmatch(r"\((.+)\)", t)
        if m:
            return ".tup [" + ", ".join(self.ty(x, ctx, inline_for) for x in split_top(m.group(1))) + "]"
        if t == "Self":
            if not inline_for: raise Fail(f"{ctx}: `Self` outside a recursive family")
            return "self_"
        if t in WANTED:
            if inline_for:
                if t == inline_for: return "self_"
                if t in RECURSIVE[inline_for]: return "(" + self.body(t, inline_for) + ")"
            if t in RECURSIVE: return f"({lean_name(t)} d)"
            for fam, members in RECURSIVE.items():
                if t in members:
                    raise Fail(f"{ctx}: `{t}` is only understood inside the recursive family `{fam}`")
            return f"({lean_name(t)} d)"
        raise Fail(f"{ctx}: type `{t}` is not understood")

    def body(self, name, inline_for=None):
        rel, kind, opener, text = self.decls[name]
        ctx = f"{rel}: {name}"
        text = strip_attrs(text, ctx)
        if kind == "struct":
            if opener == "(":
                parts = split_top(text)
                if len(parts) != 1: raise Fail(f"{ctx}: tuple struct with {len(parts)} fields")
                return self.ty(re.sub(r"^pub(\([^)]*\))?\s+", "", parts[0]), ctx, inline_for)
            fields = []
            for f in split_top(text):
                m = re.fullmatch(r"(?:pub(?:\([^)]*\))?\s+)?(\w+)\s*:\s*(.+)", f, re.S)
                if not m: raise Fail(f"{ctx}: field `{f}` not understood")
                fields.append(self.ty(m.group(2), f"{ctx}.{m.group(1)}", inline_for))
            return ".tup [" + ", ".join(fields) + "]"
        variants = []
        for v in split_top(text):
            m = re.fullmatch(r"(\w+)\s*(?:\((.*)\))?", v, re.S)
            if not m: raise Fail(f"{ctx}: variant `{v}` not understood (struct variants / discriminants are not)")
            payload = split_top(m.group(2)) if m.group(2) else []
            variants.append(".tup [" + ", ".join(self.ty(p, f"{ctx}::{m.group(1)}", inline_for) for p in payload) + "]")
        return ".enum [" + ", ".join(variants) + "]"

    def names(self, name):
        rel, kind, opener, text = self.decls[name]
        text = strip_attrs(text, name)
        if kind == "enum":
            return [re.match(r"(\w+)", v).group(1) for v in split_top(text)]
        if opener == "(": return []
        return [re.fullmatch(r"(?:pub(?:\([^)]*\))?\s+)?(\w+)\s*:\s*(.+)", f, re.S).group(1) for f in split_top(text)]


def lean_name(t):
    return "s" + t


def gen():
    srcs = {rel: strip_comments(read(rel)) for rel in FILES}
    g = Gen(srcs)
    if "tag = \"version\"" not in srcs[FILES[0]]:
        raise Fail(f"{FILES[0]}: `ModuleData` is no longer `#[serde(tag = \"version\")]`")
    out = ["import AranyaV.Model.ModuleWire",
           "namespace AranyaV.Gen.ModuleSchema", "open AranyaV.ModuleWire", "",
           "/-! field / variant orders as declared (informational; the schemas below are what is used) -/"]
    for n in WANTED:
        out.append(f"-- {n}: {' '.join(g.names(n))}")
    out.append("")
    inlined = {m for ms in RECURSIVE.values() for m in ms}
    # recursive families first, then the rest in dependency order (Lean needs definitions before use)
    for fam in RECURSIVE:
        out.append(f"/-- `{fam}` (with {', '.join(RECURSIVE[fam])} inlined), nesting depth at most `d` -/")
        out.append(f"def {lean_name(fam)} : Nat → Sch\n  | 0 => .fail\n  | d + 1 =>\n    let self_ := {lean_name(fam)} d\n    {g.body(fam, fam)}")
        out.append("")
    done = set(RECURSIVE) | inlined
    todo = [n for n in WANTED if n not in done]
    bodies = {n: g.body(n) for n in todo}
    while todo:
        progressed = False
        for n in list(todo):
            deps = set(re.findall(r"\(s(\w+) d\)", bodies[n]))
            if deps <= done:
                out.append(f"/-- `{n}` -/\ndef {lean_name(n)} (d : Nat) : Sch :=\n  {bodies[n]}\n")
                done.add(n); todo.remove(n); progressed = True
        if not progressed:
            raise Fail(f"cyclic type definitions not declared in RECURSIVE: {todo}")
    out.append("end AranyaV.Gen.ModuleSchema\n")
    return "\n".join(out)


ITEMS = [("ModuleSchema", gen)]
