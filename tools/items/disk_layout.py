"""C15: layout constants and the `Root` control record of the libc linear-storage writer."""
import re
from extract import read, const, eval_int, strip_comments, Fail

REL = "crates/aranya-runtime/src/storage/linear/libc/imp.rs"

# Rust field type -> code used by the Lean model (`AranyaV.Disk.rootLayoutExpected`)
TYPE_CODE = {"u64": 0, "Option<u64>": 1, "i64": 2}
FIELDS = ["generation", "heads", "fact_cache", "free_offset", "checksum"]


def struct_fields(src, name):
    m = re.search(r"\bstruct\s+" + re.escape(name) + r"\s*\{", src)
    if not m:
        raise Fail(f"{REL}: struct {name} not found")
    i = m.end(); depth = 1; j = i
    while depth and j < len(src):
        if src[j] == "{": depth += 1
        elif src[j] == "}": depth -= 1
        j += 1
    body = re.sub(r"#\[[^\]]*\]", "", src[i:j - 1])
    out = []
    for part in body.split(","):
        part = part.strip()
        if not part:
            continue
        mm = re.fullmatch(r"(?:pub(?:\([^)]*\))?\s+)?(\w+)\s*:\s*(.+)", part, flags=re.S)
        if not mm:
            raise Fail(f"{REL}: cannot parse field `{part}` of struct {name}")
        out.append((mm.group(1), re.sub(r"\s+", "", mm.group(2))))
    return out


def gen():
    src = strip_comments(read(REL))
    env = {}
    names = ["PAGE", "ROOT_A", "ROOT_B", "FREE_START", "PREALLOC_CHUNK", "LEN_PREFIX_LEN"]
    for n in names:
        env[n] = eval_int(const(src, n, REL), REL, n, env)
    fields = struct_fields(src, "Root")
    if [f for f, _ in fields] != FIELDS:
        raise Fail(f"{REL}: struct Root fields are {[f for f, _ in fields]}, the model expects {FIELDS}")
    codes = []
    for f, t in fields:
        if t not in TYPE_CODE:
            raise Fail(f"{REL}: Root.{f} has type {t}, not one of {sorted(TYPE_CODE)}")
        codes.append(TYPE_CODE[t])
    # the order in which `calc_checksum` feeds the hasher (the model's `checksum` parameter is
    # instantiated with SipHash-2-4 over exactly this byte stream in the driver)
    m = re.search(r"fn\s+calc_checksum\s*\(&self\)\s*->\s*u64\s*\{", src)
    if not m:
        raise Fail(f"{REL}: Root::calc_checksum not found")
    body = src[m.end():m.end() + 900]
    seq = [r"SipHasher::new\(\)", r"write_u64\(self\.generation\)", r"\[self\.heads,\s*self\.fact_cache\]",
           r"write_u8\(1\)", r"write_u64\(offset\)", r"write_u8\(0\)", r"write_i64\(self\.free_offset\)", r"finish\(\)"]
    pos = 0
    for pat in seq:
        mm = re.compile(pat).search(body, pos)
        if not mm:
            raise Fail(f"{REL}: Root::calc_checksum no longer feeds the hasher in the modelled order (missing `{pat}`)")
        pos = mm.end()
    # `other_root` ping-pong
    if not re.search(r"fn\s+other_root\(slot:\s*i64\)\s*->\s*i64\s*\{\s*if\s+slot\s*==\s*ROOT_A\s*\{\s*ROOT_B\s*\}\s*else\s*\{\s*ROOT_A\s*\}", src):
        raise Fail(f"{REL}: other_root is not the modelled ping-pong")
    out = ["namespace AranyaV.Gen.DiskLayout", ""]
    lean = {"PAGE": "page", "ROOT_A": "rootA", "ROOT_B": "rootB", "FREE_START": "freeStart",
            "PREALLOC_CHUNK": "preallocChunk", "LEN_PREFIX_LEN": "lenPrefixLen"}
    for n in names:
        out.append(f"/-- `{n}` in {REL} -/")
        out.append(f"def {lean[n]} : Nat := {env[n]}")
        out.append("")
    out.append("/-- field types of `struct Root` in declaration order (generation, heads, fact_cache,")
    out.append("free_offset, checksum): 0 = `u64`, 1 = `Option<u64>`, 2 = `i64` -/")
    out.append(f"def rootLayout : List Nat := {codes}")
    out.append("")
    out.append("end AranyaV.Gen.DiskLayout")
    return "\n".join(out) + "\n"


ITEMS = [("DiskLayout", gen)]
