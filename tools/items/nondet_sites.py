"""C28: inventory of NONDETERMINISM SOURCES in the policy front end / compiler / module crates.

"Compiling the same policy text twice yields identical modules" cannot be proved without modelling
the ~10 kLoC compiler.  What CAN be pinned is the list of places where run-to-run variation could
enter at all.  This item scans the non-test code of

    crates/aranya-policy-compiler/src   crates/aranya-policy-module/src
    crates/aranya-policy-ast/src        crates/aranya-policy-lang/src

for, per (file, enclosing fn):
  * mentions of hash-ordered containers / hashers: `HashMap`, `HashSet`, `RandomState`, `hash_map::`,
    `hash_set::`, `IndexMap`, `IndexSet`, `DefaultHasher`, `BuildHasher`;
  * ITERATION over a hash-ordered container: `.iter() .iter_mut() .keys() .values() .values_mut()
    .into_iter() .into_keys() .into_values() .drain() .retain()` on, or `for .. in [&[mut]] X`, where
    `X` is a name (variable, parameter or field, with or without `self.`) that the same file
    declares with a type containing `HashMap`/`HashSet` or initialises from `HashMap::`/`HashSet::`;
    and `collect::<..Hash(Map|Set)..>()` immediately iterated;
  * `std::time` / `Instant` / `SystemTime`, `thread::` / `std::thread`, `rand` / `getrandom`,
    `std::env` / `env::var` / `env::args`, pointer addresses (`as *const`, `as *mut`, `{:p}`),
    `std::process::id`.
Sites are keyed `file::fn::kind` with a count (a multiset, not line numbers: pure refactors inside
a function do not disturb it).  They are compared with the reviewed allow-list
`tools/inventory/C28.json`, where every site carries a justification.  The generated Lean module
holds both tables (as FNV-64 of the key, count) and `Props/C28.lean` proves them equal by `decide`
(`no_unreviewed_nondeterminism`): a new site, a vanished one or a changed count breaks that theorem
— and only C28 — which sends `./check C28` into its failing-input search (compile the same text
again and again, in-process and in freshly seeded child processes, and compare the bytes).
Limits (stated, not hidden): iteration through an alias of a hash container (a loop variable bound
to an inner map, a `&HashMap` passed to a helper under another name) is only seen if that name is
itself declared with a hash type in the file; macros are not expanded; dependencies (pest, serde,
indexmap, petgraph) are not scanned.
"""
import json, re
from pathlib import Path
from extract import read, strip_comments, Fail, REPO

INV = Path(__file__).resolve().parent.parent / "inventory" / "C28.json"

CRATES = [
    "crates/aranya-policy-compiler/src",
    "crates/aranya-policy-module/src",
    "crates/aranya-policy-ast/src",
    "crates/aranya-policy-lang/src",
]

MENTION = [
    ("HashMap", r"\bHashMap\b"),
    ("HashSet", r"\bHashSet\b"),
    ("RandomState", r"\bRandomState\b"),
    ("hash_map::", r"\bhash_(?:map|set)\s*::"),
    ("IndexMap", r"\bIndexMap\b"),
    ("IndexSet", r"\bIndexSet\b"),
    ("Hasher", r"\b(?:DefaultHasher|BuildHasher\w*|FnvBuildHasher)\b"),
    ("time", r"\b(?:std::time|Instant|SystemTime|Duration::)"),
    ("thread", r"\b(?:std::thread|thread::|thread_local!)"),
    ("rand", r"\b(?:rand::|getrandom|thread_rng|OsRng|Rng\b)"),
    ("env", r"\b(?:std::env|env::(?:var|vars|args|current_dir|temp_dir))"),
    ("ptr-address", r"\bas\s+\*(?:const|mut)\b|core::ptr::|std::ptr::|\bptr::(?:eq|addr)"),
    ("process-id", r"\bprocess::id\b"),
]

ITER_METHODS = r"(?:iter|iter_mut|keys|values|values_mut|into_iter|into_keys|into_values|drain|retain)"


def rust_files():
    out = []
    for c in CRATES:
        root = Path(REPO) / c
        if not root.exists():
            raise Fail(f"source directory missing: {c}")
        for p in sorted(root.rglob("*.rs")):
            rel = str(p.relative_to(REPO))
            parts = p.relative_to(root).parts
            if any(x in ("tests", "test") for x in parts) or p.name in ("tests.rs", "test.rs"):
                continue
            out.append(rel)
    if not out:
        raise Fail("no source files found")
    return out


def split_fns(src):
    out, rest, pos = [], [], 0
    for m in re.finditer(r"\bfn\s+(\w+)\b[^{;]*\{", src):
        if m.start() < pos:
            continue
        i = m.end(); depth = 1; j = i
        while depth and j < len(src):
            if src[j] == "{": depth += 1
            elif src[j] == "}": depth -= 1
            j += 1
        out.append((m.group(1), src[m.start():j]))
        rest.append(src[pos:m.start()])
        pos = j
    rest.append(src[pos:])
    out.append(("<top-level>", "\n".join(rest)))
    return out


def hash_names(src):
    """identifiers the file declares with a hash-ordered type or initialises from one"""
    names = set()
    for m in re.finditer(r"\b(\w+)\s*:\s*([^;=\n{]*)", src):
        if re.search(r"\bHash(?:Map|Set)\b", m.group(2)) and m.group(1) not in ("where", "impl", "for"):
            names.add(m.group(1))
    for m in re.finditer(r"\blet\s+(?:mut\s+)?(\w+)\s*(?::[^=\n]*)?=\s*[^;]*?\bHash(?:Map|Set)\s*::", src):
        names.add(m.group(1))
    for m in re.finditer(r"\blet\s+(?:mut\s+)?(\w+)\s*(?::[^=\n]*)?=[^;]*?collect::<[^;]*?\bHash(?:Map|Set)\b", src):
        names.add(m.group(1))
    return names


def scan():
    found = {}
    def add(key, n=1):
        found[key] = found.get(key, 0) + n
    for rel in rust_files():
        raw = strip_comments(read(rel))
        k = raw.find("#[cfg(test)]")
        if k >= 0:
            raw = raw[:k]
        # `{:p}` lives inside format strings: look before strings are blanked
        nostr = re.sub(r'"(?:[^"\\]|\\.)*"', '""', raw)
        names = hash_names(nostr)
        fns_raw = dict()
        for fn, body in split_fns(raw):
            n = len(re.findall(r"\{:#?p\}", body))
            if n:
                add(f"{rel}::{fn}::fmt-pointer", n)
        for fn, body in split_fns(nostr):
            for kind, rx in MENTION:
                n = len(re.findall(rx, body))
                if n:
                    add(f"{rel}::{fn}::{kind}", n)
            for name in sorted(names):
                nm = re.escape(name)
                for m in re.finditer(r"(?<![\w.])(?:self\s*\.\s*)?" + nm + r"\s*\.\s*(" + ITER_METHODS + r")\s*\(", body):
                    add(f"{rel}::{fn}::hash-iter:{name}.{m.group(1)}")
                for m in re.finditer(r"\bfor\b[^{;]*?\bin\s+&?\s*(?:mut\s+)?(?:self\s*\.\s*)?" + nm + r"\s*\{", body):
                    add(f"{rel}::{fn}::hash-iter:for-in-{name}")
            n = len(re.findall(r"collect::<[^;(]*?\bHash(?:Map|Set)\b[^;(]*?>\s*\(\)\s*\.\s*" + ITER_METHODS + r"\s*\(", body))
            if n:
                add(f"{rel}::{fn}::hash-iter:collect-then-iterate", n)
    return found


def fnv64(s):
    h = 0xcbf29ce484222325
    for b in s.encode():
        h ^= b
        h = (h * 0x100000001b3) & 0xFFFFFFFFFFFFFFFF
    return h


def gen():
    found = scan()
    if not INV.exists():
        raise Fail(f"inventory {INV} missing")
    inv = json.loads(INV.read_text())["sites"]
    for k, v in inv.items():
        if not str(v.get("why", "")).strip():
            raise Fail(f"{INV}: site {k} has no justification")
    want = {k: v["count"] for k, v in inv.items()}
    diffs = []
    for k in sorted(set(found) | set(want)):
        if found.get(k, 0) != want.get(k, 0):
            diffs.append(f"{k}: source has {found.get(k, 0)}, reviewed inventory has {want.get(k, 0)}")
    esc = lambda s: s.replace("\\", "\\\\").replace('"', '\\"')
    def table(d):
        return ",\n  ".join(f"({fnv64(k)}, {v})" for k, v in sorted(d.items()))
    names = ",\n  ".join(f'"{esc(k)} x{v}"' for k, v in sorted(found.items()))
    dl = ",\n  ".join(f'"{esc(d)}"' for d in diffs)
    return f"""namespace AranyaV.Gen.NondetSites

/-- nondeterminism sources found in the non-test code of the policy compiler / module / ast / lang
crates, human readable: `file::fn::kind xCount` -/
def siteNames : List String := [
  {names}]

/-- the same, as (FNV-64 of `file::fn::kind`, occurrences), sorted by key text -/
def sites : List (Nat × Nat) := [
  {table(found)}]

/-- the reviewed allow-list `tools/inventory/C28.json` (every entry has a justification), same encoding -/
def reviewed : List (Nat × Nat) := [
  {table(want)}]

/-- differences between the source and the reviewed inventory, human readable -/
def differences : List String := [
  {dl}]

end AranyaV.Gen.NondetSites
"""


ITEMS = [("NondetSites", gen)]

if __name__ == "__main__":
    for k, v in sorted(scan().items()):
        print(v, k)
