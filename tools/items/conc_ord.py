"""Translator item: the memory orderings of every atomic access of the concurrency primitives
(C33 ArcStr, C43 futex mutex, C44 BiArc, C40-C42 shm channel table).

The skeleton items (conc_mutex.py, conc_shm.py) deliberately strip the `Ordering::…` arguments:
the models are sequentially consistent.  This item extracts them.  For each modelled function,
per atomic access in source order: `function:location:operation` (the *shape*) and the pair
(success ordering, failure ordering) — failure is `relaxed` for everything but
`compare_exchange`; `fence(Ordering::X)` is an access of its own with location `-`.
Generates `AranyaV.Gen.ConcOrd` with one `…Shape : List String` and one
`…Ords : List (MemOrd × MemOrd)` per primitive.  The `orderings_sufficient` theorems
(Props/C33, C43, C44, C42Ord) assert by `rfl` that the shape is the one that was classified
and by `decide` that every ordering is at least what its role requires, so weakening an
ordering, or adding an unclassified atomic access, breaks the build; strengthening one does not.
"""
import re
from extract import read, strip_comments, Fail

ORD = {"Relaxed": ".relaxed", "Acquire": ".acquire", "Release": ".release", "AcqRel": ".acqRel", "SeqCst": ".seqCst"}
OPS = r"load|store|swap|fetch_add|fetch_sub|fetch_or|fetch_and|compare_exchange_weak|compare_exchange"


def fn_body_at(src, start, rel, what):
    i = src.index("{", start)
    depth, j = 0, i
    while j < len(src):
        if src[j] == "{": depth += 1
        elif src[j] == "}":
            depth -= 1
            if depth == 0: return src[i + 1:j]
        j += 1
    raise Fail(f"{rel}: unbalanced braces in {what}")


def fn_bodies(src, name, rel):
    """bodies of all functions called `name`"""
    out = []
    for m in re.finditer(r"\bfn\s+" + re.escape(name) + r"\s*(?:<[^>{]*>)?\s*\(", src):
        # the body is the first `{` after the signature (skip `where` clauses / return types)
        out.append(fn_body_at(src, m.end(), rel, name))
    if not out:
        raise Fail(f"{rel}: fn {name} not found")
    return out


def call_args(body, i):
    """text between the parenthesis at body[i-1] == '(' and its match"""
    depth, j = 1, i
    while depth and j < len(body):
        if body[j] == "(": depth += 1
        elif body[j] == ")": depth -= 1
        j += 1
    return body[i:j - 1]


def accesses(body, fn, rel):
    """[(shape, succ, fail)] for the atomic accesses and fences of a function body, in source order"""
    out = []
    pat = re.compile(r"(\w+)\s*(?:\(\s*\))?\s*\.\s*(" + OPS + r")\s*\(|\bfence\s*\(")
    for m in pat.finditer(body):
        args = call_args(body, m.end())
        ords = re.findall(r"Ordering::(\w+)", args)
        if m.group(2) is None:
            if len(ords) != 1: raise Fail(f"{rel}: {fn}: fence without a literal ordering")
            out.append((f"{fn}:-:fence", ords[0], "Relaxed")); continue
        loc, op = m.group(1), m.group(2)
        if not ords:
            continue  # not an atomic (e.g. Vec::swap): atomics always name an Ordering
        if op.startswith("compare_exchange"):
            if len(ords) != 2: raise Fail(f"{rel}: {fn}: {loc}.{op} needs two literal orderings")
            out.append((f"{fn}:{loc}:cas", ords[0], ords[1]))
        else:
            if len(ords) != 1: raise Fail(f"{rel}: {fn}: {loc}.{op} needs one literal ordering")
            out.append((f"{fn}:{loc}:{op}", ords[0], "Relaxed"))
    for _, a, b in out:
        if a not in ORD or b not in ORD: raise Fail(f"{rel}: {fn}: unknown ordering {a}/{b}")
    return out


def strip_verif(src):
    src = re.sub(r"#\[cfg\(aranya_core_verif\)\]\s*\{.*?\n\s*\}\n", "", src, flags=re.S)
    src = re.sub(r"#\[cfg\(aranya_core_verif\)\]\s*[^\n{]*;\n", "", src)
    return src


def table(name, doc, rows):
    q = lambda s: '"' + s + '"'
    shape = "[" + ", ".join(q(r[0]) for r in rows) + "]"
    ords = "[" + ", ".join(f"({ORD[r[1]]}, {ORD[r[2]]})" for r in rows) + "]"
    return (f"/-- {doc}: `function:location:operation` of every atomic access, in source order -/\n"
            f"def {name}Shape : List String := {shape}\n"
            f"/-- … and its (success, failure) orderings as written in the source -/\n"
            f"def {name}Ords : List OrdPair := {ords}\n")


def gen():
    out = ["import AranyaV.Model.Conc.Ordering\nnamespace AranyaV.Gen.ConcOrd\nopen AranyaV.Conc\n"]
    # --- C43: futex mutex
    rel = "crates/aranya-fast-channels/src/mutex.rs"
    src = strip_verif(strip_comments(read(rel)))
    lock = [b for b in fn_bodies(src, "sys_lock", rel) if "futex_wait" in b]
    unlock = [b for b in fn_bodies(src, "sys_unlock", rel) if "futex_wake" in b]
    if len(lock) != 1 or len(unlock) != 1:
        raise Fail(f"{rel}: futex sys_lock/sys_unlock not found")
    rows = accesses(lock[0], "sys_lock", rel) + accesses(unlock[0], "sys_unlock", rel)
    if not rows: raise Fail(f"{rel}: no atomic access found")
    out.append(table("mutex", f"futex `sys_lock` / `sys_unlock` in {rel}", rows))
    # --- C44: BiArc
    rel = "crates/aranya-fast-channels/src/memory/lender.rs"
    src = strip_verif(strip_comments(read(rel)))
    rows = []
    for fn in ("try_clone", "get_unconditional", "get_if_shared", "drop"):
        bs = fn_bodies(src, fn, rel)
        if len(bs) != 1: raise Fail(f"{rel}: expected exactly one fn {fn}")
        rows += accesses(bs[0], fn, rel)
    if not rows: raise Fail(f"{rel}: no atomic access found")
    out.append(table("biarc", f"`BiArc` in {rel}", rows))
    # --- C33: ArcStr
    rel = "crates/aranya-policy-text/src/repr.rs"
    src = strip_verif(strip_comments(read(rel)))
    m = re.search(r"\bmod\s+arc\s*\{", src)
    if not m: raise Fail(f"{rel}: mod arc not found")
    arc = fn_body_at(src, m.start(), rel, "mod arc")
    rows = []
    for fn in ("new", "clone", "drop"):
        bs = fn_bodies(arc, fn, rel)
        if len(bs) != 1: raise Fail(f"{rel}: expected exactly one fn {fn} in mod arc")
        rows += accesses(bs[0], fn, rel)
    if not rows: raise Fail(f"{rel}: no atomic access found")
    out.append(table("arc", f"`ArcStr` in {rel}", rows))
    # --- C40-C42: shm channel table (reader / writer generation + offset protocol)
    rows = []
    for rel, fns in (
        ("crates/aranya-fast-channels/src/shm/shared.rs",
         ["read_off", "write_off", "swap_offsets", "clear", "remove_if"]),
        ("crates/aranya-fast-channels/src/shm/write.rs",
         ["add", "remove", "remove_all", "remove_if", "exists"]),
        ("crates/aranya-fast-channels/src/shm/read.rs",
         ["setup_seal_ctx", "setup_open_ctx", "seal", "open", "exists"]),
    ):
        src = strip_verif(strip_comments(read(rel)))
        short = rel.rsplit("/", 1)[1][:-3]
        for fn in fns:
            for k, b in enumerate(fn_bodies(src, fn, rel)):
                rows += accesses(b, f"{short}.{fn}" + (f"#{k}" if k else ""), rel)
    if not rows: raise Fail("shm: no atomic access found")
    out.append(table("shm", "shm channel table (shared.rs, write.rs, read.rs)", rows))
    out.append("end AranyaV.Gen.ConcOrd\n")
    return "\n".join(out)


ITEMS = [("ConcOrd", gen)]
