"""C25: panic-site inventory (DESIGN.md 3.3) for the functions the VM model covers.

Lists every panic-capable construct — `todo!`, `unimplemented!`, `unreachable!`, `panic!`,
`assert*!`, `.unwrap()`, `.expect(`, `.assume(` / `bug!` (buggy: panic under debug_assertions),
`with_capacity(`, slice/array indexing `x[i]`, unchecked binary `+ - *`, `/ %` — in EVERY function
of the VM's non-test code (machine.rs, scope.rs, stack.rs, io.rs, data.rs, context.rs, error.rs),
keyed on the multiset of (file, enclosing fn, kind of site) -> count (not on line numbers, so pure
refactors inside a function do not disturb it), and compares it with the
committed inventory `tools/inventory/C25.json`, where each site carries the model outcome it maps
to.  The result is the generated constant `inventoryOk`; `Props/C25.lean` requires it to be `true`,
so a new panic-capable construct in a modelled function (or a vanished one) breaks C25 — and only
C25.  A modelled function that cannot be found is a hard failure of the translator.
"""
import json, re
from pathlib import Path
from extract import read, strip_comments, Fail

INV = Path(__file__).resolve().parent.parent / "inventory" / "C25.json"

# every function of these files (non-test code) is scanned; sites are keyed (file, fn, token)
FILES = [
    "crates/aranya-policy-vm/src/machine.rs",
    "crates/aranya-policy-vm/src/scope.rs",
    "crates/aranya-policy-vm/src/stack.rs",
    "crates/aranya-policy-vm/src/io.rs",
    "crates/aranya-policy-vm/src/data.rs",
    "crates/aranya-policy-vm/src/context.rs",
    "crates/aranya-policy-vm/src/error.rs",
    # module-crate code the VM calls on its error path (MachineError::with_position, source_location)
    "crates/aranya-policy-module/src/codemap.rs",
]

# functions the model depends on by name: their disappearance is a hard failure of the translator
MUST_EXIST = {
    "crates/aranya-policy-vm/src/machine.rs": [
        "validate_fact_schema", "fact_match", "from_module", "ipush", "ipop", "ipop_value", "ipeek",
        "ipeek_value", "validate_struct_schema", "step", "run", "set_pc_by_label", "setup_command",
        "setup_function", "setup_action", "call_action", "call_command_policy", "call_seal", "call_open",
        "validate_fact_literal", "push_value", "pop_value", "peek_value",
    ],
    "crates/aranya-policy-vm/src/scope.rs": [
        "enter_function", "exit_function", "enter_block", "exit_block", "get", "set", "clear",
    ],
    "crates/aranya-policy-vm/src/stack.rs": ["push", "pop", "peek"],
    "crates/aranya-policy-module/src/codemap.rs": ["span_from_instruction", "linecol", "start_linecol", "as_str"],
}

TOKENS = [
    ("todo!", r"\btodo!\s*\("),
    ("unimplemented!", r"\bunimplemented!\s*\("),
    ("unreachable!", r"\bunreachable!\s*\("),
    ("panic!", r"\bpanic!\s*\("),
    ("assert!", r"\b(?:debug_)?assert(?:_eq|_ne)?!\s*\("),
    (".unwrap()", r"\.unwrap\(\)"),
    (".expect(", r"\.expect\("),
    (".assume(", r"\.assume\("),
    ("with_capacity(", r"\bwith_capacity\("),
    ("index[]", r"(?<![#&!\w])\b[a-z_][\w.]*(?:\(\))?\[[^\]\n]+\]"),
    ("unchecked +-*", r"[\w)\]]\s(?:\+|-|\*)\s[\w(]"),
    ("div/rem", r"[\w)\]]\s(?:/|%)\s[\w(]"),
    ("bug!", r"\bbug!\s*\("),
]


def strip_strings(src):
    return re.sub(r'"(?:[^"\\]|\\.)*"', '""', src)


def split_fns(src):
    """[(fn name, body)] for every outermost `fn` with a body, plus ("<top-level>", rest)"""
    out, rest, pos = [], [], 0
    for m in re.finditer(r"\bfn\s+(\w+)\b[^{;]*\{", src):
        if m.start() < pos:
            continue  # nested fn: belongs to the enclosing one
        i = m.end(); depth = 1; j = i
        while depth and j < len(src):
            if src[j] == "{": depth += 1
            elif src[j] == "}": depth -= 1
            j += 1
        out.append((m.group(1), src[i:j - 1]))
        rest.append(src[pos:m.start()])
        pos = j
    rest.append(src[pos:])
    out.append(("<top-level>", "\n".join(rest)))
    return out


def scan():
    found = {}
    for rel in FILES:
        src = strip_strings(strip_comments(read(rel)))
        # drop unit-test modules (`#[cfg(test)] mod …` at the end of the file)
        k = src.find("#[cfg(test)]")
        if k >= 0:
            src = src[:k]
        # attributes like #[derive(..)] / #[error("..")] are not code
        src = re.sub(r"#!?\[[^\]]*\]", "", src)
        fns = split_fns(src)
        names = {n for n, _ in fns}
        for need in MUST_EXIST.get(rel, []):
            if need not in names:
                raise Fail(f"{rel}: modelled fn {need} not found")
        for fn, body in fns:
            for tok, rx in TOKENS:
                n = len(re.findall(rx, body))
                if n:
                    key = f"{rel}::{fn}::{tok}"
                    found[key] = found.get(key, 0) + n
    return found


def gen():
    found = scan()
    if not INV.exists():
        raise Fail(f"inventory {INV} missing")
    inv = json.loads(INV.read_text())["sites"]
    want = {k: v["count"] for k, v in inv.items()}
    diffs = []
    for k in sorted(set(found) | set(want)):
        # more sites than reviewed (or an unreviewed one) is a difference; fewer is not: a removed
        # panic site can never break "the VM never panics"
        if found.get(k, 0) > want.get(k, 0):
            diffs.append(f"{k}: source has {found.get(k, 0)}, the reviewed allow-list has {want.get(k, 0)}")
    ok = not diffs
    esc = lambda s: s.replace("\\", "\\\\").replace('"', '\\"')
    rows = ",\n  ".join(f'("{esc(k)}", {found.get(k, 0)}, {want.get(k, 0)})' for k in sorted(set(found) | set(want)))
    dl = ",\n  ".join(f'"{esc(d)}"' for d in diffs)
    return f"""namespace AranyaV.Gen.VMPanicSites

/-- (file::fn::kind, occurrences found in the current source, occurrences reviewed in
tools/inventory/C25.json) for every panic-capable construct found or reviewed -/
def siteCounts : List (String × Nat × Nat) := [
  {rows}]

/-- sites exceeding their reviewed count -/
def differences : List String := [
  {dl}]

/-- no (file, function, kind) has more panic-capable constructs than reviewed (computed by the
translator; `Props/C25.panic_inventory_matches` re-decides it over `siteCounts` in Lean) -/
def inventoryOk : Bool := {"true" if ok else "false"}

end AranyaV.Gen.VMPanicSites
"""


ITEMS = [("VMPanicSites", gen)]

if __name__ == "__main__":
    import sys
    sys.path.insert(0, str(Path(__file__).resolve().parent.parent))
    for k, v in sorted(scan().items()):
        print(v, k)
