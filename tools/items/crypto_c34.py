"""C34: what `Cmd::digest`, `cmd_id`, `merge_cmd_id`, `IdExt::new`, `CipherSuiteExt::tuple_hash`
and the signing-key id feed to the hash: tags, the order of the hashed items, where the OIDs and
the id tag go.  The Lean model (`Model.Framing`, `Spec.Sym`) builds its preimages *from the
generated orders*, so dropping or reordering an item in the Rust source changes the model and
breaks exactly the theorem that needs the item (`digest_inj`, `verify_iff`, ...)."""
import re
from extract import read, strip_comments, Fail


import sys

# Advisory shape checks: exact-statement comparisons of functions whose BEHAVIOUR is tied by the
# harness (byte-level preimage recomputation, symbolic diff, S-level oracle).  A mismatch is
# recorded in the generated file (`… : Bool := false` + a comment) and printed, but is not a
# failure of the tie: a harmless refactor must not break the check, and a real change is caught
# by the harness with a concrete input.
ADVISORY = []


def advisory(msg: str) -> bool:
    ADVISORY.append(msg)
    sys.stderr.write("extract.py: NOTE (advisory shape check; behaviour is covered by the harness): " + msg + "\n")
    return False


def lean_bool(b: bool) -> str:
    return "true" if b else "false"


def advisory_comment(n0: int):
    return ["-- advisory shape note: " + m for m in ADVISORY[n0:]]


def lean_bytes(bs: bytes) -> str:
    return "[" + ", ".join(str(b) for b in bs) + "]"


def split_top(body: str):
    out, depth, cur = [], 0, ""
    for ch in body:
        if ch in "([{":
            depth += 1
        elif ch in ")]}":
            depth -= 1
        if ch == "," and depth == 0:
            out.append(cur.strip()); cur = ""
        else:
            cur += ch
    if cur.strip():
        out.append(cur.strip())
    return [re.sub(r"\s+", "", x) for x in out]


def balanced(src: str, i: int, open_ch="(", close_ch=")"):
    """src[i] == open_ch; returns the index just after the matching close"""
    assert src[i] == open_ch
    depth, j = 0, i
    while j < len(src):
        if src[j] == open_ch: depth += 1
        elif src[j] == close_ch:
            depth -= 1
            if depth == 0: return j + 1
        j += 1
    raise Fail("unbalanced parentheses")


def fn_body(src: str, name: str, rel: str) -> str:
    m = re.search(r"\bfn\s+" + re.escape(name) + r"\b", src)
    if not m:
        raise Fail(f"{rel}: fn {name} not found")
    i = src.find("{", m.end())
    # skip a where-clause / return type: first `{` after the signature's closing paren
    p = src.find("(", m.end())
    q = balanced(src, p)
    i = src.find("{", q)
    return src[i:balanced(src, i, "{", "}")]


def scan_lets(body: str):
    """`let [mut] name[: type] = rhs;` bindings of a function body -> {name: rhs} (top-level scan,
    tolerant of `;` / `=` inside the type, e.g. `let xs: [&[u8]; 2] = [..];`)"""
    lets = {}
    for m in re.finditer(r"\b(?:let\s+(?:mut\s+)?|const\s+)(\w+)\s*", body):
        k = m.end()
        depth = 0
        if k < len(body) and body[k] == ":":
            while k < len(body):
                ch = body[k]
                if ch in "([{<": depth += 1
                elif ch in ")]}>": depth -= 1
                elif ch == "=" and depth == 0: break
                k += 1
        if k >= len(body) or body[k] != "=" or body[k:k + 2] == "==":
            continue
        k += 1
        start, depth = k, 0
        while k < len(body):
            ch = body[k]
            if ch in "([{": depth += 1
            elif ch in ")]}": depth -= 1
            elif ch == ";" and depth == 0: break
            k += 1
        lets.setdefault(m.group(1), body[start:k].strip())
    return lets


def resolve(expr: str, lets, depth=0):
    """follow local `let` bindings of a bare identifier (also `&ident`)"""
    e = expr.strip()
    m = re.fullmatch(r"&?\s*(\w+)", e)
    if m and m.group(1) in lets and depth < 6:
        return resolve(lets[m.group(1)], lets, depth + 1)
    return e


def lit_bytes(expr: str, lets):
    """bytes of `b"…"`, of `"…".as_bytes()`, or of a function-local `let` / `const` bound to one of
    them (`NAME`, `NAME.as_bytes()`); None if the expression is not such a literal"""
    e = resolve(expr, lets)
    m = re.fullmatch(r'\s*&?\s*b"([^"\\]*)"\s*', e)
    if m:
        return m.group(1).encode()
    m = re.fullmatch(r'\s*(.+?)\s*\.as_bytes\(\)\s*', e, flags=re.S)
    if m:
        inner = resolve(m.group(1), lets)
        mm = re.fullmatch(r'\s*"([^"\\]*)"\s*', inner)
        if mm:
            return mm.group(1).encode()
    return None


def expand_receiver(e: str, lets, depth=0):
    """`x.as_bytes()` with `let x = self.key.id()?;` -> `self.key.id()?.as_bytes()`"""
    m = re.match(r"(&?\s*)(\w+)(\s*[.\[].*)$", e.strip(), flags=re.S)
    # (a `let x = f(x);` that shadows a parameter is not an alias: keep the name)
    if m and m.group(2) in lets and m.group(2) != "self" and depth < 4 \
            and not re.search(r"\b" + re.escape(m.group(2)) + r"\b", lets[m.group(2)]):
        return expand_receiver(m.group(1) + resolve(lets[m.group(2)], lets) + m.group(3), lets, depth + 1)
    return e


def _unparen(e: str) -> str:
    # parentheses introduced by parameter substitution around simple operands
    prev = None
    while prev != e:
        prev = e
        e = re.sub(r'\(\s*&?\s*((?:self\.)?[\w.]+(?:\(\))?)\s*\)', r"\1", e)
        e = re.sub(r'\(\s*(b"[^"\\]*")\s*\)', r"\1", e)
    return e


def fn_params(src: str, name: str, rel: str):
    m = re.search(r"\bfn\s+" + re.escape(name) + r"\b", src)
    if not m:
        raise Fail(f"{rel}: fn {name} not found")
    p = src.find("(", m.end())
    inner = src[p + 1:balanced(src, p) - 1]
    out = []
    parts, depth, cur = [], 0, ""
    for ch in inner:  # also `<…>` nests here (`&Sender<'_, CS>`)
        if ch in "([{<": depth += 1
        elif ch in ")]}>": depth -= 1
        if ch == "," and depth == 0:
            parts.append(cur); cur = ""
        else:
            cur += ch
    parts.append(cur)
    for a in parts:
        a = a.strip()
        if not a or re.fullmatch(r"&?\s*(?:'\w+\s+)?(?:mut\s+)?self", a):
            continue
        mm = re.match(r"(?:mut\s+)?(\w+)\s*:", a)
        if not mm:
            raise Fail(f"{rel}: fn {name}: cannot parse parameter `{a}`")
        out.append(mm.group(1))
    return out


def helper_calls(body: str, src: str, exclude):
    """calls in `body` to functions DEFINED in the same file: [(helper name, [raw args])]"""
    defs = set(re.findall(r"\bfn\s+(\w+)", src)) - set(exclude)
    out = []
    for name in sorted(defs):
        for m in re.finditer(r"(?<![\w.])(?:Self::|self\.)?" + re.escape(name) + r"\s*", body):
            k = m.end()
            if body[k:k + 3] == "::<":
                d, k = 0, k + 2
                while k < len(body):
                    if body[k] == "<": d += 1
                    elif body[k] == ">":
                        d -= 1
                        if d == 0: k += 1; break
                    k += 1
                while k < len(body) and body[k].isspace(): k += 1
            if k < len(body) and body[k] == "(":
                inner = body[k + 1:balanced(body, k) - 1]
                out.append((name, [a.strip() for a in split_top_raw(inner)]))
    return out


def _call_in(body: str, callee_re: str, nth=0):
    ms = list(re.finditer(callee_re + r"\s*\(", body))
    if len(ms) <= nth:
        return None
    i = ms[nth].end() - 1
    return split_top_raw(body[i + 1:balanced(body, i) - 1])


def _callee_re(callee: str) -> str:
    # `CmdId::new::<CS>` also matches `I::new::<CS>` / `Self::new::<CS>` in a generic helper
    m = re.fullmatch(r"\w+(::new::<\w+>)", callee)
    return (r"\b\w+" + re.escape(m.group(1))) if m else re.escape(callee)


def _tag_items(args, lets, rel, callee, subst=None):
    if len(args) < 2:
        raise Fail(f"{rel}: {callee}: expected (tag, items)")
    sub = subst or (lambda e: e)
    tagb = lit_bytes(sub(resolve(sub(args[0]), lets)), lets)
    if tagb is None:
        raise Fail(f"{rel}: {callee}: tag is not (or does not resolve to) a byte-string literal: {args[0].strip()!r}")
    arr = resolve(args[1], lets)
    if not (arr.startswith("[") and arr.endswith("]")):
        raise Fail(f"{rel}: {callee}: items are not (and do not resolve to) an array literal: {args[1].strip()!r}")
    items = []
    for it in split_top_raw(arr[1:-1]):
        if not it.strip():
            continue
        e = sub(expand_receiver(resolve(it, lets), lets))
        items.append(re.sub(r"\s+", "", e))
    return tagb, items


def call_args(body: str, callee: str, rel: str, nth=0, src=None, fn_name=None):
    """(tag bytes, [normalised item expressions]) of the nth `callee(tag, items)` reachable from
    `body`.  Tolerated refactors: `tag` / `items` / single items / item receivers bound to function-local
    `let` or `const` (byte-string or `&str` + `.as_bytes()`); the call
    moved into ONE level of helper function of the same file (pass `src`), with tag and items
    forwarded positionally from the caller (parameters are substituted by the caller's arguments,
    so the item expressions come out as if written inline)."""
    cre = _callee_re(callee)
    args = _call_in(body, cre, nth)
    if args is not None:
        return _tag_items(args, scan_lets(body), rel, callee)
    if src is not None:
        clets = scan_lets(body)
        for h, hargs in helper_calls(body, src, exclude=[fn_name] if fn_name else []):
            hb = fn_body(src, h, rel)
            a2 = _call_in(hb, cre, 0)
            if a2 is None:
                continue
            params = fn_params(src, h, rel)
            if len(params) != len(hargs):
                continue
            amap = {p: resolve(a, clets) for p, a in zip(params, hargs)}

            def subst(e, amap=amap):
                # simultaneous substitution of the helper's parameters by the caller's arguments
                pat = r"(?<![\w.\"])(" + "|".join(re.escape(p) for p in sorted(amap, key=len, reverse=True)) + r")\b(?![\"\w]|\s*(?:::|\())"
                return _unparen(re.sub(pat, lambda m: "(" + amap[m.group(1)] + ")", e)) if amap else e
            return _tag_items(a2, scan_lets(hb), rel, f"{callee} (via helper {h})", subst)
    raise Fail(f"{rel}: call {callee}(..) #{nth} not found (also not through one level of same-file helper)")


def hash_call(src: str, fn_name: str, callee: str, rel: str, nth=0, scope=None):
    """`call_args` for the function `fn_name` of `src` (searched in `scope` if given)"""
    return call_args(fn_body(scope if scope is not None else src, fn_name, rel), callee, rel, nth, src=src, fn_name=fn_name)


def split_top_raw(body: str):
    out, depth, cur = [], 0, ""
    for ch in body:
        if ch in "([{":
            depth += 1
        elif ch in ")]}":
            depth -= 1
        if ch == "," and depth == 0:
            out.append(cur); cur = ""
        else:
            cur += ch
    if cur.strip():
        out.append(cur)
    return out


def map_items(items, table, rel, what):
    out = []
    for it in items:
        if it not in table:
            raise Fail(f"{rel}: {what}: unknown hashed item `{it}` (model knows {sorted(table)})")
        out.append(table[it])
    return out


def gen():
    n0 = len(ADVISORY)
    L = ["namespace AranyaV.Gen.C34", ""]
    # ---- CipherSuiteExt::tuple_hash: tag, then OIDs, then the context
    rel = "crates/aranya-crypto/src/ciphersuite/ext.rs"
    src = strip_comments(read(rel))
    i = src.find("impl<CS: CipherSuite> CipherSuiteExt for CS")
    if i < 0:
        raise Fail(f"{rel}: impl CipherSuiteExt not found")
    body = re.sub(r"\s+", "", fn_body(src[i:], "tuple_hash", rel))
    want = "iter::once(tag).chain(CS::OIDS.into_iter().map(Oid::as_bytes)).chain(context);hash::tuple_hash::<Self::Hash,_>(iter)"
    ok = want in body or advisory(f"{rel}: CipherSuiteExt::tuple_hash is not literally once(tag).chain(OIDS).chain(context)")
    L += ["/-- `CipherSuiteExt::tuple_hash` hashes `tag :: oids ++ context` (advisory source comparison with " + rel + ";",
          "the order itself is tied by every preimage the harness recomputes) -/",
          f"def tupleOrderTagOidsContext : Bool := {lean_bool(ok)}", ""]
    # ---- IdExt::new : tuple_hash("ID-v1", data ++ [tag])
    rel = "crates/aranya-crypto/src/id.rs"
    src = strip_comments(read(rel))
    m = re.search(r'CS::tuple_hash\(\s*b"([^"]*)"\s*,\s*data\.into_iter\(\)\.chain\(iter::once\(tag\)\)\s*\)', src)
    if not m:
        raise Fail(f"{rel}: IdExt::new is no longer tuple_hash(<tag>, data ++ [tag])")
    L += [f"/-- outer tag of every derived id (`IdExt::new` in {rel}): `{m.group(1)}`; the per-kind tag is hashed LAST -/",
          f"def idTag : List UInt8 := {lean_bytes(m.group(1).encode())}", ""]
    # ---- policy.rs
    rel = "crates/aranya-crypto/src/policy.rs"
    src = strip_comments(read(rel))
    tag, items = hash_call(src, "digest", "CS::tuple_hash", rel)
    order = map_items(items, {"author.as_bytes()": "author", "self.name.as_bytes()": "name",
                              "self.parent_id.as_bytes()": "parent", "self.data": "data"}, rel, "Cmd::digest")
    L += [f"/-- tag of `Cmd::digest` in {rel}: `{tag.decode()}` -/",
          f"def signTag : List UInt8 := {lean_bytes(tag)}", "",
          "/-- the inputs a command signature can bind -/",
          "inductive DigestField where | author | name | parent | data",
          "deriving DecidableEq, Repr", "",
          f"/-- items hashed by `Cmd::digest` after the tag and the OIDs, in source order -/",
          "def digestOrder : List DigestField := [" + ", ".join("." + o for o in order) + "]", ""]
    tag, items = hash_call(src, "cmd_id", "CmdId::new::<CS>", rel)
    order = map_items(items, {"cmd.as_bytes()": "digest", "sig.raw_sig().borrow()": "sig"}, rel, "cmd_id")
    L += [f"/-- per-kind tag of `cmd_id` in {rel}: `{tag.decode()}` -/",
          f"def cmdIdTag : List UInt8 := {lean_bytes(tag)}", "",
          "inductive CmdIdField where | digest | sig",
          "deriving DecidableEq, Repr", "",
          "def cmdIdOrder : List CmdIdField := [" + ", ".join("." + o for o in order) + "]", ""]
    tag, items = hash_call(src, "merge_cmd_id", "CmdId::new::<CS>", rel)
    order = map_items(items, {"left.as_bytes()": "left", "right.as_bytes()": "right"}, rel, "merge_cmd_id")
    L += [f"/-- per-kind tag of `merge_cmd_id` in {rel}: `{tag.decode()}` -/",
          f"def mergeIdTag : List UInt8 := {lean_bytes(tag)}", "",
          "inductive MergeIdField where | left | right",
          "deriving DecidableEq, Repr", "",
          "def mergeIdOrder : List MergeIdField := [" + ", ".join("." + o for o in order) + "]", ""]
    # ---- signing key id context (aranya.rs signing_key! { sk = SigningKey, .. context = ".." })
    rel = "crates/aranya-crypto/src/aranya.rs"
    src = strip_comments(read(rel))
    m = re.search(r'signing_key!\s*\{\s*sk\s*=\s*SigningKey\s*,\s*pk\s*=\s*VerifyingKey\s*,\s*id\s*=\s*SigningKeyId\s*,\s*context\s*=\s*"([^"]*)"', src)
    if not m:
        raise Fail(f"{rel}: signing_key!{{sk = SigningKey, ..}} context not found")
    L += [f"/-- id context of `SigningKey`/`VerifyingKey` in {rel}: `{m.group(1)}` -/",
          f"def signingKeyCtx : List UInt8 := {lean_bytes(m.group(1).encode())}", ""]
    # key id = IdExt::new(context, once(pk.export()))
    rel = "crates/aranya-crypto/src/misc.rs"
    src = re.sub(r"\s+", "", strip_comments(read(rel)))
    if "$crate::id::IdExt::new::<CS>(CONTEXT.as_bytes(),::core::iter::once(::core::borrow::Borrow::borrow(&self.pk.export())),)" not in src:
        advisory(f"{rel}: pk_misc!: key id is not literally IdExt::new(CONTEXT, [pk.export()])")
    # sign_cmd / verify_cmd both use cmd.digest(self.id()) then policy::cmd_id(&digest, sig)
    rel = "crates/aranya-crypto/src/aranya.rs"
    src = strip_comments(read(rel))
    sb = re.sub(r"\s+", "", fn_body(src, "sign_cmd", rel))
    vb = re.sub(r"\s+", "", fn_body(src, "verify_cmd", rel))
    ok = True
    if "letdigest=cmd.digest::<CS>(self.id()?);letsig=Signature(self.sk.sign(&digest)?);letid=policy::cmd_id(&digest,&sig);Ok((sig,id))" not in sb:
        ok = advisory(f"{rel}: sign_cmd is not literally digest(self.id) -> sign -> cmd_id(digest, sig)")
    if "letdigest=cmd.digest::<CS>(self.id()?);self.pk.verify(&digest,&sig.0)?;letid=policy::cmd_id(&digest,sig);Ok(id)" not in vb:
        ok = advisory(f"{rel}: verify_cmd is not literally digest(self.id) -> verify -> cmd_id(digest, sig)")
    L += ["/-- `sign_cmd`/`verify_cmd` literally have the modelled shape (advisory; behaviour tied by the harness) -/",
          f"def signVerifyShape : Bool := {lean_bool(ok)}", ""]
    # Ffi::verify compares the derived id with the claimed id
    rel = "crates/aranya-crypto-ffi/src/ffi.rs"
    src = strip_comments(read(rel))
    vb = re.sub(r"\s+", "", fn_body(src, "verify", rel))
    ok = True
    if "letid=pk.verify_cmd(cmd,&signature)?;ifbool::from(id.ct_eq(&command_id)){Ok(())}else{Err(InvalidCmdId(()).into())}" not in vb:
        ok = advisory(f"{rel}: Ffi::verify is not literally verify_cmd then `if id.ct_eq(&command_id) Ok else Err(InvalidCmdId)`")
    L += ["/-- `Ffi::verify` literally is `verify_cmd` then claimed-id comparison (advisory; the harness's",
          "claimed-id mutations decide the behaviour) -/",
          f"def ffiVerifyShape : Bool := {lean_bool(ok)}", ""] + advisory_comment(n0) + ["", "end AranyaV.Gen.C34"]
    return "\n".join(L) + "\n"


ITEMS = [("CryptoC34", gen)]
