"""C34: what `Cmd::digest`, `cmd_id`, `merge_cmd_id`, `IdExt::new`, `CipherSuiteExt::tuple_hash`
and the signing-key id feed to the hash: tags, the order of the hashed items, where the OIDs and
the id tag go.  The Lean model (`Model.Framing`, `Spec.Sym`) builds its preimages *from the
generated orders*, so dropping or reordering an item in the Rust source changes the model and
breaks exactly the theorem that needs the item (`digest_inj`, `verify_iff`, ...)."""
import re
from extract import read, strip_comments, Fail


def lean_bytes(bs: bytes) -> str:
    return "[" + ", ".join(str(b) for b in bs) + "]"


def split_top(body: str):
    out, depth, cur = [], 0, ""
    for ch in body:
        if ch in "([{":
            depth += 1
        elif ch in ")]}":
            depth -= 1
        if ch == "," and depth == 0:
            out.append(cur.strip()); cur = ""
        else:
            cur += ch
    if cur.strip():
        out.append(cur.strip())
    return [re.sub(r"\s+", "", x) for x in out]


def balanced(src: str, i: int, open_ch="(", close_ch=")"):
    """src[i] == open_ch; returns the index just after the matching close"""
    assert src[i] == open_ch
    depth, j = 0, i
    while j < len(src):
        if src[j] == open_ch: depth += 1
        elif src[j] == close_ch:
            depth -= 1
            if depth == 0: return j + 1
        j += 1
    raise Fail("unbalanced parentheses")


def fn_body(src: str, name: str, rel: str) -> str:
    m = re.search(r"\bfn\s+" + re.escape(name) + r"\b", src)
    if not m:
        raise Fail(f"{rel}: fn {name} not found")
    i = src.find("{", m.end())
    # skip a where-clause / return type: first `{` after the signature's closing paren
    p = src.find("(", m.end())
    q = balanced(src, p)
    i = src.find("{", q)
    return src[i:balanced(src, i, "{", "}")]


def call_args(body: str, callee: str, rel: str, nth=0):
    """(tag bytes, [normalised item expressions]) of the nth `callee(b"tag", [items])` in body"""
    ms = list(re.finditer(re.escape(callee) + r"\s*\(", body))
    if len(ms) <= nth:
        raise Fail(f"{rel}: call {callee}(..) #{nth} not found")
    i = ms[nth].end() - 1
    inner = body[i + 1:balanced(body, i) - 1]
    args = split_top_raw(inner)
    if len(args) < 2:
        raise Fail(f"{rel}: {callee}: expected (tag, items)")
    mt = re.fullmatch(r'\s*b"([^"\\]*)"\s*', args[0])
    if not mt:
        raise Fail(f"{rel}: {callee}: tag is not a byte-string literal: {args[0]!r}")
    arr = args[1].strip()
    if not (arr.startswith("[") and arr.endswith("]")):
        raise Fail(f"{rel}: {callee}: items are not an array literal: {arr!r}")
    return mt.group(1).encode(), split_top(arr[1:-1])


def split_top_raw(body: str):
    out, depth, cur = [], 0, ""
    for ch in body:
        if ch in "([{":
            depth += 1
        elif ch in ")]}":
            depth -= 1
        if ch == "," and depth == 0:
            out.append(cur); cur = ""
        else:
            cur += ch
    if cur.strip():
        out.append(cur)
    return out


def map_items(items, table, rel, what):
    out = []
    for it in items:
        if it not in table:
            raise Fail(f"{rel}: {what}: unknown hashed item `{it}` (model knows {sorted(table)})")
        out.append(table[it])
    return out


def gen():
    L = ["namespace AranyaV.Gen.C34", ""]
    # ---- CipherSuiteExt::tuple_hash: tag, then OIDs, then the context
    rel = "crates/aranya-crypto/src/ciphersuite/ext.rs"
    src = strip_comments(read(rel))
    i = src.find("impl<CS: CipherSuite> CipherSuiteExt for CS")
    if i < 0:
        raise Fail(f"{rel}: impl CipherSuiteExt not found")
    body = re.sub(r"\s+", "", fn_body(src[i:], "tuple_hash", rel))
    want = "iter::once(tag).chain(CS::OIDS.into_iter().map(Oid::as_bytes)).chain(context);hash::tuple_hash::<Self::Hash,_>(iter)"
    if want not in body:
        raise Fail(f"{rel}: CipherSuiteExt::tuple_hash no longer hashes (tag, OIDs.., context..) in that order")
    L += ["/-- `CipherSuiteExt::tuple_hash` hashes `tag :: oids ++ context` (checked against " + rel + ") -/",
          "def tupleOrderTagOidsContext : Bool := true", ""]
    # ---- IdExt::new : tuple_hash("ID-v1", data ++ [tag])
    rel = "crates/aranya-crypto/src/id.rs"
    src = strip_comments(read(rel))
    m = re.search(r'CS::tuple_hash\(\s*b"([^"]*)"\s*,\s*data\.into_iter\(\)\.chain\(iter::once\(tag\)\)\s*\)', src)
    if not m:
        raise Fail(f"{rel}: IdExt::new is no longer tuple_hash(<tag>, data ++ [tag])")
    L += [f"/-- outer tag of every derived id (`IdExt::new` in {rel}): `{m.group(1)}`; the per-kind tag is hashed LAST -/",
          f"def idTag : List UInt8 := {lean_bytes(m.group(1).encode())}", ""]
    # ---- policy.rs
    rel = "crates/aranya-crypto/src/policy.rs"
    src = strip_comments(read(rel))
    tag, items = call_args(fn_body(src, "digest", rel), "CS::tuple_hash", rel)
    order = map_items(items, {"author.as_bytes()": "author", "self.name.as_bytes()": "name",
                              "self.parent_id.as_bytes()": "parent", "self.data": "data"}, rel, "Cmd::digest")
    L += [f"/-- tag of `Cmd::digest` in {rel}: `{tag.decode()}` -/",
          f"def signTag : List UInt8 := {lean_bytes(tag)}", "",
          "/-- the inputs a command signature can bind -/",
          "inductive DigestField where | author | name | parent | data",
          "deriving DecidableEq, Repr", "",
          f"/-- items hashed by `Cmd::digest` after the tag and the OIDs, in source order -/",
          "def digestOrder : List DigestField := [" + ", ".join("." + o for o in order) + "]", ""]
    tag, items = call_args(fn_body(src, "cmd_id", rel), "CmdId::new::<CS>", rel)
    order = map_items(items, {"cmd.as_bytes()": "digest", "sig.raw_sig().borrow()": "sig"}, rel, "cmd_id")
    L += [f"/-- per-kind tag of `cmd_id` in {rel}: `{tag.decode()}` -/",
          f"def cmdIdTag : List UInt8 := {lean_bytes(tag)}", "",
          "inductive CmdIdField where | digest | sig",
          "deriving DecidableEq, Repr", "",
          "def cmdIdOrder : List CmdIdField := [" + ", ".join("." + o for o in order) + "]", ""]
    tag, items = call_args(fn_body(src, "merge_cmd_id", rel), "CmdId::new::<CS>", rel)
    order = map_items(items, {"left.as_bytes()": "left", "right.as_bytes()": "right"}, rel, "merge_cmd_id")
    L += [f"/-- per-kind tag of `merge_cmd_id` in {rel}: `{tag.decode()}` -/",
          f"def mergeIdTag : List UInt8 := {lean_bytes(tag)}", "",
          "inductive MergeIdField where | left | right",
          "deriving DecidableEq, Repr", "",
          "def mergeIdOrder : List MergeIdField := [" + ", ".join("." + o for o in order) + "]", ""]
    # ---- signing key id context (aranya.rs signing_key! { sk = SigningKey, .. context = ".." })
    rel = "crates/aranya-crypto/src/aranya.rs"
    src = strip_comments(read(rel))
    m = re.search(r'signing_key!\s*\{\s*sk\s*=\s*SigningKey\s*,\s*pk\s*=\s*VerifyingKey\s*,\s*id\s*=\s*SigningKeyId\s*,\s*context\s*=\s*"([^"]*)"', src)
    if not m:
        raise Fail(f"{rel}: signing_key!{{sk = SigningKey, ..}} context not found")
    L += [f"/-- id context of `SigningKey`/`VerifyingKey` in {rel}: `{m.group(1)}` -/",
          f"def signingKeyCtx : List UInt8 := {lean_bytes(m.group(1).encode())}", ""]
    # key id = IdExt::new(context, once(pk.export()))
    rel = "crates/aranya-crypto/src/misc.rs"
    src = re.sub(r"\s+", "", strip_comments(read(rel)))
    if "$crate::id::IdExt::new::<CS>(CONTEXT.as_bytes(),::core::iter::once(::core::borrow::Borrow::borrow(&self.pk.export())),)" not in src:
        raise Fail(f"{rel}: pk_misc!: key id is no longer IdExt::new(CONTEXT, [pk.export()])")
    # sign_cmd / verify_cmd both use cmd.digest(self.id()) then policy::cmd_id(&digest, sig)
    rel = "crates/aranya-crypto/src/aranya.rs"
    src = strip_comments(read(rel))
    sb = re.sub(r"\s+", "", fn_body(src, "sign_cmd", rel))
    vb = re.sub(r"\s+", "", fn_body(src, "verify_cmd", rel))
    if "letdigest=cmd.digest::<CS>(self.id()?);letsig=Signature(self.sk.sign(&digest)?);letid=policy::cmd_id(&digest,&sig);Ok((sig,id))" not in sb:
        raise Fail(f"{rel}: sign_cmd changed shape (model: digest(self.id) -> sign -> cmd_id(digest, sig))")
    if "letdigest=cmd.digest::<CS>(self.id()?);self.pk.verify(&digest,&sig.0)?;letid=policy::cmd_id(&digest,sig);Ok(id)" not in vb:
        raise Fail(f"{rel}: verify_cmd changed shape (model: digest(self.id) -> verify -> cmd_id(digest, sig))")
    L += ["/-- `sign_cmd`/`verify_cmd` have the modelled shape (checked against " + rel + ") -/",
          "def signVerifyShape : Bool := true", ""]
    # Ffi::verify compares the derived id with the claimed id
    rel = "crates/aranya-crypto-ffi/src/ffi.rs"
    src = strip_comments(read(rel))
    vb = re.sub(r"\s+", "", fn_body(src, "verify", rel))
    if "letid=pk.verify_cmd(cmd,&signature)?;ifbool::from(id.ct_eq(&command_id)){Ok(())}else{Err(InvalidCmdId(()).into())}" not in vb:
        raise Fail(f"{rel}: Ffi::verify no longer compares the derived command id with the claimed one")
    L += ["/-- `Ffi::verify` = `verify_cmd` then claimed-id comparison (checked against " + rel + ") -/",
          "def ffiVerifyShape : Bool := true", "", "end AranyaV.Gen.C34"]
    return "\n".join(L) + "\n"


ITEMS = [("CryptoC34", gen)]
