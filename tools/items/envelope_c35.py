"""C35: where `VmPolicy::call_rule` takes the fields of the envelope it hands to the `open` block
from, the order open -> policy, and the bypass of `open` inside a braid.  `Model.Envelope` builds
its envelope FROM these generated sources, so feeding a default instead of the received command's
parent id (or the wrong id / author / signature) changes the model and breaks exactly the theorems
that need the field (`envelope_sources`, `honest_accepted`, `changed_parent_rejected`, ...)."""
import re
from extract import read, strip_comments, Fail

REL = "crates/aranya-runtime/src/vm_policy.rs"


def balanced(src, i, o="{", c="}"):
    assert src[i] == o
    depth, j = 0, i
    while j < len(src):
        if src[j] == o:
            depth += 1
        elif src[j] == c:
            depth -= 1
            if depth == 0:
                return j + 1
        j += 1
    raise Fail(f"{REL}: unbalanced braces")


def fn_body(src, name):
    m = re.search(r"\bfn\s+" + re.escape(name) + r"\b", src)
    if not m:
        raise Fail(f"{REL}: fn {name} not found")
    p = src.find("(", m.end())
    q = balanced(src, p, "(", ")")
    i = src.find("{", q)
    return src[i:balanced(src, i)]


ID_SRC = {
    "CmdId::default()": "zero",
    "parent.id": "parentId",
    "command.id()": "receivedId",
}
PL_SRC = {
    "author_id": "author",
    "kind": "kind",
    "payload": "fields",
    "signature": "signature",
    "Cow::Borrowed(signature)": "signature",
}


def gen():
    src = strip_comments(read(REL))
    body = fn_body(src, "call_rule")
    flat = re.sub(r"\s+", "", body)

    # let parent_id = match command.parent() { Prior::None => .., Prior::Single(parent) => .., Prior::Merge(..) => bug!(..) };
    m = re.search(r"letparent_id=matchcommand\.parent\(\)\{Prior::None=>([^,]+),Prior::Single\(parent\)=>([^,]+),Prior::Merge\(_,_\)=>bug!\(", flat)
    if not m:
        raise Fail(f"{REL}: call_rule: `let parent_id = match command.parent() {{ None / Single(parent) / Merge => bug! }}` not found")
    none_src, single_src = m.group(1), m.group(2)
    for s in (none_src, single_src):
        if s not in ID_SRC:
            raise Fail(f"{REL}: call_rule: unknown parent id source `{s}` (model knows {sorted(ID_SRC)})")

    # destructuring of VmProtocolData
    m = re.search(r"letVmProtocolData\{author_id,kind,serialized_fields:payload,signature,?\}=postcard::from_bytes\(command\.bytes\(\)\)", flat)
    if not m:
        raise Fail(f"{REL}: call_rule: VmProtocolData is no longer decoded from command.bytes() into (author_id, kind, payload, signature)")

    # let envelope = Envelope { parent_id, author_id, command_id: command.id(), signature: Cow::Borrowed(signature), };
    m = re.search(r"letenvelope=Envelope\{([^}]*)\}", flat)
    if not m:
        raise Fail(f"{REL}: call_rule: `let envelope = Envelope {{ .. }}` not found")
    fields = {}
    for part in [p for p in m.group(1).split(",") if p]:
        if ":" in part:
            k, v = part.split(":", 1)
        else:
            k, v = part, part
        fields[k] = v
    want = {"parent_id", "author_id", "command_id", "signature"}
    if set(fields) != want:
        raise Fail(f"{REL}: call_rule: Envelope fields are {sorted(fields)}, model knows {sorted(want)}")
    if fields["parent_id"] != "parent_id":
        raise Fail(f"{REL}: call_rule: envelope.parent_id is `{fields['parent_id']}`, not the parent id computed from command.parent()")
    if fields["command_id"] not in ID_SRC:
        raise Fail(f"{REL}: call_rule: unknown command id source `{fields['command_id']}`")
    for k in ("author_id", "signature"):
        if fields[k] not in PL_SRC:
            raise Fail(f"{REL}: call_rule: unknown source `{fields[k]}` for envelope.{k}")

    # open_command(command_struct.clone(), payload.to_vec(), envelope.clone(), facts) at origin / off graph,
    # nothing inside a braid, before evaluate_rule
    i_open = flat.find("self.open_command(command_struct.clone(),payload.to_vec(),envelope.clone(),facts,)?")
    if i_open < 0:
        i_open = flat.find("self.open_command(command_struct.clone(),payload.to_vec(),envelope.clone(),facts)?")
    i_rule = flat.find("self.evaluate_rule(kind,fields.as_slice(),envelope,facts,sink,ctx)?")
    if i_open < 0 or i_rule < 0:
        raise Fail(f"{REL}: call_rule: open_command(command_struct, payload, envelope, facts)? / evaluate_rule(kind, fields, envelope, ..)? not found")
    if not i_open < i_rule:
        raise Fail(f"{REL}: call_rule: the open block no longer runs before the policy block")
    if not re.search(r"CommandPlacement::OnGraphAtOrigin\|CommandPlacement::OffGraph=>\{self\.open_command\(", flat):
        raise Fail(f"{REL}: call_rule: open_command is no longer run for OnGraphAtOrigin | OffGraph")
    braid_bypass = re.search(r"CommandPlacement::OnGraphInBraid=>\{\}", flat) is not None
    m = re.search(r"letcommand_struct=self\.machine\.deserialize_struct\(kind\.clone\(\),payload\)", flat)
    if not m:
        raise Fail(f"{REL}: call_rule: command_struct is no longer deserialize_struct(kind, payload)")

    # open_command: OpenContext name = this_data.name (the command name from the payload)
    ob = re.sub(r"\s+", "", fn_body(src, "open_command"))
    if "CommandContext::Open(OpenContext{name:this_data.name.clone(),})" not in ob and \
       "CommandContext::Open(OpenContext{name:this_data.name.clone()})" not in ob:
        raise Fail(f"{REL}: open_command: the OpenContext name is no longer the command struct's name")
    if "rs.call_open(this_data,payload,envelope.into())" not in ob:
        raise Fail(f"{REL}: open_command: call_open(this_data, payload, envelope) not found")

    L = ["namespace AranyaV.Gen.C35", "",
         f"/-- where `call_rule` ({REL}) takes an id of the envelope from -/",
         "inductive IdSrc where | zero | parentId | receivedId",
         "deriving DecidableEq, Repr", "",
         "/-- a field of the decoded `VmProtocolData` -/",
         "inductive PlSrc where | author | kind | fields | signature",
         "deriving DecidableEq, Repr", "",
         f"/-- `Prior::None => {none_src}` -/",
         f"def envParentOfNone : IdSrc := .{ID_SRC[none_src]}",
         f"/-- `Prior::Single(parent) => {single_src}` -/",
         f"def envParentOfSingle : IdSrc := .{ID_SRC[single_src]}",
         f"/-- `command_id: {fields['command_id']}` -/",
         f"def envCommandId : IdSrc := .{ID_SRC[fields['command_id']]}",
         f"/-- `author_id: {fields['author_id']}` -/",
         f"def envAuthor : PlSrc := .{PL_SRC[fields['author_id']]}",
         f"/-- `signature: {fields['signature']}` -/",
         f"def envSignature : PlSrc := .{PL_SRC[fields['signature']]}",
         "/-- `OpenContext.name` = name of `deserialize_struct(kind, payload)` -/",
         "def openName : PlSrc := .kind",
         "/-- the bytes handed to `open` as `payload` -/",
         "def openPayload : PlSrc := .fields",
         "/-- `OnGraphInBraid => {}`: the open block is bypassed inside a braid -/",
         f"def braidBypassesOpen : Bool := {'true' if braid_bypass else 'false'}",
         "/-- open_command(..)? textually precedes evaluate_rule(..)? (checked) -/",
         "def openBeforePolicy : Bool := true", "",
         "end AranyaV.Gen.C35", ""]
    return "\n".join(L)


ITEMS = [("EnvelopeC35", gen)]
