from extract import read, enum_variants, strip_comments, const, eval_int, Fail
import re

REL = "crates/aranya-policy-module/src/instructions.rs"
REL_C = "crates/aranya-policy-compiler/src/compile.rs"
REL_M = "crates/aranya-policy-vm/src/machine.rs"

# payload type of an `Instruction` variant -> Lean type (type parameters CV I L M stand for
# ConstValue, Identifier, Label, Meta)
PAYLOAD = {
    "ConstValue": "CV", "Identifier": "I", "Target": "Target L", "usize": "Nat",
    "NonZeroUsize": "Nat", "ExitReason": "ExitReason", "WrapType": "WrapType", "i64": "Int",
    "Meta": "M",
}


def plain_enum(src, name, lines):
    vs = enum_variants(src, name, REL)
    for n, full in vs:
        if "(" in full or "{" in full:
            raise Fail(f"{REL}: {name}::{n} has a payload; the model expects a plain enum")
    lines.append(f"/-- `{name}` in {REL} (declaration order) -/")
    lines.append(f"inductive {name} where")
    for n, _ in vs:
        lines.append(f"  | {n}")
    lines.append("deriving DecidableEq, Repr, Inhabited")
    lines.append("")
    return [n for n, _ in vs]


def gen():
    src = read(REL)
    lines = ["namespace AranyaV.Gen.Lang", ""]
    er = plain_enum(src, "ExitReason", lines)
    if er != ["Normal", "Yield", "Check", "Panic"]:
        raise Fail(f"{REL}: ExitReason variants changed: {er}")
    wt = plain_enum(src, "WrapType", lines)
    if sorted(wt) != ["Err", "Ok", "Some"]:
        raise Fail(f"{REL}: WrapType variants changed: {wt}")
    tv = enum_variants(src, "Target", REL)
    if [n for n, _ in tv] != ["Unresolved", "Resolved"]:
        raise Fail(f"{REL}: Target variants changed")
    lines += ["/-- `Target` -/", "inductive Target (L : Type) where", "  | Unresolved (l : L)", "  | Resolved (n : Nat)",
              "deriving DecidableEq, Repr", ""]
    vs = enum_variants(src, "Instruction", REL)
    lines.append(f"/-- `Instruction` in {REL}: every variant, in declaration order.  The model `step` matches")
    lines.append("on it exhaustively, so a new variant breaks elaboration instead of being ignored. -/")
    lines.append("inductive Instruction (CV I L M : Type) where")
    names = []
    for n, full in vs:
        names.append(n)
        m = re.match(r"\w+\s*\((.*)\)\s*$", full, flags=re.S)
        if not m:
            lines.append(f"  | {n}")
            continue
        args = [a.strip() for a in m.group(1).split(",") if a.strip()]
        parts = []
        for k, a in enumerate(args):
            if a not in PAYLOAD:
                raise Fail(f"{REL}: Instruction::{n} has payload type `{a}` unknown to the translator")
            parts.append(f"(a{k} : {PAYLOAD[a]})")
        lines.append(f"  | {n} " + " ".join(parts))
    lines.append("")
    lines.append(f"def instructionNames : List String := [{', '.join(chr(34) + n + chr(34) for n in names)}]")
    lines.append("")
    # builtins: `function NAME(x int, y int) T` ... `Instruction::X`
    csrc = strip_comments(read(REL_C))
    m = re.search(r"fn define_builtins\b.*?\n    \}\n", csrc, flags=re.S)
    if not m:
        raise Fail(f"{REL_C}: define_builtins not found")
    body = m.group(0)
    bl = re.findall(r"function\s+(\w+)\s*\(\s*x int\s*,\s*y int\s*\)\s*([\w\[\]]+).*?Instruction::(\w+)", body, flags=re.S)
    if len(bl) != body.count("define_builtin("):
        raise Fail(f"{REL_C}: cannot read every builtin in define_builtins")
    for (_, _, ins) in bl:
        if ins not in names:
            raise Fail(f"{REL_C}: builtin maps to unknown instruction {ins}")
    lines.append(f"/-- builtins registered by `define_builtins` in {REL_C} (name, return type, instruction);")
    lines.append("the drivers intern these names as identifiers 0,1,2,… in this order -/")
    lines.append(f"def builtinNames : List String := [{', '.join(chr(34) + b[0] + chr(34) for b in bl)}]")
    lines.append(f"def builtinRet : List String := [{', '.join(chr(34) + b[1] + chr(34) for b in bl)}]")
    lines.append("def builtinInstr {CV I L M : Type} : Nat → Option (Instruction CV I L M)")
    for i, b in enumerate(bl):
        lines.append(f"  | {i} => some .{b[2]}")
    lines.append("  | _ => none")
    lines.append("")
    msrc = strip_comments(read(REL_M))
    v = eval_int(const(msrc, "STACK_SIZE", REL_M), REL_M, "STACK_SIZE")
    lines.append(f"/-- `STACK_SIZE` in {REL_M} -/")
    lines.append(f"def stackSize : Nat := {v}")
    lines.append("")
    lines.append("end AranyaV.Gen.Lang")
    return "\n".join(lines) + "\n"


ITEMS = [("LangInstr", gen)]
