"""C32: constants of aranya-policy-text's `Repr` (crates/aranya-policy-text/src/repr.rs)."""
import re
from extract import read, const, eval_int, strip_comments, Fail


def gen():
    rel = "crates/aranya-policy-text/src/repr.rs"
    src = strip_comments(read(rel))
    expr = const(src, "MAX_INLINE", rel)
    # 64-bit targets (the harness target): size_of::<usize>() = 8
    e = re.sub(r"(?:core::mem::|mem::)?size_of::<usize>\(\)", "8", expr)
    v = eval_int(e, rel, "MAX_INLINE")
    m = re.search(r"Inline\s*\{\s*bytes\s*:\s*\[u8;\s*MAX_INLINE\]\s*,\s*len\s*:\s*u(\d+)\s*\}", src)
    if not m:
        raise Fail(f"{rel}: Repr::Inline {{ bytes: [u8; MAX_INLINE], len: uN }} not found")
    bits = int(m.group(1))
    if not re.search(r"if\s+len\s*<=\s*MAX_INLINE\s*\{", src):
        raise Fail(f"{rel}: `if len <= MAX_INLINE` threshold in Repr::from_str not found")
    return f"""namespace AranyaV.Gen.Text

/-- `MAX_INLINE = {expr}` in {rel} (with `size_of::<usize>() = 8`) -/
def maxInline : Nat := {v}

/-- width of `Repr::Inline.len` (`len as u{bits}`) -/
def inlineLenBits : Nat := {bits}

end AranyaV.Gen.Text
"""


ITEMS = [("ConstsText", gen)]
