from extract import read, const, eval_int, strip_comments

BR = "crates/aranya-runtime/src/client/braiding.rs"
CM = "crates/aranya-runtime/src/client/convergence_map.rs"


def gen():
    """Spill thresholds of the braid result buffer and of the convergence map."""
    b = strip_comments(read(BR))
    c = strip_comments(read(CM))
    bbe = eval_int(const(b, "BRAID_BLOCK_ENTRIES", BR), BR, "BRAID_BLOCK_ENTRIES")
    be = eval_int(const(c, "BLOCK_ENTRIES", CM), CM, "BLOCK_ENTRIES")
    nb = eval_int(const(c, "NUM_BLOCKS", CM), CM, "NUM_BLOCKS")
    rc = eval_int(const(c, "ROOT_CAPACITY", CM), CM, "ROOT_CAPACITY")
    return (
        "namespace AranyaV.Gen\n\n"
        f"/-- `BRAID_BLOCK_ENTRIES` in {BR} -/\ndef braidBlockEntries : Nat := {bbe}\n\n"
        f"/-- `BLOCK_ENTRIES` in {CM} -/\ndef convBlockEntries : Nat := {be}\n\n"
        f"/-- `NUM_BLOCKS` in {CM} -/\ndef convNumBlocks : Nat := {nb}\n\n"
        f"/-- `ROOT_CAPACITY` in {CM} -/\ndef convRootCapacity : Nat := {rc}\n\n"
        "end AranyaV.Gen\n"
    )


ITEMS = [("ConstsBraid", gen)]
