from extract import read, const, eval_int, strip_comments, Fail
import re


def gen():
    rel = "crates/aranya-runtime/src/storage/linear/mod.rs"
    src = strip_comments(read(rel))
    v = eval_int(const(src, "MAX_FACT_INDEX_DEPTH", rel), rel, "MAX_FACT_INDEX_DEPTH")
    # The model's `finish` transliterates these two comparisons; if they are rewritten the
    # transliteration has to be looked at again.
    for needle in (r"p\.depth\s*>\s*MAX_FACT_INDEX_DEPTH\s*-\s*1", r"depth\s*>\s*MAX_FACT_INDEX_DEPTH"):
        if not re.search(needle, src):
            raise Fail(f"{rel}: depth comparison `{needle}` not found in write_facts_with_prior")
    return (
        "namespace AranyaV.Gen\n\n"
        f"/-- `MAX_FACT_INDEX_DEPTH` in {rel} -/\n"
        f"def maxFactIndexDepth : Nat := {v}\n\n"
        "end AranyaV.Gen\n"
    )


# (Lean module name under AranyaV/Gen, generator)
ITEMS = [("ConstsFacts", gen)]
