"""C36: what `DefaultEngine::wrap_secret` / `unwrap_secret` bind into the AEAD associated data:
tag, order of the AD items on both sides, the `(T::ID, Ciphertext variant)` match, the algorithm
id bytes per key kind (which suite OID, or the seed literal), the `Ciphertext` variant order (its
serde tag).  The Lean model builds the AD from the generated orders."""
import re
from extract import read, strip_comments, enum_variants, Fail
from crypto_c34 import lean_bytes, fn_body, hash_call, map_items, advisory, advisory_comment, lean_bool, ADVISORY

KINDS = ["Aead", "Decap", "Mac", "Prk", "Seed", "Signing"]


def gen():
    n0 = len(ADVISORY)
    L = ["namespace AranyaV.Gen.C36", ""]
    rel = "crates/aranya-crypto/src/default.rs"
    src = strip_comments(read(rel))
    wb = fn_body(src, "wrap_secret", rel)
    ub = fn_body(src, "unwrap_secret", rel)
    wtag, witems = hash_call(src, "wrap_secret", "S::tuple_hash", rel)
    utag, uitems = hash_call(src, "unwrap_secret", "S::tuple_hash", rel)
    if wtag != utag:
        raise Fail(f"{rel}: wrap_secret and unwrap_secret use different AD tags {wtag!r} / {utag!r}")
    worder = map_items(witems, {"T::ID.as_bytes()": "algId", "id.as_bytes()": "keyId"}, rel, "wrap_secret AD")
    uorder = map_items(uitems, {"T::ID.as_bytes()": "algId", "key.id.as_bytes()": "keyId"}, rel, "unwrap_secret AD")
    wbn = re.sub(r"\s+", "", wb)
    ubn = re.sub(r"\s+", "", ub)
    # literal statement shapes: advisory (the harness decides the behaviour: primitive-level AD
    # confirmation, per-field modifications, cross-kind and retagged unwraps)
    shape = True
    if "letid=*id.as_ref();" not in wbn or "Ok(WrappedKey{id,nonce:nonce.into_inner(),ciphertext:secret,tag,})" not in wbn:
        shape = advisory(f"{rel}: wrap_secret does not literally store (id, nonce, ciphertext, tag)")
    if "self.aead.seal_in_place(nonce.as_ref(),secret.as_bytes_mut(),&muttag,ad.as_bytes(),)?" not in wbn:
        shape = advisory(f"{rel}: wrap_secret: literal seal_in_place(nonce, secret, tag, ad) not found")
    if "self.aead.open_in_place(key.nonce.as_ref(),data.as_bytes_mut(),&key.tag,ad.as_bytes(),)?" not in ubn:
        shape = advisory(f"{rel}: unwrap_secret: literal open_in_place(nonce, data, tag, ad) not found")
    for k in KINDS:
        pat = f"(AlgId::{k}(_),Ciphertext::{k}(data))=>" if k != "Seed" else "(AlgId::Seed(()),Ciphertext::Seed(data))=>"
        if pat not in ubn:
            shape = advisory(f"{rel}: unwrap_secret: literal match arm for kind {k} not found")
        if f"RawSecret::{k}(sk)=>Ciphertext::{k}(" not in wbn:
            shape = advisory(f"{rel}: wrap_secret: RawSecret::{k} is not literally stored as Ciphertext::{k}")
    if "_=>{returnErr(WrongKeyType{" not in ubn:
        shape = advisory(f"{rel}: unwrap_secret: literal catch-all WrongKeyType arm not found")
    n_arms = len(re.findall(r"\(AlgId::\w+\((?:_|\(\))\),Ciphertext::\w+\(data\)\)=>", ubn))
    if n_arms != 6:
        shape = advisory(f"{rel}: unwrap_secret: expected exactly 6 literal (AlgId, Ciphertext) arms, found {n_arms}")
    vs = [n for n, _ in enum_variants(read(rel), "Ciphertext", rel)]
    if vs != KINDS:
        raise Fail(f"{rel}: Ciphertext variants changed: {vs}")
    L += [f"/-- AD tag of `wrap_secret`/`unwrap_secret` in {rel}: `{wtag.decode()}` -/",
          f"def engineTag : List UInt8 := {lean_bytes(wtag)}", "",
          "inductive AdField where | algId | keyId",
          "deriving DecidableEq, Repr", "",
          "/-- AD items hashed by `wrap_secret` after tag and OIDs -/",
          "def wrapAdOrder : List AdField := [" + ", ".join("." + o for o in worder) + "]", "",
          "/-- AD items hashed by `unwrap_secret` after tag and OIDs -/",
          "def unwrapAdOrder : List AdField := [" + ", ".join("." + o for o in uorder) + "]", "",
          "/-- key kinds = `Ciphertext`/`RawSecret`/`AlgId` variants, in declaration order (serde tag) -/",
          "inductive Kind where | " + " | ".join(k.lower() for k in KINDS),
          "deriving DecidableEq, Repr", "",
          "def Kind.tag : Kind → Nat", *[f"  | .{k.lower()} => {i}" for i, k in enumerate(KINDS)], "",
          "/-- `unwrap_secret` matches `(T::ID, Ciphertext variant)` kind by kind and otherwise returns",
          "`WrongKeyType` (advisory literal comparison; cross-kind and retag unwraps of the harness decide) -/",
          f"def unwrapKindMatch : Bool := {lean_bool(shape)}", ""]
    # ---- AlgId bytes
    rel = "crates/aranya-crypto/src/engine.rs"
    src = strip_comments(read(rel))
    ab = re.sub(r"\s+", "", fn_body(src[src.find("impl AlgId"):], "as_bytes", rel))
    m = re.search(r'Self::Aead\(id\)\|Self::Decap\(id\)\|Self::Mac\(id\)\|Self::Prk\(id\)\|Self::Signing\(id\)=>id\.as_bytes\(\),Self::Seed\(\(\)\)=>b"([^"]*)",', ab)
    if not m:
        raise Fail(f"{rel}: AlgId::as_bytes changed shape")
    m = re.search(r'Self::Seed\(\(\)\)\s*=>\s*b"([^"]*)"', fn_body(src[src.find("impl AlgId"):], "as_bytes", rel))
    # which suite algorithm each kind's OID comes from
    froms = dict(re.findall(r"(_from_\w+)\s*=>\s*(\w+)", src))
    arms = {}
    for kind, k2, idexpr in re.findall(r"type:\s*(\w+);[^=]*?=>\s*\{\s*\$crate::__unwrapped_inner!\(\s*(\w+)\s*,\s*(.*?),\s*\$name", src, flags=re.S):
        if kind != k2:
            raise Fail(f"{rel}: unwrapped!: arm `type: {kind}` builds AlgId::{k2}")
        mm = re.fullmatch(r"\$crate::engine::AlgId::(_from_\w+)::<CS>\(\)", idexpr.strip())
        if mm:
            arms[kind] = mm.group(1)
        elif not (kind == "Seed" and idexpr.strip() == "()"):
            raise Fail(f"{rel}: unwrapped!: cannot read the AlgId payload of kind {kind}: {idexpr!r}")
    # OID order of the suite
    rel2 = "crates/aranya-crypto/src/ciphersuite/ext.rs"
    src2 = re.sub(r"\s+", "", strip_comments(read(rel2)))
    mo = re.search(r"constfnall\(\)->\[&'staticOid;6\]\{const\{\[((?:\w+Oid::<CS>::OID,)+)\]\}\}", src2)
    if not mo:
        raise Fail(f"{rel2}: Oids::all() not found")
    oid_order = re.findall(r"(\w+)Oid::<CS>::OID", mo.group(1))
    if oid_order != ["Aead", "Hash", "Kdf", "Kem", "Mac", "Signer"]:
        raise Fail(f"{rel2}: suite OID order changed: {oid_order}")
    L += [f"/-- `AlgId::Seed(()).as_bytes()` in {rel}: `{m.group(1)}` -/",
          f"def seedAlgId : List UInt8 := {lean_bytes(m.group(1).encode())}", "",
          "/-- index into `CipherSuite::OIDS` (aead, hash, kdf, kem, mac, signer) of the OID used as",
          "the algorithm id of a key kind; `none` = the seed literal -/",
          "def Kind.oidIndex : Kind → Option Nat"]
    for k in KINDS:
        if k == "Seed":
            L.append("  | .seed => none"); continue
        if k not in arms or arms[k] not in froms:
            raise Fail(f"{rel}: unwrapped!/alg_id_from_impl!: cannot find the OID source of kind {k}")
        alg = froms[arms[k]]
        if alg not in oid_order:
            raise Fail(f"{rel}: kind {k} takes its OID from unknown suite member {alg}")
        L.append(f"  | .{k.lower()} => some {oid_order.index(alg)}  -- CS::{alg}")
    L += [""] + advisory_comment(n0) + ["", "end AranyaV.Gen.C36"]
    return "\n".join(L) + "\n"


ITEMS = [("CryptoC36", gen)]
