from extract import read, const, eval_int, strip_comments


def gen():
    rel = "crates/aranya-runtime/src/sync/mod.rs"
    v = eval_int(const(strip_comments(read(rel)), "PEER_HEAD_MAX", rel), rel, "PEER_HEAD_MAX")
    return (
        "namespace AranyaV.Gen\n\n"
        f"/-- `PEER_HEAD_MAX` in {rel} -/\n"
        f"def peerHeadMax : Nat := {v}\n\n"
        "end AranyaV.Gen\n"
    )


# (Lean module name under AranyaV/Gen, generator)
ITEMS = [("ConstsPeerCache", gen)]
