import Driver.SegStore
import AranyaV.Model.PeerCache
/-!
Driver for the peer-cache model (C20).  Store requests (`new`, `seg`, `heads`) as in
`Driver/SegStore.lean`, plus
* `cachenew`          → `ok`                        (`PeerCache::new()`)
* `add <id> <mc>`     → the cache afterwards, in vector order: `[id@seg:mc,...]`, or `err`
-/
open AranyaV.Segments AranyaV.Queue AranyaV.PeerCache

structure St20 where
  st : St := {}
  cache : List Head := []

def showCache (c : List Head) : String :=
  "[" ++ ",".intercalate (c.map fun h => s!"{h.id}@{h.loc.seg}:{h.loc.mc}") ++ "]"

def step (s : St20) (toks : List String) : St20 × String :=
  match toks with
  | ["cachenew"] => ({ s with cache := [] }, "ok")
  | ["new"] => ({}, "ok")
  | ["add", id, mc] =>
    match id.toNat?, mc.toNat? with
    | some id, some mc =>
      match addCommand s.st.store s.st.heads s.cache ⟨id, mc⟩ with
      | .ok c => ({ s with cache := c }, showCache c)
      | .error _ => (s, "err")
    | _, _ => (s, "bad-op")
  | _ =>
    let (st', o) := segStep s.st toks
    ({ s with st := st' }, o)

def main : IO Unit := Driver.run step {}
