import Driver.Common
import AranyaV.Model.LangLower
import AranyaV.Model.Compile
/-!
Model driver shared by C22 / C23 / C24 (`drv_c22`, `drv_c23`, `drv_c24`).

  prog <hex-of-source> <S-expression of the parsed AST>   -> accept | reject
  list                                                    -> <fn@addr ..> | <instr ..>
  eval <fn> <arg>*    Spec.Lang.evalFn on the lowered IR  -> <outcome> | <ffi log>
  vm   <fn> <arg>*    Model.Compile + Model.LangVM.run    -> <outcome> | <ffi log>

The source text is ignored (it is there so that the harness can replay a case).  Names are
interned: the builtins of `Gen.Lang.builtinNames` get 0.., every other name the next free id.
-/
open AranyaV.Lang AranyaV.Gen.Lang

namespace LangDrv

inductive Sx where
  | atom (s : String)
  | list (xs : List Sx)
  deriving Inhabited

/-- parse one S-expression from a token list -/
partial def parseSx : List String → Option (Sx × List String)
  | [] => none
  | "(" :: rest =>
    let rec go (acc : List Sx) : List String → Option (Sx × List String)
      | [] => none
      | ")" :: r => some (.list acc.reverse, r)
      | ts => match parseSx ts with
        | some (x, r) => go (x :: acc) r
        | none => none
    go [] rest
  | ")" :: _ => none
  | a :: rest => some (.atom a, rest)

structure Names where
  tab : Array String := builtinNames.toArray

def Names.intern (n : Names) (s : String) : Names × Nat :=
  match n.tab.findIdx? (· == s) with
  | some i => (n, i)
  | none => ({ tab := n.tab.push s }, n.tab.size)

def Names.get (n : Names) (i : Nat) : String := n.tab.getD i s!"#{i}"

abbrev P := StateT Names Option

def nm (s : String) : P Nat := fun n => let (n', i) := n.intern s; some (i, n')
def fail {α} : P α := fun _ => none

def hexBytes (s : String) : Option (List Nat) := (Driver.hex? s).map (·.map (·.toNat))

partial def pTy : Sx → P Ty
  | .atom "unit" => pure .unit
  | .atom "string" => pure .string
  | .atom "bytes" => pure .bytes
  | .atom "int" => pure .int
  | .atom "bool" => pure .bool
  | .atom "id" => pure .id
  | .atom "never" => pure .never
  | .list [.atom "struct", .atom n] => do pure (.struct (← nm n))
  | .list [.atom "enum", .atom n] => do pure (.enum (← nm n))
  | .list [.atom "opt", t] => do pure (.optional (← pTy t))
  | .list [.atom "res", a, b] => do pure (.result (← pTy a) (← pTy b))
  | _ => fail

mutual
partial def pExpr : Sx → P Expr
  | .atom "unit" => pure .unit
  | .atom "true" => pure (.bool true)
  | .atom "false" => pure (.bool false)
  | .atom "none" => pure .none
  | .atom "todo" => pure .todo
  | .atom "testfail" => pure .todo
  | .list [.atom "int", .atom n] => match n.toInt? with
    | some i => pure (.int i)
    | none => fail
  | .list [.atom "str", .atom h] => match hexBytes h with
    | some bs => pure (.str bs)
    | none => fail
  | .list [.atom "some", e] => do pure (.some (← pExpr e))
  | .list [.atom "ok", e] => do pure (.ok (← pExpr e))
  | .list [.atom "err", e] => do pure (.err (← pExpr e))
  | .list [.atom "struct", .atom n, .list fs, .list srcs] => do
    let n ← nm n
    let fs ← fs.mapM fun
      | .list [.atom k, e] => do pure ((← nm k), (← pExpr e))
      | _ => fail
    let srcs ← srcs.mapM fun
      | .atom s => nm s
      | _ => fail
    pure (.struct n fs srcs)
  | .list [.atom "if", c, t, f] => do pure (.ite (← pExpr c) (← pExpr t) (← pExpr f))
  | .list (.atom "call" :: .atom f :: args) => do pure (.call (← nm f) (← args.mapM pExpr))
  | .list (.atom "ffi" :: .atom m :: .atom f :: args) => do pure (.ffi (← nm m) (← nm f) none (← args.mapM pExpr))
  | .list [.atom "ret", e] => do pure (.ret (← pExpr e))
  | .list [.atom "var", .atom x] => do pure (.var (← nm x))
  | .list [.atom "enumref", .atom e, .atom v] => do pure (.enumRef (← nm e) (← nm v) 0)
  | .list [.atom "and", a, b] => do pure (.and (← pExpr a) (← pExpr b))
  | .list [.atom "or", a, b] => do pure (.or (← pExpr a) (← pExpr b))
  | .list [.atom "coal", a, b] => do pure (.coalesce (← pExpr a) (← pExpr b))
  | .list [.atom "eq", a, b] => do pure (.eq (← pExpr a) (← pExpr b))
  | .list [.atom "ne", a, b] => do pure (.ne (← pExpr a) (← pExpr b))
  | .list [.atom "gt", a, b] => do pure (.gt (← pExpr a) (← pExpr b))
  | .list [.atom "lt", a, b] => do pure (.lt (← pExpr a) (← pExpr b))
  | .list [.atom "ge", a, b] => do pure (.ge (← pExpr a) (← pExpr b))
  | .list [.atom "le", a, b] => do pure (.le (← pExpr a) (← pExpr b))
  | .list [.atom "dot", e, .atom f] => do pure (.dot (← pExpr e) (← nm f))
  | .list [.atom "not", e] => do pure (.not (← pExpr e))
  | .list [.atom "is", e, .atom s] => do pure (.is (← pExpr e) (s == "1"))
  | .list [.atom "block", .list ss, e] => do pure (.block (← ss.mapM pStmt) (← pExpr e))
  | .list [.atom "substruct", e, .atom s] => do pure (.substruct (← pExpr e) (← nm s))
  | .list [.atom "cast", e, .atom s] => do pure (.cast (← pExpr e) (← nm s))
  | .list (.atom "match" :: scrut :: arms) => do
    let s ← pExpr scrut
    let arms ← arms.mapM fun
      | .list [.atom "arm", pat, body] => do pure ((← pPat pat), (← pExpr body))
      | _ => fail
    pure (.mtch s arms)
  | _ => fail

partial def pPat : Sx → P Pat
  | .atom "default" => pure .default
  | .list (.atom "vals" :: vs) => do pure (.values (← vs.mapM pExpr))
  | _ => fail

partial def pStmt : Sx → P Stmt
  | .list [.atom "let", .atom x, e] => do pure (.let_ (← nm x) (← pExpr e))
  | .list [.atom "check", c, e] => do pure (.check (← pExpr c) (← pExpr e))
  | .list (.atom "smatch" :: scrut :: arms) => do
    let s ← pExpr scrut
    let arms ← arms.mapM fun
      | .list [.atom "arm", pat, .list body] => do pure ((← pPat pat), (← body.mapM pStmt))
      | _ => fail
    pure (.mtch s arms)
  | .list [.atom "sif", .list brs, fb] => do
    let brs ← brs.mapM fun
      | .list [.atom "br", c, .list ss] => do pure ((← pExpr c), (← ss.mapM pStmt))
      | _ => fail
    match fb with
    | .atom "none" => pure (.ifS brs false [])
    | .list [.atom "else", .list ss] => do pure (.ifS brs true (← ss.mapM pStmt))
    | _ => fail
  | .list [.atom "sret", e] => do pure (.ret (← pExpr e))
  | .list [.atom "dassert", e] => do pure (.dassert (← pExpr e))
  | _ => fail
end

def pProgram : Sx → P SProgram
  | .list [.atom "P", .list (.atom "uses" :: uses), .list (.atom "enums" :: enums), .list (.atom "structs" :: structs),
           .list (.atom "globals" :: globals), .list (.atom "funs" :: funs)] => do
    let uses ← uses.mapM fun | .atom u => nm u | _ => fail
    let enums ← enums.mapM fun
      | .list (.atom "E" :: .atom n :: vs) => do
        pure ((← nm n), (← vs.mapM fun | .atom v => nm v | _ => fail))
      | _ => fail
    let structs ← structs.mapM fun
      | .list (.atom "S" :: .atom n :: fs) => do
        let fs ← fs.mapM fun
          | .list [.atom "f", .atom k, t] => do pure ((← nm k), (← pTy t))
          | _ => fail
        pure ((← nm n), fs)
      | _ => fail
    let globals ← globals.mapM fun
      | .list [.atom "G", .atom n, e] => do pure ((← nm n), (← pExpr e))
      | _ => fail
    let funs ← funs.mapM fun
      | .list [.atom "F", .atom n, .list ps, rt, .list body] => do
        let ps ← ps.mapM fun
          | .list [.atom "p", .atom x, t] => do pure ((← nm x), (← pTy t))
          | _ => fail
        pure ({ name := (← nm n), params := ps, ret := (← pTy rt), body := (← body.mapM pStmt) } : FunDef)
      | _ => fail
    pure { uses, enums, structs, globals, funs }
  | _ => fail

/-! ### the foreign module `t` of the harness -/

def ffiSem : Nat → Nat → List Val → FfiRes
  | 0, 0, [.int n] => .ret (.int n)
  | 0, 1, [.int _, .bool b] => .ret (.bool b)
  | 0, 2, [.int _] => .fail
  | 0, 3, [.int n] => .ret (if n % 2 == 0 then .some (.int n) else .none)
  | _, _, _ => .bad

def ffiArity : Nat → Nat → Option Nat
  | 0, 0 => some 1 | 0, 1 => some 2 | 0, 2 => some 1 | 0, 3 => some 1
  | _, _ => none

def ffiNames : List String := ["mark", "flag", "boom", "pick"]

/-! ### values as tokens -/

partial def showVal (nmz : Names) : Val → String
  | .unit => "unit"
  | .int i => toString i
  | .bool b => if b then "true" else "false"
  | .str s => "s:" ++ Driver.toHex (s.map UInt8.ofNat)
  | .id n => s!"id:{n}"
  | .enum n v => s!"enum:{nmz.get n}:{v}"
  | .ident n => s!"other:Identifier:{nmz.get n}"
  | .none => "none"
  | .some v => s!"some({showVal nmz v})"
  | .ok v => s!"ok({showVal nmz v})"
  | .err v => s!"err({showVal nmz v})"
  | .struct n fs =>
    let named := fs.map fun (k, v) => (nmz.get k, showVal nmz v)
    let sorted := named.toArray.qsort (fun a b => a.1 < b.1) |>.toList
    s!"{nmz.get n}\{" ++ ",".intercalate (sorted.map fun (k, v) => k ++ "=" ++ v) ++ "}"

/-- parse a value token; names are looked up / added -/
partial def parseVal (cs : List Char) : P (Val × List Char) := do
  let pre (p : String) : Option (List Char) := if p.toList.isPrefixOf cs then some (cs.drop p.length) else none
  match pre "some(" with
  | some r => do
    let (v, r) ← parseVal r
    match r with | ')' :: r => pure (.some v, r) | _ => fail
  | none =>
  match pre "ok(" with
  | some r => do
    let (v, r) ← parseVal r
    match r with | ')' :: r => pure (.ok v, r) | _ => fail
  | none =>
  match pre "err(" with
  | some r => do
    let (v, r) ← parseVal r
    match r with | ')' :: r => pure (.err v, r) | _ => fail
  | none =>
    let tok := cs.takeWhile (fun c => c != ',' && c != ')' && c != '}' && c != '{')
    let rest := cs.drop tok.length
    let toks := String.ofList tok
    match rest with
    | '{' :: r => do
      let sname ← nm toks
      let rec fields (r : List Char) (acc : List (Nat × Val)) : P (List (Nat × Val) × List Char) := do
        match r with
        | '}' :: r => pure (acc, r)
        | _ =>
          let k := r.takeWhile (· != '=')
          let r := r.drop (k.length + 1)
          let kn ← nm (String.ofList k)
          let (v, r) ← parseVal r
          let r := match r with | ',' :: r => r | r => r
          fields r (setField acc kn v)
      let (fs, r) ← fields r []
      pure (.struct sname fs, r)
    | _ =>
      if toks == "unit" then pure (.unit, rest)
      else if toks == "true" then pure (.bool true, rest)
      else if toks == "false" then pure (.bool false, rest)
      else if toks == "none" then pure (.none, rest)
      else if toks.startsWith "s:" then match hexBytes (toks.drop 2).toString with
        | some bs => pure (.str bs, rest)
        | none => fail
      else if toks.startsWith "id:" then match (toks.drop 3).toString.toNat? with
        | some n => pure (.id n, rest)
        | none => fail
      else if toks.startsWith "enum:" then
        match (toks.drop 5).toString.splitOn ":" with
        | [e, v] => match v.toInt? with
          | some i => do pure (.enum (← nm e) i, rest)
          | none => fail
        | _ => fail
      else match toks.toInt? with
        | some i => pure (.int i, rest)
        | none => fail

def parseArgs (toks : List String) : P (List Val) :=
  toks.mapM fun t => do
    let (v, r) ← parseVal t.toList
    if r.isEmpty then pure v else fail

/-! ### listing -/

def showTarget (nmz : Names) : Target Label → String
  | .Resolved n => toString n
  | .Unresolved (.fn f) => "?" ++ nmz.get f
  | .Unresolved (.anon k) => s!"?anonymous{k}"

def showWrap : WrapType → String
  | .Ok => "ok" | .Err => "err" | .Some => "some"
def showExit : ExitReason → String
  | .Normal => "normal" | .Yield => "yield" | .Check => "check" | .Panic => "panic"

def showInstr (nmz : Names) : Instr → String
  | .Const v => "const:" ++ showVal nmz v
  | .Identifier x => "ident:" ++ nmz.get x
  | .Def x => "def:" ++ nmz.get x
  | .Get x => "get:" ++ nmz.get x
  | .Dup => "dup" | .Pop => "pop" | .Block => "block" | .End => "end"
  | .Jump t => "jump:" ++ showTarget nmz t
  | .Branch t => "branch:" ++ showTarget nmz t
  | .Next => "next" | .Last => "last"
  | .Call t => "call:" ++ showTarget nmz t
  | .Recall t => "recall:" ++ showTarget nmz t
  | .ExtCall m p => s!"extcall:{m}:{p}"
  | .Return => "return"
  | .Exit r => "exit:" ++ showExit r
  | .Add => "add" | .Sub => "sub" | .SaturatingAdd => "satadd" | .SaturatingSub => "satsub"
  | .Not => "not" | .Gt => "gt" | .Lt => "lt" | .Eq => "eq"
  | .FactNew x => "factnew:" ++ nmz.get x
  | .FactKeySet x => "factkset:" ++ nmz.get x
  | .FactValueSet x => "factvset:" ++ nmz.get x
  | .StructNew x => "structnew:" ++ nmz.get x
  | .StructSet x => "structset:" ++ nmz.get x
  | .StructGet x => "structget:" ++ nmz.get x
  | .MStructSet n => s!"mstructset:{n}"
  | .MStructGet n => s!"mstructget:{n}"
  | .Cast x => "cast:" ++ nmz.get x
  | .Wrap w => "wrap:" ++ showWrap w
  | .Is w => "is:" ++ showWrap w
  | .Unwrap w => "unwrap:" ++ showWrap w
  | .Publish => "publish" | .Create => "create" | .Delete => "delete" | .Update => "update"
  | .Emit => "emit" | .Query => "query"
  | .FactCount n => s!"factcount:{n}"
  | .QueryStart => "querystart"
  | .QueryNext x => "querynext:" ++ nmz.get x
  | .Serialize => "serialize" | .Deserialize => "deserialize"
  | .SaveSP => "savesp" | .RestoreSP => "restoresp"
  | .Meta (m, f) => s!"meta:ffi:{nmz.get m}:{nmz.get f}"

def showLog (nmz : Names) (l : Log) : String :=
  if l.isEmpty then "-" else
  ",".intercalate (l.reverse.map fun (_, pi, args) =>
    ":".intercalate (ffiNames.getD pi "?" :: args.map (showVal nmz)))

/-! ### state and protocol -/

structure Loaded where
  names : Names
  prog : Program
  cp : Compiled

structure St where
  cur : Option Loaded := none

def evalFuel : Nat := 100000
def vmFuel : Nat := 400000

def load (toks : List String) : Option Loaded := do
  let (sx, rest) ← parseSx toks
  if !rest.isEmpty then none
  let (sp, names) ← (pProgram sx).run {}
  let (names, tname) := names.intern "t"
  let (fnames, names) := ffiNames.foldl (fun (acc : List Nat × Names) s =>
    let (n', i) := acc.2.intern s; (acc.1 ++ [i], n')) (([] : List Nat), names)
  let sigs : List FfiSig := match fnames with
    | [a, b, c, d] => [⟨a, [.int], .int⟩, ⟨b, [.int, .bool], .bool⟩, ⟨c, [.int], .int⟩, ⟨d, [.int], .optional .int⟩]
    | _ => []
  let prog ← lowerProgram [(tname, sigs)] ffiSem sp
  -- `NoReturn`: every function body must contain a `Return` instruction
  if prog.funs.any (fun fd => !hasReturn (compileStmts prog.structs 0 0 fd.body).code) then none
  let cp ← compileProgram prog.structs prog.funs
  pure { names, prog, cp }

def step (st : St) (toks : List String) : St × String :=
  match toks with
  | "prog" :: _src :: sx => match load sx with
    | some l => ({ cur := some l }, "accept")
    | none => ({ cur := none }, "reject")
  | ["list"] => match st.cur with
    | none => (st, "bad-op")
    | some l =>
      let ents := l.cp.labels.filterMap fun
        | (.fn f, a) => some s!"{l.names.get f}@{a}"
        | _ => none
      let ents := ents.toArray.qsort (· < ·) |>.toList
      (st, " ".intercalate ents ++ " | " ++ " ".intercalate (l.cp.prog.map (showInstr l.names)))
  | "eval" :: f :: args => match st.cur with
    | none => (st, "bad-op")
    | some l => match ((do let fi ← nm f; let vs ← parseArgs args; pure (fi, vs)) : P (Nat × List Val)).run l.names with
      | none => (st, "bad-op")
      | some ((fi, vs), names) =>
        let out := match evalFn l.prog evalFuel fi vs with
          | .val v lg => s!"val {showVal names v} | {showLog names lg}"
          | .ret v lg => s!"val {showVal names v} | {showLog names lg}"
          | .exit r lg => s!"exit {showExit r} | {showLog names lg}"
          | .ffiErr lg => s!"ffi-error | {showLog names lg}"
          | .stuck => "wrong"
          | .oof => "timeout"
        ({ cur := some { l with names } }, out)
  | "vm" :: f :: args => match st.cur with
    | none => (st, "bad-op")
    | some l => match ((do let fi ← nm f; let vs ← parseArgs args; pure (fi, vs)) : P (Nat × List Val)).run l.names with
      | none => (st, "bad-op")
      | some ((fi, vs), names) =>
        let out := match l.cp.entry fi with
          | none => "wrong"
          | some entry =>
            let m : Machine := { prog := l.cp.prog, p := l.prog, ffiArity := ffiArity }
            match run m vmFuel (VM.init entry vs) with
            | .exited .Normal s => match s.stack with
              | v :: _ => s!"val {showVal names v} | {showLog names s.log}"
              | [] => "wrong"
            | .exited r s => s!"exit {showExit r} | {showLog names s.log}"
            | .error .ffi lg => s!"ffi-error | {showLog names lg}"
            | .error _ _ => "wrong"
            | .oof => "timeout"
        ({ cur := some { l with names } }, out)
  | _ => (st, "bad-op")

end LangDrv
