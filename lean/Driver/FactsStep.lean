import Driver.FactsUtil
/-!
Line protocol of the linear-storage fact model (drivers C12 and C13).

State: the segments and fact indexes written so far (handles = small integers in creation
order), one current linear perspective and one current fact perspective.

  new                      fresh provider; current perspective := `new_perspective`
  ins K V | del K          QueryMut on the current perspective          -> ok
  cmd                      add_command                                  -> ok <len>
  create                   new_storage(current perspective)             -> ok <seg> | err empty
  write                    Storage::write(current perspective)          -> ok <seg> | err …
  lp S I                   get_linear_perspective(seg S, command I)     -> ok | err oob
  mp X                     new_merge_perspective(.., braid = index X)   -> ok
  fp S I                   get_fact_perspective(seg S, command I)       -> ok | err oob
  fins K V | fdel K        QueryMut on the current fact perspective     -> ok
  fwrite                   Storage::write_facts(current fact persp.)    -> ok <idx> | err …
  q K | qp K               query / query_prefix on the current perspective
  fq K | fqp K             … on the current fact perspective
  sq S K | sqp S K         … on `segment.facts()`
  iq X K | iqp X K         … on fact index X
  sdump S | idump X        layers of a fact index (depth, entries with tombstones)
  ckpt                     checkpoint                                   -> ok <index>
  revert N                 revert(Checkpoint{index:N})                  -> ok | err badckpt
  cmds                     command ids of the current perspective       -> [id,id,…]
-/
open AranyaV.Facts FactsUtil

namespace FactsStep

structure St where
  segs : Array Seg := #[]
  idxs : Array Chain := #[]
  persp : Option Persp := none
  fp : Option FP := none
  nextId : Nat := 0
deriving Inhabited

def D : Nat := AranyaV.Gen.maxFactIndexDepth

def bad (s : St) : St × String := (s, "bad-op")

def step (s : St) (toks : List String) : St × String :=
  match toks with
  | ["new"] => ({ persp := some { facts := .overNone [] } }, "ok")
  | ["ins", k, v] =>
    match s.persp, key? k, bytes? v with
    | some p, some k, some v => ({ s with persp := some (p.insert k v) }, "ok")
    | _, _, _ => bad s
  | ["del", k] =>
    match s.persp, key? k with
    | some p, some k => ({ s with persp := some (p.delete k) }, "ok")
    | _, _ => bad s
  | ["cmd"] =>
    match s.persp with
    | some p =>
      let (p', n) := p.addCommand s.nextId
      ({ s with persp := some p', nextId := s.nextId + 1 }, s!"ok {n}")
    | none => bad s
  | ["create"] =>
    match s.persp with
    | some p =>
      match p.create with
      | .ok sg => ({ s with segs := s.segs.push sg, persp := none }, s!"ok {s.segs.size}")
      | .error e => ({ s with persp := none }, showErr e)
    | none => bad s
  | ["write"] =>
    match s.persp with
    | some p =>
      match p.write D with
      | .ok sg => ({ s with segs := s.segs.push sg, persp := none }, s!"ok {s.segs.size}")
      | .error e => ({ s with persp := none }, showErr e)
    | none => bad s
  | ["lp", sg, i] =>
    match sg.toNat?, i.toNat? with
    | some sg, some i =>
      match s.segs[sg]? with
      | some seg =>
        match seg.linearPerspective i with
        | .ok p => ({ s with persp := some p }, "ok")
        | .error e => (s, showErr e)
      | none => bad s
    | _, _ => bad s
  | ["mp", x] =>
    match x.toNat? with
    | some x =>
      match s.idxs[x]? with
      | some c => ({ s with persp := some (mergePerspective c) }, "ok")
      | none => bad s
    | none => bad s
  | ["fp", sg, i] =>
    match sg.toNat?, i.toNat? with
    | some sg, some i =>
      match s.segs[sg]? with
      | some seg =>
        match seg.factPerspective i with
        | .ok f => ({ s with fp := some f }, "ok")
        | .error e => (s, showErr e)
      | none => bad s
    | _, _ => bad s
  | ["fins", k, v] =>
    match s.fp, key? k, bytes? v with
    | some f, some k, some v => ({ s with fp := some (f.insert k v) }, "ok")
    | _, _, _ => bad s
  | ["fdel", k] =>
    match s.fp, key? k with
    | some f, some k => ({ s with fp := some (f.delete k) }, "ok")
    | _, _ => bad s
  | ["fwrite"] =>
    match s.fp with
    | some f =>
      match writeFacts D f with
      | .ok c => ({ s with idxs := s.idxs.push c, fp := none }, s!"ok {s.idxs.size}")
      | .error e => ({ s with fp := none }, showErr e)
    | none => bad s
  | ["q", k] =>
    match s.persp, key? k with
    | some p, some k => (s, showOpt (p.query k))
    | _, _ => bad s
  | ["qp", k] =>
    match s.persp, key? k with
    | some p, some k => (s, showFacts (p.queryPrefix k))
    | _, _ => bad s
  | ["fq", k] =>
    match s.fp, key? k with
    | some f, some k => (s, showOpt (f.query k))
    | _, _ => bad s
  | ["fqp", k] =>
    match s.fp, key? k with
    | some f, some k => (s, showFacts (f.queryPrefix k))
    | _, _ => bad s
  | ["sq", sg, k] =>
    match sg.toNat?.bind (s.segs[·]?), key? k with
    | some seg, some k => (s, showOpt (seg.facts.query k))
    | _, _ => bad s
  | ["sqp", sg, k] =>
    match sg.toNat?.bind (s.segs[·]?), key? k with
    | some seg, some k => (s, showFacts (seg.facts.queryPrefix k))
    | _, _ => bad s
  | ["iq", x, k] =>
    match x.toNat?.bind (s.idxs[·]?), key? k with
    | some c, some k => (s, showOpt (c.query k))
    | _, _ => bad s
  | ["iqp", x, k] =>
    match x.toNat?.bind (s.idxs[·]?), key? k with
    | some c, some k => (s, showFacts (c.queryPrefix k))
    | _, _ => bad s
  | ["sdump", sg] =>
    match sg.toNat?.bind (s.segs[·]?) with
    | some seg => (s, showChain seg.facts)
    | none => bad s
  | ["idump", x] =>
    match x.toNat?.bind (s.idxs[·]?) with
    | some c => (s, showChain c)
    | none => bad s
  | ["ckpt"] =>
    match s.persp with
    | some p => (s, s!"ok {p.checkpoint}")
    | none => bad s
  | ["revert", n] =>
    match s.persp, n.toNat? with
    | some p, some n =>
      match p.revert n with
      | .ok p' => ({ s with persp := some p' }, "ok")
      | .error e => (s, showErr e)
    | _, _ => bad s
  | ["cmds"] =>
    match s.persp with
    | some p => (s, "[" ++ ",".intercalate (p.commands.map fun c => toString c.id) ++ "]")
    | none => bad s
  | _ => bad s

end FactsStep
