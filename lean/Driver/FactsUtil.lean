import Driver.Common
import AranyaV.Model.Facts
/-!
Token formats shared by the fact-storage drivers (C12, C13, C14).

* bytes: lower-case hex, `-` for the empty string
* key:   `<name>:<comp>,<comp>,…` (each part bytes as above; nothing after `:` = no components)
* query answer: `none` | `some:<bytes>`
* prefix answer: `[<key>=<bytes>;…]`
-/
open AranyaV.Facts

namespace FactsUtil

def bytes? (s : String) : Option Bytes := (Driver.hex? s).map (·.map (·.toNat))

def showBytes (b : Bytes) : String := Driver.toHex (b.map UInt8.ofNat)

def allSome {α : Type} : List (Option α) → Option (List α)
  | [] => some []
  | none :: _ => none
  | some a :: r => (allSome r).map (a :: ·)

def key? (s : String) : Option Key :=
  match s.splitOn ":" with
  | [n, cs] =>
    match bytes? n with
    | none => none
    | some nb =>
      if cs == "" then some [nb]
      else (allSome ((cs.splitOn ",").map bytes?)).map (nb :: ·)
  | _ => none

def showKey : Key → String
  | [] => "?"
  | n :: cs => showBytes n ++ ":" ++ ",".intercalate (cs.map showBytes)

def showOpt : Option Val → String
  | none => "none"
  | some v => "some:" ++ showBytes v

def showFacts (l : List (Key × Val)) : String :=
  "[" ++ ";".intercalate (l.map fun e => showKey e.1 ++ "=" ++ showBytes e.2) ++ "]"

def showSlotMap (m : FMap) : String :=
  "{" ++ ";".intercalate (m.map fun e => showKey e.1 ++ "=" ++
    (match e.2 with | none => "~" | some v => showBytes v)) ++ "}"

/-- layers newest first: `d=<depth>{…}|d=<depth>{…}` -/
def showChain (c : Chain) : String :=
  "|".intercalate (c.map fun l => s!"d={l.depth}" ++ showSlotMap l.facts)

def showErr : Err → String
  | .tooDeep => "err toodeep"
  | .emptyPerspective => "err empty"
  | .outOfBounds => "err oob"
  | .badCheckpoint => "err badckpt"

end FactsUtil
