import Driver.Common
import AranyaV.Spec.Braid
import AranyaV.Spec.Synth
/-!
Shared request handling for the graph-level drivers (C01–C05, …): the harness sends the
command set as `cmd` lines (see `harness/src/gk.rs::cmd_line`) and then asks spec-level
questions.  Ids are 64-hex-digit strings; they are shown by their first 8 digits (which is also
the tag the audit policy's `a` op appends).
-/
namespace Driver.Graph
open AranyaV.Spec AranyaV.Gen

def hexNat? (s : String) : Option Nat :=
  s.toList.foldlM (fun acc c => (Driver.hexDigit? c).map (fun d => acc * 16 + d)) 0

def parsePrio (s : String) : Option Priority :=
  match s.splitOn ":" with
  | ["merge"] => some .merge
  | ["finalize"] => some .finalize
  | ["init"] => some .init
  | ["basic", n] => n.toNat?.map .basic
  | _ => none

def parseOp (s : String) : Option Op :=
  if s.startsWith "na" then (s.drop 2).toString.toNat?.map .reqAbsent
  else if s.startsWith "np" then (s.drop 2).toString.toNat?.map .reqPresent
  else if s.startsWith "s" then
    match (s.drop 1).toString.splitOn "=" with
    | [k, v] => match k.toNat?, v.toNat? with
      | some k, some v => some (.set k v)
      | _, _ => none
    | _ => none
  else if s.startsWith "d" then (s.drop 1).toString.toNat?.map .del
  else if s == "a" then some .append
  else if s == "x" then some .fail
  else if s.startsWith "e" then (s.drop 1).toString.toNat?.map .emit
  else if s.startsWith "t" then some (.tag (s.drop 1).toString)
  else none

def parseBody (s : String) : Option (List Op) :=
  if s == "-" then some [] else (s.splitOn ";").filter (· ≠ "") |>.mapM parseOp

def parseIds (s : String) : Option (List Nat) :=
  if s == "-" then some [] else (s.splitOn ",").mapM hexNat?

def parseCmd (id prio par body : String) : Option Cmd := do
  let i ← hexNat? id
  let p ← parsePrio prio
  let ps ← parseIds par
  let b ← parseBody body
  some { id := i, parents := ps, prio := p, body := b, tag := (id.take 8).toString }

def pad16 (n : Nat) : String :=
  let h := String.ofList (Nat.toDigits 16 n)
  String.ofList (List.replicate (16 - h.length) '0') ++ h

def showFacts (s : Facts) : String :=
  let rows := s.f.map (fun (k, v) => s!"f|{pad16 k}|{pad16 v}")
  let rows := match s.log with
    | none => rows
    | some l => rows ++ [s!"log|-|{":".intercalate l}"]
  if rows.isEmpty then "[]" else "[" ++ ",".intercalate rows ++ "]"

def showId (g : Graph) (i : Nat) : String :=
  match g.find? i with
  | some c => c.tag
  | none => s!"?{i}"

def showIds (g : Graph) (l : List Nat) : String :=
  if l.isEmpty then "[]" else "[" ++ ",".intercalate (l.map (showId g)) ++ "]"

def showErr : BraidErr → String
  | .parallelFinalize => "err ParallelFinalize"
  | .malformed => "err malformed"

def showTerm (g : Graph) : HTerm → String
  | .leaf i => showId g i
  | .merge l r => s!"M({showTerm g l},{showTerm g r})"

/-- spec-level requests shared by all graph drivers; `none` = not a request of this layer -/
def step (g : Graph) (toks : List String) : Option (Graph × String) :=
  match toks with
  | ["reset"] => some ([], "ok")
  | ["truncate", n] =>
    -- drop commands added after the first `n` (a transaction that failed to commit)
    match n.toNat? with
    | some n => some (g.take n, "ok")
    | none => some (g, "bad-op")
  | ["cmd", id, prio, par, body] =>
    match parseCmd id prio par body with
    | some c => some (g ++ [c], "ok")
    | none => some (g, "bad-op")
  | ["frontier"] => some (g, showIds g (frontier g))
  | ["braid", hs] =>
    match parseIds hs with
    | none => some (g, "bad-op")
    | some hs => match refBraid g hs with
      | .ok (s, o) => some (g, s!"{showId g s} {showIds g o}")
      | .error e => some (g, showErr e)
  | ["braidorder", hs] =>
    match parseIds hs with
    | none => some (g, "bad-op")
    | some hs => match refBraid g hs with
      | .ok (_, o) => some (g, showIds g o)
      | .error e => some (g, showErr e)
  | ["facts", hs] =>
    match parseIds hs with
    | none => some (g, "bad-op")
    | some hs => match factsOf g hs with
      | .ok s => some (g, showFacts s)
      | .error e => some (g, showErr e)
  | ["facts"] =>
    match factsOf g (frontier g) with
    | .ok s => some (g, showFacts s)
    | .error e => some (g, showErr e)
  | ["state", i] =>
    match hexNat? i with
    | none => some (g, "bad-op")
    | some i => match stateAt g i with
      | .ok s => some (g, showFacts s)
      | .error e => some (g, showErr e)
  | ["synth"] =>
    match synth (frontier g) with
    | some t => some (g, showTerm g t)
    | none => some (g, "err empty")
  | ["synth", hs] =>
    match parseIds hs with
    | none => some (g, "bad-op")
    | some hs => match synth hs with
      | some t => some (g, showTerm g t)
      | none => some (g, "err empty")
  | ["anc", a, b] =>
    match hexNat? a, hexNat? b with
    | some a, some b => some (g, if anc g a b then "1" else "0")
    | _, _ => some (g, "bad-op")
  | ["maxcut", i] =>
    match hexNat? i with
    | some i => some (g, toString (maxCut g i))
    | none => some (g, "bad-op")
  | _ => none

end Driver.Graph
