import Driver.Trx
/-! Driver for C06 (commands rejected at origin leave no trace): the shared transaction driver. -/
def main : IO Unit := Driver.run Driver.Trx.step Driver.Trx.init
