import Driver.Trx
/-! Driver for C10 (a graph is bound to its init command): the shared transaction driver (`Driver/Trx.lean`). -/
def main : IO Unit := Driver.run Driver.Trx.step Driver.Trx.init
