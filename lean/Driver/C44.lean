import Driver.Common
import AranyaV.Model.Conc.BiArc
/-!
Driver for the `Lender`/`Loan`/`BiArc` transition system (C44).  The harness replays the
schedule it imposed on the real threads:

* `new <n>`                       → `ok`
* `lend|shared|ldrop|get|ndrop <t>` → `<label'>` | `blocked`   thread `t` (idle) starts the call
* `s <t> <label>`                 → `<label'> loan=<0|1> freed=<k>`   thread `t`, parked at yield
                                     point `<label>`, performs its next operation
* `end`                           → `end freed=<k> uaf=<0|1> lender=<alive|dropping|gone>`

`pc-mismatch <model label>`: the real thread is parked elsewhere than the model's pc.
-/
open AranyaV.BiArc

def labelAt (s : State) (t : Nat) : String :=
  match s.ths[t]? with
  | some th => th.pc.label
  | none => "none"

def loanAt (s : State) (t : Nat) : Nat :=
  match s.ths[t]? with
  | some th => if th.loan then 1 else 0
  | none => 0

def startOp? : String → Option Op
  | "lend" => some .startLend
  | "shared" => some .startShared
  | "ldrop" => some .startLDrop
  | "get" => some .startGet
  | "ndrop" => some .startNDrop
  | _ => none

def showL : LSt → String
  | .alive => "alive"
  | .dropping => "dropping"
  | .gone => "gone"

def drvStep (s : State) (toks : List String) : State × String :=
  match toks with
  | ["new", n] => match n.toNat? with
    | some n => (init n, "ok")
    | none => (s, "bad-op")
  | ["s", t, l] => match t.toNat? with
    | some t =>
      if labelAt s t != l then (s, s!"pc-mismatch {labelAt s t}")
      else match step s t .step with
        | some s' => (s', s!"{labelAt s' t} loan={loanAt s' t} freed={s'.freed}")
        | none => (s, "blocked")
    | none => (s, "bad-op")
  | ["end"] => (s, s!"end freed={s.freed} uaf={if s.uaf then 1 else 0} lender={showL s.lender}")
  | [op, t] => match startOp? op, t.toNat? with
    | some op, some t => match step s t op with
      | some s' => (s', labelAt s' t)
      | none => (s, "blocked")
    | _, _ => (s, "bad-op")
  | _ => (s, "bad-op")

def main : IO Unit := Driver.run drvStep (init 0)
