import Driver.Common
import AranyaV.Model.Conc.Arc
/-!
Driver for the `ArcStr` transition system (C33).  The harness replays the schedule it imposed
on the real threads:

* `new <n>`               → `ok`                          one allocation owned by thread 0, `n` more threads
* `clone|read|drop <t>`   → `<label'>` | `blocked`        thread `t` (idle) starts the operation
* `give <t> <u>`          → `ok` | `blocked`              a handle moves from `t` to `u`
* `s <t> <label>`         → `<label'> strong=<k> freed=<k>`   thread `t`, parked at yield point
                                                          `<label>`, performs its next operation
* `end`                   → `end strong=<k> freed=<k> uaf=<0|1>`
-/
open AranyaV.Arc

def labelAt (s : State) (t : Nat) : String :=
  match s.ths[t]? with
  | some th => th.pc.label
  | none => "none"

def startOp? : String → Option Op
  | "clone" => some .startClone
  | "read" => some .startRead
  | "drop" => some .startDrop
  | _ => none

def drvStep (s : State) (toks : List String) : State × String :=
  match toks with
  | ["new", n] => match n.toNat? with
    | some n => (init n, "ok")
    | none => (s, "bad-op")
  | ["s", t, l] => match t.toNat? with
    | some t =>
      if labelAt s t != l then (s, s!"pc-mismatch {labelAt s t}")
      else match step s t .step with
        | some s' => (s', s!"{labelAt s' t} strong={s'.strong} freed={s'.freed}")
        | none => (s, "blocked")
    | none => (s, "bad-op")
  | ["give", t, u] => match t.toNat?, u.toNat? with
    | some t, some u => match step s t (.give u) with
      | some s' => (s', "ok")
      | none => (s, "blocked")
    | _, _ => (s, "bad-op")
  | ["end"] => (s, s!"end strong={s.strong} freed={s.freed} uaf={if s.uaf then 1 else 0}")
  | [op, t] => match startOp? op, t.toNat? with
    | some op, some t => match step s t op with
      | some s' => (s', labelAt s' t)
      | none => (s, "blocked")
    | _, _ => (s, "bad-op")
  | _ => (s, "bad-op")

def main : IO Unit := Driver.run drvStep (init 0)
