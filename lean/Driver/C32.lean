import Driver.Common
import AranyaV.Model.Text
/-!
Driver for the `Text` / `Identifier` model (C32).  Stateless; contents are hex (`-` = empty).
Answers for a value: `ok <i|o> <hex of as_str>` (`i` = stored inline in the value itself,
`o` = static or heap).

* `t.new` · `t.lit <s>` · `t.fromstr <s>` · `t.cstr <bytes>` · `t.add <a> <b>` ·
  `t.json <s>` / `t.postcard <bytes>` (serde) · `t.rkyv <bytes>` (checked access + deserialize)
* `i.lit <s>` · `i.fromstr <s>` · `i.fromtext <s>` · `i.fromstatic <s>` · `i.json <s>` /
  `i.postcard <bytes>` · `i.rkyv <bytes>` · `i.totext <s>`
* `cmp <a> <b>` → `<lt|eq|gt> <== 0|1> <same hash input 0|1>`
-/
open AranyaV.Text

def showVal (r : Repr) : String :=
  s!"ok {if r.isInline then "i" else "o"} {Driver.toHex r.asStr}"

def showTextErr : TextErr → String
  | .containsNul i => s!"nul {i}"
  | .utf8 => "utf8"
  | .format => "err"

def showIdentErr : IdentErr → String
  | .notEmpty => "empty"
  | .initialNotAlphabetic => "initial"
  | .trailingNotValid i => s!"trailing {i}"
  | .format => "err"

def showT : Except TextErr Text → String
  | .ok t => showVal t.repr
  | .error e => showTextErr e

def showI : Except IdentErr Identifier → String
  | .ok i => showVal i.text.repr
  | .error e => showIdentErr e

/-- serde / rkyv report one opaqueErr error -/
def opaqueErr (s : String) : String := if s.startsWith "ok " then s else "err"

def step (_ : Unit) (toks : List String) : Unit × String :=
  match toks with
  | ["t.new"] => ((), showVal Text.new.repr)
  | ["cmp", a, b] => match Driver.hex? a, Driver.hex? b with
    | some a, some b =>
      let ra := Repr.fromStr a
      let rb := Repr.fromStr b
      let o := match ra.cmp rb with | .lt => "lt" | .eq => "eq" | .gt => "gt"
      ((), s!"{o} {if ra.eq rb then 1 else 0} {if ra.hashInput == rb.hashInput then 1 else 0}")
    | _, _ => ((), "bad-op")
  | ["t.add", a, b] => match Driver.hex? a, Driver.hex? b with
    | some a, some b =>
      match Text.fromStr a, Text.fromStr b with
      | .ok ta, .ok tb => ((), match Text.add ta tb with | .val t => showVal t.repr | .panic => "panic")
      | _, _ => ((), "nul-arg")
    | _, _ => ((), "bad-op")
  | [op, h] => match Driver.hex? h with
    | none => ((), "bad-op")
    | some s =>
      match op with
      | "t.lit" => ((), match Text.lit s with | some t => showVal t.repr | none => "reject")
      | "t.fromstr" => ((), showT (Text.fromStr s))
      | "t.cstr" => if s.contains 0 then ((), "bad-op") else ((), showT (Text.fromCStr s))
      | "t.json" => ((), opaqueErr (showT (Text.deserialize s)))
      | "t.postcard" => ((), opaqueErr (showT (Text.deserialize s)))
      | "t.rkyv" => ((), match Text.access s with
          | .ok a => showVal a.deserialize.repr | .error _ => "err")
      | "i.lit" => ((), match Identifier.lit s with | some i => showVal i.text.repr | none => "reject")
      | "i.fromstr" => ((), showI (Identifier.fromStr s))
      | "i.fromtext" => ((), match Text.fromStr s with
          | .ok t => showI (Identifier.fromText t) | .error _ => "nul-arg")
      | "i.fromstatic" => ((), match Text.lit s with
          | some t => showI (Identifier.fromText t) | none => "nul-arg")
      | "i.json" => ((), opaqueErr (showI (Identifier.deserialize s)))
      | "i.postcard" => ((), opaqueErr (showI (Identifier.deserialize s)))
      | "i.rkyv" => ((), match Identifier.access s with
          | .ok a => showVal a.deserialize.text.repr | .error _ => "err")
      | "i.totext" => ((), match Identifier.fromStr s with
          | .ok i => showVal i.toText.repr | .error e => showIdentErr e)
      | _ => ((), "bad-op")
  | _ => ((), "bad-op")

def main : IO Unit := Driver.run step ()
