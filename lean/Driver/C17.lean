import Driver.Sync
/-! Driver for the sync model, C17 (sessions are sound and terminate). -/
def main : IO Unit := Driver.run Driver.Sync.step {}
