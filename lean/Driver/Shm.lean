import Driver.Common
import AranyaV.Model.Conc.Shm
import AranyaV.Model.Conc.ShmMem
/-!
Driver for the shared-memory channel-table transition system (C40, C41, C42).  The harness
replays the schedule it imposed on the real `WriteState` / `ReadState` threads:

* `new <cap> <readers>`            → `ok`
* `wb <req>`                       → `<snap> <label>`            the writer starts an operation
      `<req>` = `add <dir> <par>` | `rm <x>` | `rmall` | `rmif <pred>` | `ex <x>`
      `<pred>` = `all` | `none` | `par <v>` | `dir <d>` | `idlt <n>` | `idge <n>`
* `ws <label> [w<k>]`              → `<snap> <label'> [ret <r>]`  the writer, parked at yield point
                                                                   `<label>`, performs its next step
* `rb <i> <op>`                    → `<snap> <label'> [ret <r>]`  reader `i` starts an operation
      `<op>` = `setup s|o <x>` | `seal <k> <fail>` | `open <k> <fail>` | `ex <x>`
* `rs <i> <label> [w<k>]`          → `<snap> <label'> [ret <r>]`
* `m …`                            → `m`      a step inside the futex mutex (stutter, see C43)
* `end`                            → `end <snap>`
* `mnew`                           → `ok`       fresh in-memory state (`AranyaV.ShmMem`)
* `mo <op>`                        → `<r>`      one (atomic) operation on the in-memory state:
      `add <dir> <par>` | `rm <x>` | `rmall` | `rmif <pred>` | `ex <x>` | `setup s|o <x>` |
      `seal <k> <fail>` | `open <k> <fail>` | `drop <k>`

`<snap>` = `r<readOff>w<writeOff> n<nextId> <genA>:<chansA> <genB>:<chansB> <lockedA><lockedB>`.
`pc-mismatch <model label>`: the real thread is parked somewhere else than the model's pc;
`blocked`: the step is not enabled in the model (e.g. `lock` on a held side).
-/
namespace Driver.Shm
open AranyaV.Shm

def b01 (b : Bool) : String := if b then "1" else "0"

def chansStr (l : List Chan) : String :=
  if l.isEmpty then "-" else ",".intercalate (l.map fun c => s!"{c.id}.{c.dir}")

def snap (s : State) : String :=
  s!"r{b01 s.readOff}w{b01 s.writeOff} n{s.nextId} {s.a.gen}:{chansStr s.a.chans} {s.b.gen}:{chansStr s.b.chans} {b01 s.ha.isSome}{b01 s.hb.isSome}"

def retStr : Ret → String
  | .ok => "ok"
  | .okId n => s!"id{n}"
  | .outOfSpace => "oos"
  | .bool b => s!"b{b01 b}"
  | .notFound => "nf"
  | .keyExpired => "ke"
  | .fErr => "ferr"
  | .sealed q => s!"seq{q}"
  | .opened => "opened"
  | .ctx k => s!"ctx{k}"

def retSuffix : Option Ret → String
  | none => ""
  | some r => s!" ret {retStr r}"

def pred? : List String → Option (Chan → Bool)
  | ["all"] => some fun _ => true
  | ["none"] => some fun _ => false
  | ["par", v] => v.toNat?.map fun v => fun c => c.par == v
  | ["dir", d] => d.toNat?.map fun d => fun c => c.dir == d
  | ["idlt", n] => n.toNat?.map fun n => fun c => c.id < n
  | ["idge", n] => n.toNat?.map fun n => fun c => decide (c.id ≥ n)
  | _ => none

def wreq? : List String → Option WReq
  | ["add", d, p] => match d.toNat?, p.toNat? with
    | some d, some p => if d == 1 || d == 2 then some (.add d p) else none
    | _, _ => none
  | ["rm", x] => x.toNat?.map .remove
  | ["rmall"] => some .removeAll
  | "rmif" :: rest => (pred? rest).map .removeIf
  | ["ex", x] => x.toNat?.map .exists_
  | _ => none

def rop? : List String → Option ROp
  | ["setup", "s", x] => x.toNat?.map (.setup true)
  | ["setup", "o", x] => x.toNat?.map (.setup false)
  | ["seal", k, f] => match k.toNat?, Driver.bool? f with
    | some k, some f => some (.seal k f)
    | _, _ => none
  | ["open", k, f] => match k.toNat?, Driver.bool? f with
    | some k, some f => some (.open_ k f)
    | _, _ => none
  | ["ex", x] => x.toNat?.map .exists_
  | _ => none

def rLabelAt (s : State) (i : Nat) : String :=
  match s.rs[i]? with
  | some r => r.pc.label
  | none => "none"

/-- optional trailing token `w<k>` (which sleeper the unlock woke): harness information only -/
def extraOk : List String → Bool
  | [] => true
  | [x] => x.startsWith "w"
  | _ => false

/-! ### the in-memory state -/

def mretStr : AranyaV.ShmMem.Ret → String
  | .ok => "ok"
  | .okId n => s!"id{n}"
  | .bool b => s!"b{b01 b}"
  | .notFound => "nf"
  | .fErr => "ferr"
  | .sealed q => s!"seq{q}"
  | .opened => "opened"
  | .ctx k => s!"ctx{k}"
  | .invalid => "invalid"

def mpred? : List String → Option (AranyaV.ShmMem.MChan → Bool)
  | ["all"] => some fun _ => true
  | ["none"] => some fun _ => false
  | ["par", v] => v.toNat?.map fun v => fun c => c.par == v
  | ["dir", d] => d.toNat?.map fun d => fun c => c.dir == d
  | ["idlt", n] => n.toNat?.map fun n => fun c => c.id < n
  | ["idge", n] => n.toNat?.map fun n => fun c => decide (c.id ≥ n)
  | _ => none

def mop? : List String → Option AranyaV.ShmMem.Op
  | ["add", d, p] => match d.toNat?, p.toNat? with
    | some d, some p => if d == 1 || d == 2 then some (.add d p) else none
    | _, _ => none
  | ["rm", x] => x.toNat?.map .remove
  | ["rmall"] => some .removeAll
  | "rmif" :: rest => (mpred? rest).map .removeIf
  | ["ex", x] => x.toNat?.map .exists_
  | ["setup", "s", x] => x.toNat?.map (.setup true)
  | ["setup", "o", x] => x.toNat?.map (.setup false)
  | ["seal", k, f] => match k.toNat?, Driver.bool? f with
    | some k, some f => some (.sealC k f)
    | _, _ => none
  | ["open", k, f] => match k.toNat?, Driver.bool? f with
    | some k, some f => some (.openC k f)
    | _, _ => none
  | ["drop", k] => k.toNat?.map .dropC
  | _ => none

structure DState where
  shm : State
  mem : AranyaV.ShmMem.State

def shmStep (s : State) (toks : List String) : State × String :=
  match toks with
  | ["new", cap, n] => match cap.toNat?, n.toNat? with
    | some cap, some n => (init cap n, "ok")
    | _, _ => (s, "bad-op")
  | "wb" :: rq => match wreq? rq with
    | none => (s, "bad-op")
    | some rq => match step s (.wBegin rq) with
      | some (s', r) => (s', s!"{snap s'} {s'.w.label}{retSuffix r}")
      | none => (s, "blocked")
  | "ws" :: l :: extra =>
    if !extraOk extra then (s, "bad-op")
    else if s.w.label != l then (s, s!"pc-mismatch {s.w.label}")
    else match step s .wStep with
      | some (s', r) => (s', s!"{snap s'} {s'.w.label}{retSuffix r}")
      | none => (s, "blocked")
  | "rb" :: i :: op => match i.toNat?, rop? op with
    | some i, some op => match step s (.rBegin i op) with
      | some (s', r) => (s', s!"{snap s'} {rLabelAt s' i}{retSuffix r}")
      | none => (s, "blocked")
    | _, _ => (s, "bad-op")
  | "rs" :: i :: l :: extra => match i.toNat? with
    | some i =>
      if !extraOk extra then (s, "bad-op")
      else if rLabelAt s i != l then (s, s!"pc-mismatch {rLabelAt s i}")
      else match step s (.rStep i) with
        | some (s', r) => (s', s!"{snap s'} {rLabelAt s' i}{retSuffix r}")
        | none => (s, "blocked")
    | none => (s, "bad-op")
  | "m" :: _ => (s, "m")
  | ["end"] => (s, s!"end {snap s}")
  | _ => (s, "bad-op")

def drvStep (d : DState) (toks : List String) : DState × String :=
  match toks with
  | ["mnew"] => ({ d with mem := AranyaV.ShmMem.init }, "ok")
  | "mo" :: rest => match mop? rest with
    | none => (d, "bad-op")
    | some o =>
      let (m', r) := AranyaV.ShmMem.step d.mem o
      ({ d with mem := m' }, mretStr r)
  | _ =>
    let (s', o) := shmStep d.shm toks
    ({ d with shm := s' }, o)

def drvInit : DState := ⟨init 0 0, AranyaV.ShmMem.init⟩

end Driver.Shm
