import Driver.Common
import AranyaV.Model.CStr
/-!
Driver for the `write_c_str` model (C47).  Stateless:

`wcs <base> <len> <mem-hex> <fails 0|1> <frag-hex>*`  →  `<ok|small|bug|panic> <nw> <mem-hex>`

`mem` is the whole memory image (guard bytes, buffer at `[base, base+len)`, guard bytes);
fragments are hex strings (`-` = empty fragment).
-/
open AranyaV.CStr

def showRes : Res → String
  | .ok => "ok" | .tooSmall => "small" | .bug => "bug" | .panic => "panic"

def parseFrags : List String → Option (List (List UInt8))
  | [] => some []
  | t :: ts => match Driver.hex? t, parseFrags ts with
    | some f, some fs => some (f :: fs)
    | _, _ => none

def step (_ : Unit) (toks : List String) : Unit × String :=
  match toks with
  | "wcs" :: b :: l :: m :: f :: frags =>
    match b.toNat?, l.toNat?, Driver.hex? m, Driver.bool? f, parseFrags frags with
    | some base, some len, some mem, some fails, some frags =>
      if base + len ≤ mem.length then
        let (r, w) := run usizeMax mem base len frags fails
        ((), s!"{showRes r} {w.nw} {Driver.toHex w.mem}")
      else ((), "bad-op")
    | _, _, _, _, _ => ((), "bad-op")
  | _ => ((), "bad-op")

def main : IO Unit := Driver.run step ()
