import Driver.Graph
import AranyaV.Model.Trx
/-!
Shared model driver for the transaction/action properties C06–C10: replays the request lines of
`harness/src/tk.rs` on `AranyaV.Trx` (the model of `Transaction` / `ClientState::action`) and
answers in the harness's canonical format.
-/
namespace Driver.Trx
open AranyaV.Spec AranyaV.Gen AranyaV.Trx

structure St where
  defs : List (String × In) := []
  cl   : Client := { gid := 0 }

def init : St := {}

def errName : Err → String
  | .initError => "InitError"
  | .noSuchParent => "NoSuchParent"
  | .rejected => "Rejected"
  | .parallelFinalize => "ParallelFinalize"
  | .concurrentTransaction => "ConcurrentTransaction"
  | .noSuchStorage => "Storage:NoSuchStorage"
  | .emptyPerspective => "Storage:EmptyPerspective"
  | .storageExists => "Storage:StorageExists"
  | .bug => "Bug"
  | .malformed => "Malformed"

def tagOf (s : St) (i : Nat) : String :=
  match s.defs.find? (fun d => d.2.cmd.id == i) with
  | some d => d.1
  | none => s!"?{i}"

def showIds (s : St) (l : List Nat) : String :=
  if l.isEmpty then "[]" else "[" ++ ",".intercalate (l.map (tagOf s)) ++ "]"

/-- the sink events appended by one request, as `b.<tag>:<n>…(.k|.r|.open)` windows -/
def showWindows (s : St) (evs : List SinkEv) : String :=
  let rec go : List SinkEv → Option String → List String → List String
    | [], none, acc => acc
    | [], some w, acc => acc ++ [w ++ ".open"]
    | .begin :: rest, none, acc => go rest (some "b") acc
    | .begin :: rest, some w, acc => go rest (some "b") (acc ++ [w ++ ".open"])
    | .consume c n :: rest, some w, acc => go rest (some (w ++ s!".{tagOf s c}:{n}")) acc
    | .consume _ _ :: rest, none, acc => go rest none (acc ++ ["!consume"])
    | .commit :: rest, some w, acc => go rest none (acc ++ [w ++ ".k"])
    | .rollback :: rest, some w, acc => go rest none (acc ++ [w ++ ".r"])
    | .commit :: rest, none, acc => go rest none (acc ++ ["!k"])
    | .rollback :: rest, none, acc => go rest none (acc ++ ["!r"])
  let ws := go evs none []
  if ws.isEmpty then "-" else ",".intercalate ws

def lookupTags (s : St) (l : String) : Option (List In) :=
  if l == "-" then some [] else (l.splitOn ",").mapM (fun t => (s.defs.find? (fun d => d.1 == t)).map (·.2))

def sinkDelta (old new : List SinkEv) : List SinkEv := new.drop old.length

def sortNat (l : List Nat) : List Nat := l.mergeSort (· ≤ ·)

/-- the transaction in slot `n` read the heads under a stamp that is no longer the store's: it can
only end in `ConcurrentTransaction`; the theorems (`TrxInv`, `TipsInv`, `trx_refines`) speak about
transactions holding the CURRENT stamp, and the harness does not judge stale ones either — their
`add`/`flush`/`tips` are executed but answered `stale` -/
def isStale (s : St) (n : Nat) : Bool :=
  match getSlot s.cl.trxs n, s.cl.store with
  | some t, some st =>
    match t.offset with
    | some o => o != st.stamp
    | none => false
  | _, _ => false

def step (s : St) (toks : List String) : St × String :=
  match toks with
  | ["new", g] =>
    match Driver.Graph.hexNat? g with
    | some gid => if g.length != 64 then (s, "bad-op") else ({ defs := [], cl := { gid := gid } }, "ok")
    | none => (s, "bad-op")
  | ["def", id, prio, par, body, pol] =>
    if id.length != 64 then (s, "bad-op") else
    match Driver.Graph.parseCmd id prio par body, (if pol == "P" then some true else if pol == "N" then some false else none) with
    | some c, some p =>
      if c.parents.length > 2 then (s, "bad-op")
      else ({ s with defs := ((id.take 8).toString, { cmd := c, pol := p }) :: s.defs }, "ok")
    | _, _ => (s, "bad-op")
  | ["open", n] =>
    match n.toNat? with
    | some n => ({ s with cl := (AranyaV.Trx.step s.cl (.openT n)).1 }, "ok")
    | none => (s, "bad-op")
  | ["drop", n] =>
    match n.toNat? with
    | some n => ({ s with cl := (AranyaV.Trx.step s.cl (.dropT n)).1 }, "ok")
    | none => (s, "bad-op")
  | ["add", n, l] =>
    match n.toNat?, lookupTags s l with
    | some n, some batch =>
      let r := AranyaV.Trx.step s.cl (.add n batch)
      let sk := showWindows s (sinkDelta s.cl.sink r.1.sink)
      ({ s with cl := r.1 },
        if isStale s n then "stale" else
        match r.2 with
        | .count k => s!"ok {k} sink={sk}"
        | .err e => s!"err {errName e} sink={sk}"
        | .noTrx => "err NoTrx"
        | _ => "bad-op")
    | _, _ => (s, "bad-op")
  | ["flush", n] =>
    match n.toNat? with
    | some n =>
      let r := AranyaV.Trx.step s.cl (.flush n)
      ({ s with cl := r.1 },
        if isStale s n then "stale" else
        match r.2 with
        | .done => "ok"
        | .err e => s!"err {errName e}"
        | .noTrx => "err NoTrx"
        | _ => "bad-op")
    | none => (s, "bad-op")
  | ["commit", n] =>
    match n.toNat? with
    | some n =>
      let r := AranyaV.Trx.step s.cl (.commit n)
      let sk := showWindows s (sinkDelta s.cl.sink r.1.sink)
      ({ s with cl := r.1 },
        match r.2 with
        | .committed b => s!"ok {if b then 1 else 0} sink={sk}"
        | .err e => s!"err {errName e} sink={sk}"
        | .noTrx => "err NoTrx"
        | _ => "bad-op")
    | none => (s, "bad-op")
  | ["action", nonce, ms, ps] =>
    match nonce.toNat?, lookupTags s ms, lookupTags s ps with
    | some _, some ms, some ps =>
      let r := AranyaV.Trx.step s.cl (.action (ms.map (·.cmd)) (ps.map (·.cmd)))
      let sk := showWindows s (sinkDelta s.cl.sink r.1.sink)
      ({ s with cl := r.1 },
        match r.2 with
        | .done => s!"ok sink={sk}"
        | .err e => s!"err {errName e} sink={sk}"
        | _ => "bad-op")
    | _, _, _ => (s, "bad-op")
  | ["newgraph", nonce, ps] =>
    match nonce.toNat?, lookupTags s ps with
    | some _, some ps =>
      let r := AranyaV.Trx.step s.cl (.newGraph (ps.map (·.cmd)))
      let sk := showWindows s (sinkDelta s.cl.sink r.1.sink)
      ({ s with cl := r.1 },
        match r.2 with
        | .done => s!"ok {tagOf s s.cl.gid} sink={sk}"
        | .err e => s!"err {errName e} sink={sk}"
        | _ => "bad-op")
    | _, _ => (s, "bad-op")
  | ["heads"] =>
    (s, match s.cl.store with
      | some st => showIds s st.heads
      | none => "none")
  | ["committed"] =>
    (s, match s.cl.store with
      | some st => showIds s (sortNat (st.graph.map (·.cmd.id)))
      | none => "none")
  | ["facts"] =>
    (s, match s.cl.store with
      | some st => Driver.Graph.showFacts st.facts
      | none => "none")
  | ["stamp"] =>
    (s, match s.cl.store with
      | some st => toString st.stamp
      | none => "none")
  | ["exists"] => (s, if s.cl.store.isSome then "1" else "0")
  | ["tips", n] =>
    match n.toNat? with
    | some n =>
      (s, if isStale s n then "stale" else
        match getSlot s.cl.trxs n with
        | none => "err NoTrx"
        | some t =>
          let ph := match t.phead with
            | some p => tagOf s p
            | none => "-"
          s!"{showIds s (sortNat (t.heads ++ t.pbase))} base={showIds s t.pbase} ph={ph} p={if t.persp.isSome then 1 else 0} s={if t.offset.isSome then 1 else 0}")
    | none => (s, "bad-op")
  | _ => (s, "bad-op")

end Driver.Trx
