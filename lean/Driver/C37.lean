import Driver.Common
import AranyaV.Model.FramingSeal
import AranyaV.Spec.SymSeal
/-!
Driver for C37 (group keys, sealed group keys, PSK seeds, topic keys, topic-key messages).

  `case <seed> <big>` -> ok (reset)      `suite <dsize> <oid>...` -> ok
Byte level (answers: exact bytes, hex):
  `gkinfo <label> <parent> <author>`        preimage of `Context::to_bytes`
  `sgkad <group>` / `sgkinfo <group>`       `GroupKeyInfo` (AD) / what HPKE sees as info (‖ encoded OIDs)
  `pskad <group>` / `pskinfo <group>`       psk `Info`
  `topicad <version nat> <topic>` / `topicinfo <version nat> <topic>`
  `msgad <version nat> <topic> <enc key id> <sign key id>`   AD preimage of `seal_message`
Symbolic level. Tokens: `b<hex>` literal, `B<j>`/`T<j>`/`E<j>` body/tag/encapsulation of sealing
event j, `k<i>` public key of secret i.  Events of all primitives share one numbering.
  `gkseal <seed> <label> <parent> <author> <nonce> <pt>`                     -> `ok <j>`
  `gkopen <seed> <label> <parent> <author> <nonce> <body> <tag>`             -> `ok <pt hex>` | `fail`
  `sgkseal <r> <group> <seed>`                                               -> `ok <j>` | `fail`
  `sgkopen <r> <enc> <body> <tag> <group>`                                   -> `ok <seed>` | `fail`
  `pskseal <s> <r> <group> <seed>` / `pskopen <r> <enc> <body> <tag> <peer> <group>`
  `topicseal <s> <r> <version> <topic> <seed>` / `topicopen <r> <enc> <body> <tag> <sender> <version> <topic>`
  `msgseal <key> <version> <topic> <enckey> <signkey> <nonce> <pt>` / `msgopen <key> <version> <topic> <enckey> <signkey> <nonce> <body> <tag>`
-/
open AranyaV AranyaV.Framing

structure Ev where
  enc : Sym.Term
  body : Sym.Term
  tag : Sym.Term

structure St where
  oids : List Bytes := []
  dsize : Nat := 32
  events : List Ev := []

def symOids (s : St) : List Sym.Term := s.oids.map Sym.Term.lit

def tok (s : St) (t : String) : Option Sym.Term :=
  let idx (rest : List Char) (f : Ev → Sym.Term) : Option Sym.Term :=
    (String.ofList rest).toNat?.bind fun j => (s.events[j]?).map f
  match t.toList with
  | 'b' :: rest => (Driver.hex? (String.ofList rest)).map Sym.Term.lit
  | 'k' :: rest => (String.ofList rest).toNat?.map Sym.pkOf
  | 'B' :: rest => idx rest (·.body)
  | 'T' :: rest => idx rest (·.tag)
  | 'E' :: rest => idx rest (·.enc)
  | _ => none

def showPt : Option Sym.Term → String
  | some (.lit b) => s!"ok {Driver.toHex b}"
  | some (.sk n) => s!"ok {n}"
  | some _ => "ok ?"
  | none => "fail"

def push (s : St) (e : Ev) : St × String := ({ s with events := s.events ++ [e] }, s!"ok {s.events.length}")

/-- the ephemeral secret of event j -/
def eph (s : St) : Nat := 100000 + s.events.length

def hpkeEv (s : St) (r : Option (Sym.Term × Sym.Term × Sym.Term)) : St × String :=
  match r with
  | some (enc, b, t) => push s ⟨enc, b, t⟩
  | none => (s, "fail")

def step (s : St) (toks : List String) : St × String :=
  match toks with
  | ["case", _, _] => ({}, "ok")
  | "suite" :: d :: oids =>
    match d.toNat?, oids.mapM Driver.hex? with
    | some d, some os => ({ s with oids := os, dsize := d }, "ok")
    | _, _ => (s, "bad-op")
  | ["gkinfo", l, p, a] =>
    match [l, p, a].mapM Driver.hex? with
    | some [l, p, a] => (s, Driver.toHex (gkInfoPreimage s.oids l p a s.dsize))
    | _ => (s, "bad-op")
  | ["sgkad", g] => match Driver.hex? g with
    | some g => (s, Driver.toHex (sgkInfo g)) | none => (s, "bad-op")
  | ["sgkinfo", g] => match Driver.hex? g with
    | some g => (s, Driver.toHex (hpkeInfo (sgkInfo g) s.oids)) | none => (s, "bad-op")
  | ["pskad", g] => match Driver.hex? g with
    | some g => (s, Driver.toHex (pskInfo g)) | none => (s, "bad-op")
  | ["pskinfo", g] => match Driver.hex? g with
    | some g => (s, Driver.toHex (hpkeInfo (pskInfo g) s.oids)) | none => (s, "bad-op")
  | ["topicad", v, t] => match v.toNat?, Driver.hex? t with
    | some v, some t => (s, Driver.toHex (topicInfo (be32 v) t)) | _, _ => (s, "bad-op")
  | ["topicinfo", v, t] => match v.toNat?, Driver.hex? t with
    | some v, some t => (s, Driver.toHex (hpkeInfo (topicInfo (be32 v) t) s.oids)) | _, _ => (s, "bad-op")
  | ["msgad", v, t, e, g] => match v.toNat?, [t, e, g].mapM Driver.hex? with
    | some v, some [t, e, g] => (s, Driver.toHex (sealMsgAdPreimage s.oids (be32 v) t e g s.dsize))
    | _, _ => (s, "bad-op")
  | ["gkseal", sd, l, p, a, n, pt] =>
    match sd.toNat?, tok s l, tok s p, tok s a, tok s n, tok s pt with
    | some sd, some l, some p, some a, some n, some pt =>
      let c := Sym.gkSeal (symOids s) (.sk sd) ⟨l, p, a⟩ n pt
      push s ⟨.nil, c.body, c.tag⟩
    | _, _, _, _, _, _ => (s, "bad-op")
  | ["gkopen", sd, l, p, a, n, b, t] =>
    match sd.toNat?, tok s l, tok s p, tok s a, tok s n, tok s b, tok s t with
    | some sd, some l, some p, some a, some n, some b, some t =>
      (s, showPt (Sym.gkOpen (symOids s) (.sk sd) ⟨l, p, a⟩ ⟨n, b, t⟩))
    | _, _, _, _, _, _, _ => (s, "bad-op")
  | ["sgkseal", r, g, sd] =>
    match r.toNat?, tok s g, sd.toNat? with
    | some r, some g, some sd => hpkeEv s (Sym.sealGroupKey (eph s) (Sym.pkOf r) g (.sk sd))
    | _, _, _ => (s, "bad-op")
  | ["sgkopen", r, e, b, t, g] =>
    match r.toNat?, tok s e, tok s b, tok s t, tok s g with
    | some r, some e, some b, some t, some g => (s, showPt (Sym.openGroupKey r e b t g))
    | _, _, _, _, _ => (s, "bad-op")
  | ["pskseal", sk, r, g, sd] =>
    match sk.toNat?, r.toNat?, tok s g, sd.toNat? with
    | some sk, some r, some g, some sd => hpkeEv s (Sym.sealPskSeed sk (eph s) (Sym.pkOf r) g (.sk sd))
    | _, _, _, _ => (s, "bad-op")
  | ["pskopen", r, e, b, t, p, g] =>
    match r.toNat?, tok s e, tok s b, tok s t, tok s p, tok s g with
    | some r, some e, some b, some t, some p, some g => (s, showPt (Sym.openPskSeed r e b t p g))
    | _, _, _, _, _, _ => (s, "bad-op")
  | ["topicseal", sk, r, v, tp, sd] =>
    match sk.toNat?, r.toNat?, tok s v, tok s tp, sd.toNat? with
    | some sk, some r, some v, some tp, some sd =>
      hpkeEv s (Sym.sealTopicKey sk (eph s) (Sym.pkOf r) v tp (.sk sd))
    | _, _, _, _, _ => (s, "bad-op")
  | ["topicopen", r, e, b, t, p, v, tp] =>
    match r.toNat?, tok s e, tok s b, tok s t, tok s p, tok s v, tok s tp with
    | some r, some e, some b, some t, some p, some v, some tp =>
      (s, showPt (Sym.openTopicKey r e b t p v tp))
    | _, _, _, _, _, _, _ => (s, "bad-op")
  | ["msgseal", k, v, tp, ek, sk, n, pt] =>
    match k.toNat?, tok s v, tok s tp, tok s ek, tok s sk, tok s n, tok s pt with
    | some k, some v, some tp, some ek, some sk, some n, some pt =>
      let c := Sym.msgSeal (symOids s) (.sk k) ⟨v, tp, ek, sk⟩ n pt
      push s ⟨.nil, c.body, c.tag⟩
    | _, _, _, _, _, _, _ => (s, "bad-op")
  | ["msgopen", k, v, tp, ek, sk, n, b, t] =>
    match k.toNat?, tok s v, tok s tp, tok s ek, tok s sk, tok s n, tok s b, tok s t with
    | some k, some v, some tp, some ek, some sk, some n, some b, some t =>
      (s, showPt (Sym.msgOpen (symOids s) (.sk k) ⟨v, tp, ek, sk⟩ ⟨n, b, t⟩))
    | _, _, _, _, _, _, _, _ => (s, "bad-op")
  | _ => (s, "bad-op")

def main : IO Unit := Driver.run step {}
