import Driver.Common
import AranyaV.Model.FramingWrap
import AranyaV.Spec.SymWrap
/-!
Driver for C36 (wrapped keys).

  `case <seed> <big>`                        reset                                   -> `ok`
  `suite <dsize> <oid hex>...`               suite OIDs                              -> `ok`
  `algid <kind>`                             `T::ID.as_bytes()` of a kind            -> hex
  `distinct`                                 are the six algorithm ids pairwise different -> `1`/`0`
  `ad <kind> <keyid hex>`                    AD preimage of `wrap_secret`            -> hex
Symbolic (tokens: `b<hex>` literal bytes, `c<j>` / `t<j>` ciphertext body / tag of wrap event j):
  `wrap <engine> <kind> <id> <secret idx> <nonce>`                       -> `ok <j>`
  `unwrap <engine> <kind'> <id> <nonce> <variant kind> <ct> <tag>`       -> `ok <secret idx>` | `open` | `wrongtype`
kinds: aead decap mac prk seed signing
-/
open AranyaV AranyaV.Framing AranyaV.Gen.C36

structure Ev where
  eng : Nat
  kind : Kind
  id : Sym.Term
  secret : Nat
  nonce : Sym.Term

structure St where
  oids : List Bytes := []
  dsize : Nat := 32
  events : List Ev := []

def kind? : String → Option Kind
  | "aead" => some .aead | "decap" => some .decap | "mac" => some .mac
  | "prk" => some .prk | "seed" => some .seed | "signing" => some .signing
  | _ => none

def symOids (s : St) : List Sym.Term := s.oids.map Sym.Term.lit

def keyType (s : St) (k : Kind) : Sym.KeyType := ⟨k, algIdBytes s.oids k⟩

def evWrapped (s : St) (e : Ev) : Sym.Wrapped :=
  Sym.wrap (symOids s) (.sk (1000 + e.eng)) (keyType s e.kind) e.id (.sk e.secret) e.nonce

def tok (s : St) (t : String) : Option Sym.Term :=
  match t.toList with
  | 'b' :: rest => (Driver.hex? (String.ofList rest)).map Sym.Term.lit
  | 'c' :: rest => (String.ofList rest).toNat?.bind fun j => (s.events[j]?).map fun e => (evWrapped s e).ct
  | 't' :: rest => (String.ofList rest).toNat?.bind fun j => (s.events[j]?).map fun e => (evWrapped s e).tag
  | _ => none

def step (s : St) (toks : List String) : St × String :=
  match toks with
  | ["case", _, _] => ({}, "ok")
  | "suite" :: d :: oids =>
    match d.toNat?, oids.mapM Driver.hex? with
    | some d, some os => ({ s with oids := os, dsize := d }, "ok")
    | _, _ => (s, "bad-op")
  | ["algid", k] =>
    match kind? k with
    | some k => (s, Driver.toHex (algIdBytes s.oids k))
    | none => (s, "bad-op")
  | ["distinct"] =>
    (s, if ([Kind.aead, .decap, .mac, .prk, .seed, .signing].map (algIdBytes s.oids)).Nodup then "1" else "0")
  | ["ad", k, id] =>
    match kind? k, Driver.hex? id with
    | some k, some id => (s, Driver.toHex (wrapAdPreimage s.oids (algIdBytes s.oids k) id s.dsize))
    | _, _ => (s, "bad-op")
  | ["wrap", e, k, id, sec, n] =>
    match e.toNat?, kind? k, tok s id, sec.toNat?, tok s n with
    | some e, some k, some id, some sec, some n =>
      ({ s with events := s.events ++ [⟨e, k, id, sec, n⟩] }, s!"ok {s.events.length}")
    | _, _, _, _, _ => (s, "bad-op")
  | ["unwrap", e, k, id, n, v, ct, tg] =>
    match e.toNat?, kind? k, tok s id, tok s n, kind? v, tok s ct, tok s tg with
    | some e, some k, some id, some n, some v, some ct, some tg =>
      match Sym.unwrap (symOids s) (.sk (1000 + e)) (keyType s k) ⟨id, n, v, ct, tg⟩ with
      | .ok (.sk i) => (s, s!"ok {i}")
      | .ok _ => (s, "ok ?")
      | .openErr => (s, "open")
      | .wrongKeyType => (s, "wrongtype")
    | _, _, _, _, _, _, _ => (s, "bad-op")
  | _ => (s, "bad-op")

def main : IO Unit := Driver.run step {}
