import Driver.Common
import AranyaV.Model.Queue
import AranyaV.Model.QueueIdx
/-! Driver for the traversal-queue models (C21).

State = the two-list model (`Queue`, answers every request) next to the index-level model
(`IQ`: `entries` + `partition`, with the swap arithmetic of the Rust code).  Every request is run
on both; if the index-level model fails (`bug`/`oob`/`fuel` — proved unreachable) or its
observable answer differs from the two-list answer, the answer line is marked, which shows up as
a model-vs-real disagreement.  `dbg` prints the exact internal state of the index-level model
(`p=<partition> [seg:mc,...]` in index order), compared with the `Debug` dump of the real
`TraversalQueue`. -/
open AranyaV.Queue

def showLoc (l : Loc) : String := s!"{l.seg}:{l.mc}"

/-- canonical (sorted) rendering of a multiset of locations -/
def showLocs (ls : List Loc) : String :=
  let sorted := ls.toArray.qsort (fun a b => a.ble b && a != b) |>.toList
  if sorted.isEmpty then "[]" else "[" ++ ",".intercalate (sorted.map showLoc) ++ "]"

/-- exact rendering (index order) -/
def showLocsExact (ls : List Loc) : String :=
  if ls.isEmpty then "[]" else "[" ++ ",".intercalate (ls.map showLoc) ++ "]"

def showFail : Fail → String
  | .bug => "bug"
  | .oob => "oob"
  | .fuel => "fuel"

abbrev St := Queue × Except Fail IQ

/-- combine: `ans` from the two-list model, `ians` from the index-level one -/
def both (q' : Queue) (ans : String) (r : Except Fail (IQ × String)) : St × String :=
  match r with
  | .ok (i', ians) => ((q', .ok i'), if ians == ans then ans else s!"{ans} !idx:{ians}")
  | .error e => ((q', .error e), s!"{ans} !idx-fail:{showFail e}")

/-- run an index-level step, or propagate an earlier failure -/
def onIdx (i : Except Fail IQ) (f : IQ → Except Fail (IQ × String)) : Except Fail (IQ × String) :=
  match i with
  | .ok iq => f iq
  | .error e => .error e

def okStep (r : Except Fail IQ) : Except Fail (IQ × String) :=
  match r with
  | .ok i' => .ok (i', "ok")
  | .error e => .error e

def step (st : St) (toks : List String) : St × String :=
  let (q, i) := st
  match toks with
  | ["new"] => ((Queue.new, .ok IQ.new), "ok")
  | ["clear"] => both q.clear "ok" (onIdx i fun iq => .ok (iq.clear, "ok"))
  | ["push", s, m] => match s.toNat?, m.toNat? with
    | some s, some m => both (q.push ⟨m, s⟩) "ok" (onIdx i fun iq => okStep (iq.push ⟨m, s⟩))
    | _, _ => (st, "bad-op")
  | ["pushc", s, m, c] => match s.toNat?, m.toNat?, Driver.bool? c with
    | some s, some m, some c =>
      both (q.pushCovered ⟨m, s⟩ c) "ok" (onIdx i fun iq => okStep (iq.pushCovered ⟨m, s⟩ c))
    | _, _, _ => (st, "bad-op")
  | ["pushdup", s, m] => match s.toNat?, m.toNat? with
    | some s, some m =>
      both (q.pushDuplicate ⟨m, s⟩) "ok" (onIdx i fun iq => okStep (iq.pushDuplicate ⟨m, s⟩))
    | _, _ => (st, "bad-op")
  | ["pop"] => let (r, q') := q.pop
    let sh := fun (r : Option Loc) => match r with | none => "none" | some l => showLoc l
    both q' (sh r) (onIdx i fun iq => match iq.pop with
      | .ok (r, i') => .ok (i', sh r)
      | .error e => .error e)
  | ["popc"] => let (r, q') := q.popCovered
    let sh := fun (r : Option (Loc × Bool)) => match r with
      | none => "none" | some (l, c) => s!"{showLoc l} {if c then 1 else 0}"
    both q' (sh r) (onIdx i fun iq => match iq.popCovered with
      | .ok (r, i') => .ok (i', sh r)
      | .error e => .error e)
  | ["peek"] =>
    let sh := fun (r : Option Loc) => match r with | none => "none" | some l => showLoc l
    both q (sh q.peek) (onIdx i fun iq => .ok (iq, sh iq.peek))
  | ["popdups"] => let (r, q') := q.popDuplicates
    let sh := fun (r : Option (Loc × Nat)) => match r with
      | none => "none" | some (l, n) => s!"{showLoc l} {n}"
    both q' (sh r) (onIdx i fun iq => match iq.popDuplicates with
      | .ok (r, i') => .ok (i', sh r)
      | .error e => .error e)
  | ["allcov"] =>
    both q (if q.allCovered then "1" else "0")
      (onIdx i fun iq => .ok (iq, if iq.allCovered then "1" else "0"))
  | ["isempty"] =>
    both q (if q.isEmpty then "1" else "0")
      (onIdx i fun iq => .ok (iq, if iq.isEmpty then "1" else "0"))
  | ["drainabove", t] => match t.toNat? with
    | some t => let (e, q') := q.drainAbove t
      both q' (showLocs e) (onIdx i fun iq => match iq.drainAbove t with
        | .ok (e, i') => .ok (i', showLocs e)
        | .error e => .error e)
    | none => (st, "bad-op")
  | ["drainall"] => let (e, q') := q.drainAll
    both q' (showLocs e) (onIdx i fun iq => match iq.drainAll with
      | .ok (e, i') => .ok (i', showLocs e)
      | .error e => .error e)
  | ["coverupto", s, c, l] => match s.toNat?, c.toNat?, l.toNat? with
    | some s, some c, some l =>
      both (q.coverUpTo s c l) "ok" (onIdx i fun iq => okStep (iq.coverUpTo s c l))
    | _, _, _ => (st, "bad-op")
  | ["dbg"] => match i with
    | .ok iq => (st, s!"p={iq.part} {showLocsExact iq.entries}")
    | .error e => (st, s!"idx-fail:{showFail e}")
  | _ => (st, "bad-op")

def main : IO Unit := Driver.run step ((Queue.new, .ok IQ.new) : St)
