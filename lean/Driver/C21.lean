import Driver.Common
import AranyaV.Model.Queue
/-! Driver for the traversal-queue model (C21). -/
open AranyaV.Queue

def showLoc (l : Loc) : String := s!"{l.seg}:{l.mc}"

/-- canonical (sorted) rendering of a multiset of locations -/
def showLocs (ls : List Loc) : String :=
  let sorted := ls.toArray.qsort (fun a b => a.ble b && a != b) |>.toList
  if sorted.isEmpty then "[]" else "[" ++ ",".intercalate (sorted.map showLoc) ++ "]"

def step (q : Queue) (toks : List String) : Queue × String :=
  match toks with
  | ["new"] => (Queue.new, "ok")
  | ["clear"] => (q.clear, "ok")
  | ["push", s, m] => match s.toNat?, m.toNat? with
    | some s, some m => (q.push ⟨m, s⟩, "ok")
    | _, _ => (q, "bad-op")
  | ["pushc", s, m, c] => match s.toNat?, m.toNat?, Driver.bool? c with
    | some s, some m, some c => (q.pushCovered ⟨m, s⟩ c, "ok")
    | _, _, _ => (q, "bad-op")
  | ["pushdup", s, m] => match s.toNat?, m.toNat? with
    | some s, some m => (q.pushDuplicate ⟨m, s⟩, "ok")
    | _, _ => (q, "bad-op")
  | ["pop"] => let (r, q') := q.pop
    (q', match r with | none => "none" | some l => showLoc l)
  | ["popc"] => let (r, q') := q.popCovered
    (q', match r with | none => "none" | some (l, c) => s!"{showLoc l} {if c then 1 else 0}")
  | ["peek"] => (q, match q.peek with | none => "none" | some l => showLoc l)
  | ["popdups"] => let (r, q') := q.popDuplicates
    (q', match r with | none => "none" | some (l, n) => s!"{showLoc l} {n}")
  | ["allcov"] => (q, if q.allCovered then "1" else "0")
  | ["isempty"] => (q, if q.isEmpty then "1" else "0")
  | ["drainabove", t] => match t.toNat? with
    | some t => let (e, q') := q.drainAbove t; (q', showLocs e)
    | none => (q, "bad-op")
  | ["drainall"] => let (e, q') := q.drainAll; (q', showLocs e)
  | ["coverupto", s, c, l] => match s.toNat?, c.toNat?, l.toNat? with
    | some s, some c, some l => (q.coverUpTo s c l, "ok")
    | _, _, _ => (q, "bad-op")
  | _ => (q, "bad-op")

def main : IO Unit := Driver.run step Queue.new
