import Driver.Common
import AranyaV.Model.Segments
/-!
Shared part of the drivers for the segment-store model (C11, C20): request parsing and the
store/query requests.

Requests (one per line):
* `new`                                   → `ok`        (empty store, no heads)
* `seg <idx> <first> <prior> <lca> <ids> <skips>`
     prior = `n` | `s:<seg>:<mc>` | `m:<seg>:<mc>:<seg>:<mc>`; lca = `-` | `<seg>:<mc>`;
     ids = comma separated; skips = `-` | comma separated `<seg>:<mc>` (the REAL skip list)
                                          → the skip list the model's `build_skip_list` computes
                                            for that segment on the store so far; the segment is
                                            then appended with the real skip list
* `heads <locs>`                          → `ok`
* `loc <id> <mc>`                         → `none` | `<seg>:<mc>` | `err`  (`get_location`)
* `locfrom <seg>:<mc> <id> <mc>`          → same                            (`get_location_from`)
* `anc <seg>:<mc> <seg>:<mc>`             → `0` | `1` | `err`   (`is_ancestor(search, start)`)
* `bounds <n>`                            → `[b1,b2,..]` | `err` (`skip_target_boundaries`)
Every query is also evaluated on the store with all skip lists erased; if that answer differs the
line is suffixed with ` skipdiff`.
-/
open AranyaV.Segments AranyaV.Queue

structure St where
  store : Store := ⟨[]⟩
  heads : List Loc := []

def loc? (s : String) : Option Loc :=
  match s.splitOn ":" with
  | [a, b] => match a.toNat?, b.toNat? with
    | some a, some b => some ⟨b, a⟩
    | _, _ => none
  | _ => none

def list? {α : Type} (f : String → Option α) (s : String) : Option (List α) :=
  if s == "-" then some [] else (s.splitOn ",").mapM f

def prior? (s : String) : Option Prior :=
  match s.splitOn ":" with
  | ["n"] => some .none
  | ["s", a, b] => match a.toNat?, b.toNat? with
    | some a, some b => some (.single ⟨b, a⟩)
    | _, _ => none
  | ["m", a, b, c, d] => match a.toNat?, b.toNat?, c.toNat?, d.toNat? with
    | some a, some b, some c, some d => some (.merge ⟨b, a⟩ ⟨d, c⟩)
    | _, _, _, _ => none
  | _ => none

def showLoc (l : Loc) : String := s!"{l.seg}:{l.mc}"
def showLocs (ls : List Loc) : String := "[" ++ ",".intercalate (ls.map showLoc) ++ "]"

def showFound : Except Err (Option Loc) → String
  | .ok none => "none"
  | .ok (some l) => showLoc l
  | .error _ => "err"

def showBool : Except Err Bool → String
  | .ok true => "1"
  | .ok false => "0"
  | .error _ => "err"

def both (a b : String) : String := if a == b then a else a ++ " skipdiff"

def segStep (st : St) (toks : List String) : St × String :=
  match toks with
  | ["new"] => ({}, "ok")
  | ["seg", idx, first, prior, lca, ids, skips] =>
    match idx.toNat?, first.toNat?, prior? prior, list? loc? lca, list? String.toNat? ids,
        list? loc? skips with
    | some idx, some first, some prior, some lca, some ids, some skips =>
      if lca.length > 1 then (st, "bad-op") else
      let ans := match buildSkipList st.store prior lca.head? first with
        | .ok l => showLocs l
        | .error _ => "err"
      ({ st with store := ⟨st.store.segs ++ [{ idx, first, ids, prior, skips }]⟩ }, ans)
    | _, _, _, _, _, _ => (st, "bad-op")
  | ["heads", hs] =>
    match list? loc? hs with
    | some hs => ({ st with heads := hs }, "ok")
    | none => (st, "bad-op")
  | ["loc", id, mc] =>
    match id.toNat?, mc.toNat? with
    | some id, some mc =>
      (st, both (showFound (getLocation st.store st.heads ⟨id, mc⟩))
                (showFound (getLocation (eraseSkips st.store) st.heads ⟨id, mc⟩)))
    | _, _ => (st, "bad-op")
  | ["locfrom", start, id, mc] =>
    match loc? start, id.toNat?, mc.toNat? with
    | some start, some id, some mc =>
      (st, both (showFound (getLocationFrom st.store start ⟨id, mc⟩))
                (showFound (getLocationFrom (eraseSkips st.store) start ⟨id, mc⟩)))
    | _, _, _ => (st, "bad-op")
  | ["anc", a, b] =>
    match loc? a, loc? b with
    | some a, some b =>
      (st, both (showBool (isAncestor st.store a b)) (showBool (isAncestor (eraseSkips st.store) a b)))
    | _, _ => (st, "bad-op")
  | ["bounds", n] =>
    match n.toNat? with
    | some n => (st, match skipTargetBoundaries n with
        | .ok l => "[" ++ ",".intercalate (l.map toString) ++ "]"
        | .error _ => "err")
    | none => (st, "bad-op")
  | _ => (st, "bad-op")
