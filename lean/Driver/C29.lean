import Driver.Common
import AranyaV.Model.FactOps
/-! Driver for the fact-key codec and fact-store models (C29).

Request lines (see `harness/src/bin/c29.rs`):

    schema <kname>:<t>.. / <vname>:<t>..
    create K.. / V..        delete K..        update K.. / (-|P..) / N..
    query|exists|map K.. / (-|P..)            count|atleast|atmost|exactly <n> K.. / (-|P..)
    serkey <identhex> <val>     cmpkey <identhex> <val> <val>     deserkey <hex>

value tokens: `i<int>` `b0|b1` `s<hex>` `d<hex>` `e<namehex>.<int>`; a leading `L` (the value was
written as a literal into the policy source) is ignored; `?` is a bind. -/
open AranyaV.FactKey AranyaV.FactOps

structure St where
  knames : List Bytes := []
  vnames : List Bytes := []
  store : MStore := []
  /-- the second fact `G` (same schema) -/
  storeG : MStore := []

def parseVal (t : String) : Option HVal :=
  match t.toList with
  | 'i' :: r => (String.ofList r).toInt?.map .int
  | ['b', '0'] => some (.bool false)
  | ['b', '1'] => some (.bool true)
  | 's' :: r => (Driver.hex? (String.ofList r)).map .str
  | 'd' :: r => (Driver.hex? (String.ofList r)).map .id
  | 'e' :: r =>
    match (String.ofList r).splitOn "." with
    | [n, v] => do
      let n ← Driver.hex? n
      let v ← v.toInt?
      pure (.enum n v)
    | _ => none
  | _ => none

/-- `none` = malformed, `some none` = bind -/
def parsePos (t : String) : Option (Option HVal) :=
  if t == "?" then some none
  else match t.toList with
    | 'L' :: r => (parseVal (String.ofList r)).map some
    | _ => (parseVal t).map some

def showVal : HVal → String
  | .int i => s!"i{i}"
  | .bool b => if b then "b1" else "b0"
  | .str s => "s" ++ Driver.toHex s
  | .id b => "d" ++ Driver.toHex b
  | .enum n v => "e" ++ Driver.toHex n ++ s!".{v}"

def bytesToString (b : Bytes) : String := String.ofList (b.map fun x => Char.ofNat x.toNat)

def insertSorted (x : String) : List String → List String
  | [] => [x]
  | y :: ys => if x < y then x :: y :: ys else y :: insertSorted x ys

def sortStrings (l : List String) : List String := l.foldr insertSorted []

def showFact (f : Fact) : String :=
  let ks := f.keys.map fun k => bytesToString k.ident ++ "=" ++ showVal k.val
  let vs := sortStrings (f.vals.map fun (i, v) => bytesToString i ++ "=" ++ showVal v)
  ",".intercalate ks ++ "|" ++ ",".intercalate vs

/-- split a token list at the `/` tokens -/
def splitSlash (ts : List String) : List (List String) :=
  let rec go : List String → List String → List (List String) → List (List String)
    | [], cur, acc => (cur.reverse :: acc).reverse
    | t :: rest, cur, acc => if t == "/" then go rest [] (cur.reverse :: acc) else go rest (t :: cur) acc
  go ts [] []

/-- all tokens must be values (no binds) -/
def parseAll (ts : List String) : Option (List HVal) :=
  ts.mapM fun t => match parsePos t with
    | some (some v) => some v
    | _ => none

def parsePat (ts : List String) : Option (List (Option HVal)) := ts.mapM parsePos

def zipKeys (names : List Bytes) (vs : List HVal) : List Key :=
  (names.zip vs).map fun (n, v) => ⟨n, v⟩

/-- the given (non-bind) value fields of a pattern; `-` = no value part -/
def patVals (names : List Bytes) (ts : List String) : Option Vals :=
  if ts == ["-"] then some [] else do
    let ps ← parsePat ts
    if ps.length != names.length then none else
    pure ((names.zip ps).filterMap fun (n, p) => p.map fun v => (n, v))

def mkQuery (s : St) (kts pts : List String) : Option Query := do
  let ks ← parseAll kts
  if ks.length > s.knames.length then none else
  let vs ← patVals s.vnames pts
  pure ⟨zipKeys s.knames ks, vs⟩

def showIOErr : IOErr → String
  | .deser _ => "err"

def showTop : Except RunErr (List SVal) → String
  | .ok (.int i :: _) => s!"i{i}"
  | .ok (.bool b :: _) => if b then "b1" else "b0"
  | .ok _ => "err"
  | .error _ => "err"

def deErrMsg : DeErr → String
  | .missingLen => "missing-identifier-length"
  | .identTooShort => "identifier-too-short"
  | .identNotUtf8 => "identifier-not-utf8"
  | .badIdent => "invalid-identifier"
  | .missingTag => "missing-tag"
  | .badTag => "invalid-tag"
  | .badIntLen => "invalid-integer-length"
  | .badBool => "invalid-boolean"
  | .strNotUtf8 => "string-not-utf8"
  | .strNul => "string-contained-nul-byte"
  | .badIdLen => "invalid-ID-length"
  | .missingEnumValue => "missing-enum-value"
  | .enumNotUtf8 => "enum-name-not-utf8"
  | .enumBadIdent => "enum-name-is-invalid-identifier"

def counting (s : St) (kind : CountKind) (n : String) (rest : List String) : St × String :=
  match n.toInt?, splitSlash rest with
  | some n, [kts, pts] =>
    match mkQuery s kts pts with
    | none => (s, "bad-op")
    | some q =>
      match compileCounting kind n with
      | .error _ => (s, "compile-err")
      | .ok prog => (s, showTop (crun q s.store prog []))
  | _, _ => (s, "bad-op")

def parseField (t : String) : Option Bytes :=
  match t.splitOn ":" with
  | [n, _] => some (n.toList.map fun c => UInt8.ofNat c.toNat)
  | _ => none

/-- split a token list at the `//` tokens -/
def splitDSlash (ts : List String) : List (List String) :=
  let rec go : List String → List String → List (List String) → List (List String)
    | [], cur, acc => (cur.reverse :: acc).reverse
    | t :: rest, cur, acc => if t == "//" then go rest [] (cur.reverse :: acc) else go rest (t :: cur) acc
  go ts [] []

/-- one part of a `mapx`: `<F|G> [@] K.. / P..` → (store, bound to the outer's first key?, query) -/
def parsePart (s : St) (ts : List String) : Option (MStore × Bool × Query) :=
  match ts with
  | f :: rest =>
    let st? := if f == "F" then some s.store else if f == "G" then some s.storeG else none
    match st? with
    | none => none
    | some st =>
      let (atO, rest) := match rest with
        | "@" :: r => (true, r)
        | r => (false, r)
      match splitSlash rest with
      | [kts, pts] => do
        let ks ← parseAll kts
        if ks.length + (if atO then 1 else 0) > s.knames.length then none else
        let vs ← patVals s.vnames pts
        -- with `@` the given keys are the ones after the first key
        pure (st, atO, ⟨zipKeys (if atO then s.knames.drop 1 else s.knames) ks, vs⟩)
      | _ => none
  | [] => none

def showTagged (l : List (Nat × Fact)) : String :=
  "[" ++ ";".intercalate (l.map fun (t, f) => s!"{t}:" ++ showFact f) ++ "]"

def mapx (s : St) (shape : String) (rest : List String) : String :=
  match (splitDSlash rest).mapM (parsePart s) with
  | none => "bad-op"
  | some parts =>
    if shape == "seq" then
      if parts.isEmpty || parts.any (fun p => p.2.1) then "bad-op" else
      let rec go : List (MStore × Bool × Query) → Nat → Except IOErr (List (Nat × Fact))
        | [], _ => .ok []
        | (st, _, q) :: r, i =>
          match opMap q st with
          | .error e => .error e
          | .ok fs => match go r (i + 1) with
            | .error e => .error e
            | .ok tl => .ok (fs.map (fun f => (i, f)) ++ tl)
      match go parts 0 with
      | .ok l => showTagged l
      | .error e => showIOErr e
    else if shape == "nest" || shape == "nestcall" then
      match parts with
      | [(so, false, qo), (si, atO, qi)] =>
        let inner (f : Fact) : Query :=
          if atO then ⟨(f.keys.take 1) ++ qi.keys, qi.vals⟩ else qi
        match opMapNested qo inner so si with
        | .ok l => showTagged l
        | .error e => showIOErr e
      | _ => "bad-op"
    else "bad-op"

def step (s : St) (toks : List String) : St × String :=
  match toks with
  | "mapx" :: shape :: rest => (s, mapx s shape rest)
  | "createg" :: rest =>
    match splitSlash rest with
    | [kts, vts] =>
      match parseAll kts, parseAll vts with
      | some ks, some vs =>
        if ks.length != s.knames.length || vs.length != s.vnames.length then (s, "bad-op") else
        ({ s with storeG := opCreate ⟨zipKeys s.knames ks, s.vnames.zip vs⟩ s.storeG }, "ok")
      | _, _ => (s, "bad-op")
    | _ => (s, "bad-op")
  | "schema" :: rest =>
    match splitSlash rest with
    | [ks, vs] =>
      match ks.mapM parseField, vs.mapM parseField with
      | some k, some v => ({ knames := k, vnames := v, store := [], storeG := [] }, "ok")
      | _, _ => (s, "bad-op")
    | _ => (s, "bad-op")
  | "create" :: rest =>
    match splitSlash rest with
    | [kts, vts] =>
      match parseAll kts, parseAll vts with
      | some ks, some vs =>
        if ks.length != s.knames.length || vs.length != s.vnames.length then (s, "bad-op") else
        ({ s with store := opCreate ⟨zipKeys s.knames ks, s.vnames.zip vs⟩ s.store }, "ok")
      | _, _ => (s, "bad-op")
    | _ => (s, "bad-op")
  | "delete" :: kts =>
    match parseAll kts with
    | some ks =>
      if ks.length != s.knames.length then (s, "bad-op") else
      ({ s with store := opDelete (zipKeys s.knames ks) s.store }, "ok")
    | none => (s, "bad-op")
  | "update" :: rest =>
    match splitSlash rest with
    | [kts, pts, nts] =>
      match mkQuery s kts pts, parseAll nts with
      | some q, some ns =>
        if q.keys.length != s.knames.length || ns.length != s.vnames.length then (s, "bad-op") else
        match opUpdate q (s.vnames.zip ns) s.store with
        | .ok st => ({ s with store := st }, "ok")
        | .error _ => (s, "err")
      | _, _ => (s, "bad-op")
    | _ => (s, "bad-op")
  | "query" :: rest =>
    match splitSlash rest with
    | [kts, pts] =>
      match mkQuery s kts pts with
      | some q => (s, match opQuery q s.store with
        | .ok none => "none"
        | .ok (some f) => showFact f
        | .error e => showIOErr e)
      | none => (s, "bad-op")
    | _ => (s, "bad-op")
  | "exists" :: rest =>
    match splitSlash rest with
    | [kts, pts] =>
      match mkQuery s kts pts with
      | some q => (s, showTop (crun q s.store compileExists []))
      | none => (s, "bad-op")
    | _ => (s, "bad-op")
  | "map" :: rest =>
    match splitSlash rest with
    | [kts, pts] =>
      match mkQuery s kts pts with
      | some q => (s, match opMap q s.store with
        | .ok fs => "[" ++ ";".intercalate (fs.map showFact) ++ "]"
        | .error e => showIOErr e)
      | none => (s, "bad-op")
    | _ => (s, "bad-op")
  | "count" :: n :: rest => counting s .upTo n rest
  | "atleast" :: n :: rest => counting s .atLeast n rest
  | "atmost" :: n :: rest => counting s .atMost n rest
  | "exactly" :: n :: rest => counting s .exactly n rest
  | ["serkey", id, v] =>
    match Driver.hex? id, parseVal v with
    | some id, some v => (s, Driver.toHex (serKey ⟨id, v⟩))
    | _, _ => (s, "bad-op")
  | ["cmpkey", id, a, b] =>
    match Driver.hex? id, parseVal a, parseVal b with
    | some id, some a, some b =>
      let x := serKey ⟨id, a⟩
      let y := serKey ⟨id, b⟩
      (s, if blt x y then "lt" else if x == y then "eq" else "gt")
    | _, _, _ => (s, "bad-op")
  | ["deserkey", h] =>
    match Driver.hex? h with
    | some bs => (s, match deserKey bs with
      | .ok k => "ok " ++ Driver.toHex k.ident ++ " " ++ showVal k.val
      | .error e => "err " ++ deErrMsg e)
    | none => (s, "bad-op")
  | _ => (s, "bad-op")

def main : IO Unit := Driver.run step {}
