import Driver.Common
import AranyaV.Model.Conc.Mutex
/-!
Driver for the futex-mutex transition system (C43).  The harness replays the schedule it
imposed on the real threads:

* `new <n> <rounds>`   → `ok`                       fresh mutex, `n` idle threads (`rounds` lock
                                                    rounds per thread: harness information only)
* `r <t> <label>`      → `<label'> <key>`           thread `t`, parked at yield point `<label>`,
                                                    performs its next operation
* `w <t> <w>`          → `<label'> <key>`           `t`'s `futex_wake(1)` releases sleeper `w`
* `p <w>`              → `woken <key>`              spurious wake-up of sleeper `w`
* `end`                → `end <key> <labels>`       final observation

`pc-mismatch <model label>`: the real thread is parked somewhere else than the model's pc
(the trace is not a trace of the model); `blocked`: the action is not enabled in the model.
-/
open AranyaV.Mutex

def labelAt (s : State) (t : Nat) : String :=
  match s.pcs[t]? with
  | some p => p.label
  | none => "none"

def drvStep (s : State) (toks : List String) : State × String :=
  match toks with
  | ["new", n, iters] => match n.toNat?, iters.toNat? with
    | some n, some _ => (init n, "ok")
    | _, _ => (s, "bad-op")
  | ["r", t, l] => match t.toNat? with
    | some t =>
      if labelAt s t != l then (s, s!"pc-mismatch {labelAt s t}")
      else match step s (.run t) with
        | some s' => (s', s!"{labelAt s' t} {s'.key}")
        | none => (s, "blocked")
    | none => (s, "bad-op")
  | ["w", t, w] => match t.toNat?, w.toNat? with
    | some t, some w => match step s (.wakeOne t w) with
      | some s' => (s', s!"{labelAt s' t} {s'.key}")
      | none => (s, "blocked")
    | _, _ => (s, "bad-op")
  | ["p", w] => match w.toNat? with
    | some w => match step s (.spur w) with
      | some s' => (s', s!"{labelAt s' w} {s'.key}")
      | none => (s, "blocked")
    | none => (s, "bad-op")
  | ["end"] => (s, s!"end {s.key} {",".intercalate (s.pcs.map Pc.label)}")
  | _ => (s, "bad-op")

def main : IO Unit := Driver.run drvStep (init 0)
