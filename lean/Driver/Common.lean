/-!
Line-protocol plumbing shared by the model drivers.  A driver is a pure
`step : σ → List String → σ × String`; requests are whitespace-separated tokens, one per
line, and every request is answered by exactly one line.  A malformed request is answered
`bad-op` — never defaulted.
-/
namespace Driver

def tokens (line : String) : List String :=
  (line.trimAscii.toString.splitOn " ").filter (· ≠ "")

partial def loop {σ : Type} (step : σ → List String → σ × String) (h : IO.FS.Stream)
    (out : IO.FS.Stream) (s : σ) : IO Unit := do
  let line ← h.getLine
  if line.isEmpty then
    out.flush
    return ()
  let toks := tokens line
  if toks.isEmpty then
    loop step h out s
  else
    let (s', o) := step s toks
    out.putStrLn o
    loop step h out s'

def run {σ : Type} (step : σ → List String → σ × String) (init : σ) : IO Unit := do
  let stdin ← IO.getStdin
  let stdout ← IO.getStdout
  loop step stdin stdout init

def nat? (s : String) : Option Nat := s.toNat?
def int? (s : String) : Option Int := s.toInt?
def bool? (s : String) : Option Bool :=
  if s == "1" then some true else if s == "0" then some false else none

def hexDigit? (c : Char) : Option Nat :=
  if '0' ≤ c ∧ c ≤ '9' then some (c.toNat - '0'.toNat)
  else if 'a' ≤ c ∧ c ≤ 'f' then some (c.toNat - 'a'.toNat + 10)
  else if 'A' ≤ c ∧ c ≤ 'F' then some (c.toNat - 'A'.toNat + 10)
  else none

/-- hex string (or `-` for empty) to bytes -/
def hex? (s : String) : Option (List UInt8) :=
  if s == "-" then some [] else
  let rec go : List Char → List UInt8 → Option (List UInt8)
    | [], acc => some acc.reverse
    | [_], _ => none
    | a :: b :: rest, acc => do
      let x ← hexDigit? a
      let y ← hexDigit? b
      go rest (UInt8.ofNat (x * 16 + y) :: acc)
  go s.toList []

def hexOfNat (n : Nat) : Char :=
  if n < 10 then Char.ofNat ('0'.toNat + n) else Char.ofNat ('a'.toNat + n - 10)

def toHex (bs : List UInt8) : String :=
  if bs.isEmpty then "-" else
  String.ofList (bs.flatMap fun b => [hexOfNat (b.toNat / 16), hexOfNat (b.toNat % 16)])

end Driver
