import Driver.Common
import AranyaV.Model.Serialize
/-!
Driver for the struct-serialization model (C26).  Prefix (Polish) token syntax.

```
type  := U | S | Y | I | B | D | N | T <name> | E <name> | O <type> | R <type> <type>
value := u | i <int> | b <0|1> | s <hex> | y <hex> | d <hex> | e <name> <int> | n | o <value>
       | k <value> | x <value> | z | t <name> <nfields> { <fname> <value> }
defs <nstructs> { <name> <nfields> { <fname> <type> } } <nenums> { <name> <nvariants> { <int> } }
ser <value>            -> ok <hex> | err <kind>
de <name> <hex>        -> ok <value> | err <kind>
```
-/
open AranyaV.Serialize AranyaV.Wire

structure St where
  ds : List StructDef := []
  es : List EnumDef := []

abbrev P (α : Type) := List String → Option (α × List String)

def pNat : P Nat
  | t :: r => t.toNat?.map (·, r)
  | [] => none

def pInt : P Int
  | t :: r => t.toInt?.map (·, r)
  | [] => none

def pHex : P Bytes
  | t :: r => (Driver.hex? t).map (·, r)
  | [] => none

partial def pTy : P Ty
  | "U" :: r => some (.unit, r)
  | "S" :: r => some (.string, r)
  | "Y" :: r => some (.bytes, r)
  | "I" :: r => some (.int, r)
  | "B" :: r => some (.bool, r)
  | "D" :: r => some (.id, r)
  | "N" :: r => some (.never, r)
  | "T" :: r => (pNat r).map fun (n, r) => (.struct n, r)
  | "E" :: r => (pNat r).map fun (n, r) => (.enum n, r)
  | "O" :: r => (pTy r).map fun (t, r) => (.optional t, r)
  | "R" :: r => do
    let (a, r) ← pTy r
    let (b, r) ← pTy r
    pure (.result a b, r)
  | _ => none

partial def pMany {α : Type} (p : P α) : Nat → P (List α)
  | 0, r => some ([], r)
  | n + 1, r => do
    let (x, r) ← p r
    let (xs, r) ← pMany p n r
    pure (x :: xs, r)

partial def pVal : P Val
  | "u" :: r => some (.unit, r)
  | "i" :: r => (pInt r).map fun (x, r) => (.int x, r)
  | "b" :: "0" :: r => some (.bool false, r)
  | "b" :: "1" :: r => some (.bool true, r)
  | "s" :: r => (pHex r).map fun (x, r) => (.string x, r)
  | "y" :: r => (pHex r).map fun (x, r) => (.bytes x, r)
  | "d" :: r => (pHex r).map fun (x, r) => (.id x, r)
  | "e" :: r => do
    let (n, r) ← pNat r
    let (x, r) ← pInt r
    pure (.enum n x, r)
  | "n" :: r => some (.none, r)
  | "o" :: r => (pVal r).map fun (v, r) => (.some v, r)
  | "k" :: r => (pVal r).map fun (v, r) => (.ok v, r)
  | "x" :: r => (pVal r).map fun (v, r) => (.err v, r)
  | "z" :: r => some (.internal, r)
  | "t" :: r => do
    let (n, r) ← pNat r
    let (k, r) ← pNat r
    let (fs, r) ← pMany (fun r => do
      let (f, r) ← pNat r
      let (v, r) ← pVal r
      pure ((f, v), r)) k r
    pure (.struct n fs, r)
  | _ => none

def pStructDef : P StructDef := fun r => do
  let (n, r) ← pNat r
  let (k, r) ← pNat r
  let (items, r) ← pMany (fun r => do
    let (f, r) ← pNat r
    let (t, r) ← pTy r
    pure ((f, t), r)) k r
  pure ({ name := n, items := items }, r)

def pEnumDef : P EnumDef := fun r => do
  let (n, r) ← pNat r
  let (k, r) ← pNat r
  let (vs, r) ← pMany pInt k r
  pure ({ name := n, variants := vs }, r)

def pDefs : P St := fun r => do
  let (ns, r) ← pNat r
  let (ds, r) ← pMany pStructDef ns r
  let (ne, r) ← pNat r
  let (es, r) ← pMany pEnumDef ne r
  pure ({ ds := ds, es := es }, r)

partial def showVal : Val → String
  | .unit => "u"
  | .int x => s!"i {x}"
  | .bool b => if b then "b 1" else "b 0"
  | .string s => s!"s {Driver.toHex s}"
  | .bytes s => s!"y {Driver.toHex s}"
  | .id s => s!"d {Driver.toHex s}"
  | .enum n x => s!"e {n} {x}"
  | .none => "n"
  | .some v => s!"o {showVal v}"
  | .ok v => s!"k {showVal v}"
  | .err v => s!"x {showVal v}"
  | .internal => "z"
  | .struct n fs =>
    let parts := fs.map fun (f, v) => s!" {f} {showVal v}"
    s!"t {n} {fs.length}" ++ String.join parts

def showSerErr : SerErr → String
  | .unknownStruct n => s!"err unknown-struct {n}"
  | .missingField n => s!"err missing-field {n}"
  | .fieldLengthMismatch => "err field-length-mismatch"
  | .internalValue => "err internal-value"

def showDeErr : DeErr → String
  | .unknownEnum n => s!"err unknown-enum {n}"
  | .unknownStruct n => s!"err unknown-struct {n}"
  | .unexpectedEnd => "err unexpected-end"
  | .trailingData => "err trailing-data"
  | .badInput => "err bad-input"
  | .depth => "err depth"

def step (st : St) (toks : List String) : St × String :=
  match toks with
  | "defs" :: r =>
    match pDefs r with
    | some (st', []) => (st', "ok")
    | _ => (st, "bad-op")
  | "ser" :: r =>
    match pVal r with
    | some (.struct n fs, []) =>
      (st, match serializeStruct st.ds n fs with
        | .ok b => s!"ok {Driver.toHex b}"
        | .error e => showSerErr e)
    | _ => (st, "bad-op")
  | ["de", n, h] =>
    match n.toNat?, Driver.hex? h with
    | some n, some bs =>
      (st, match deserializeStruct st.ds st.es (defaultFuel st.ds) n bs with
        | .ok v => s!"ok {showVal v}"
        | .error e => showDeErr e)
    | _, _ => (st, "bad-op")
  | _ => (st, "bad-op")

def main : IO Unit := Driver.run step {}
