import Driver.Sync
/-! Driver for the sync model, C16 (repeated sync delivers everything). -/
def main : IO Unit := Driver.run Driver.Sync.step {}
