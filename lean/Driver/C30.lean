import Driver.Common
import AranyaV.Model.Finish
/-! Driver for the finish-block model (C30).

    prog <debug 0|1> <strict 0|1> fns <n> (fn <isFinish 0|1> BLOCK)* recalls <n> BLOCK* policy BLOCK
        -> accept | reject          (the context rules; the program is kept either way)
    run <fuel> <decision>*          -> <outcome> eff=<flags> c=<n> u=<n> d=<n>

    BLOCK := { STMT* }
    STMT  := let E | chk E E | mat E <narms> <exhaustive> BLOCK* | if E <narms> <hasElse> BLOCK*
           | fin BLOCK | eff <c|u|d|e> E | call <f> | rec <r> | dbg E | pub E | ret E | map BLOCK | act <a>
    E     := s | c | p | f<n> | r<n> | t
-/
open AranyaV.Finish

structure St0 where
  debug : Bool := false
  fns : List FnDef := []
  cmd : Command := ⟨.nil, []⟩

def parseExpr (t : String) : Option Expr :=
  match t.toList with
  | ['s'] => some .simple
  | ['c'] => some .compute
  | ['p'] => some .mayPanic
  | ['t'] => some .ret
  | 'f' :: r => (String.ofList r).toNat?.map .call
  | 'r' :: r => (String.ofList r).toNat?.map .recall
  | _ => none

def parseKind (t : String) : Option EffKind :=
  match t with
  | "c" => some .create | "u" => some .update | "d" => some .delete | "e" => some .emit
  | _ => none

def listToBlock : List Stmt → Block
  | [] => .nil
  | s :: r => .cons s (listToBlock r)

def listToArms : List Block → Arms
  | [] => .nil
  | b :: r => .cons b (listToArms r)

mutual
  /-- parse one statement; returns the rest of the tokens -/
  def pStmt : Nat → List String → Option (Stmt × List String)
    | 0, _ => none
    | fuel + 1, toks =>
      match toks with
      | "let" :: e :: r => do pure (.letS (← parseExpr e), r)
      | "chk" :: c :: e :: r => do pure (.check (← parseExpr c) (← parseExpr e), r)
      | "mat" :: e :: n :: x :: r => do
        let (arms, r') ← pBlocks fuel (← n.toNat?) r
        pure (.matchS (← parseExpr e) (listToArms arms) (← Driver.bool? x), r')
      | "if" :: e :: n :: x :: r => do
        let (arms, r') ← pBlocks fuel (← n.toNat?) r
        pure (.ifS (← parseExpr e) (listToArms arms) (← Driver.bool? x), r')
      | "fin" :: r => do
        let (b, r') ← pBlock fuel r
        pure (.finish b, r')
      | "eff" :: k :: e :: r => do pure (.eff (← parseKind k) (← parseExpr e), r)
      | "call" :: f :: r => do pure (.callS (← f.toNat?), r)
      | "rec" :: f :: r => do pure (.recallS (← f.toNat?), r)
      | "dbg" :: e :: r => do pure (.debugAssert (← parseExpr e), r)
      | "pub" :: e :: r => do pure (.publish (← parseExpr e), r)
      | "ret" :: e :: r => do pure (.retS (← parseExpr e), r)
      | "map" :: r => do
        let (b, r') ← pBlock fuel r
        pure (.mapS b, r')
      | "act" :: a :: r => do pure (.actionCall (← a.toNat?), r)
      | _ => none
  def pStmts : Nat → List String → Option (List Stmt × List String)
    | 0, _ => none
    | fuel + 1, toks =>
      match toks with
      | "}" :: r => some ([], r)
      | _ => do
        let (s, r) ← pStmt fuel toks
        let (ss, r') ← pStmts fuel r
        pure (s :: ss, r')
  def pBlock : Nat → List String → Option (Block × List String)
    | 0, _ => none
    | fuel + 1, toks =>
      match toks with
      | "{" :: r => do
        let (ss, r') ← pStmts fuel r
        pure (listToBlock ss, r')
      | _ => none
  def pBlocks : Nat → Nat → List String → Option (List Block × List String)
    | 0, _, _ => none
    | _ + 1, 0, toks => some ([], toks)
    | fuel + 1, n + 1, toks => do
      let (b, r) ← pBlock fuel toks
      let (bs, r') ← pBlocks fuel n r
      pure (b :: bs, r')
end

def pFns : Nat → Nat → List String → Option (List FnDef × List String)
  | 0, _, _ => none
  | _ + 1, 0, toks => some ([], toks)
  | fuel + 1, n + 1, toks =>
    match toks with
    | "fn" :: fin :: r => do
      let (b, r1) ← pBlock (fuel * 4 + 1000) r
      let (fs, r2) ← pFns fuel n r1
      pure (⟨← Driver.bool? fin, b⟩ :: fs, r2)
    | _ => none

def parseProg (toks : List String) : Option (Bool × Bool × List FnDef × Command) :=
  match toks with
  | d :: s :: "fns" :: n :: r => do
    let big := toks.length * 4 + 100
    let (fns, r1) ← pFns big (← n.toNat?) r
    match r1 with
    | "recalls" :: m :: r2 => do
      let (rcs, r3) ← pBlocks big (← m.toNat?) r2
      match r3 with
      | "policy" :: r4 => do
        let (pol, r5) ← pBlock big r4
        if r5.isEmpty then pure (← Driver.bool? d, ← Driver.bool? s, fns, ⟨pol, rcs⟩) else none
      | _ => none
    | _ => none
  | _ => none

def showLog (st : St) : String :=
  let flags := st.log.filterMap fun e => if e.kind == .emit then some (if e.recalled then "1" else "0") else none
  let cnt (k : EffKind) := (st.log.filter fun e => e.kind == k).length
  s!"eff={String.join flags} c={cnt .create} u={cnt .update} d={cnt .delete}"

def showRes : Res → String
  | .exit .normal st => "normal " ++ showLog st
  | .exit .check st => "check " ++ showLog st
  | .exit .panic st => "panic " ++ showLog st
  | .err st => "err " ++ showLog st
  | .fall _ st => "fall " ++ showLog st
  | .ret _ st => "ret " ++ showLog st
  | .oof => "oof"

def step (s : St0) (toks : List String) : St0 × String :=
  match toks with
  | "prog" :: rest =>
    match parseProg rest with
    | none => (s, "bad-op")
    | some (debug, strict, fns, cmd) =>
      ({ debug := debug, fns := fns, cmd := cmd },
        if acceptProgram debug strict fns cmd then "accept" else "reject")
  | "run" :: fuel :: ds =>
    match fuel.toNat?, ds.mapM String.toNat? with
    | some fuel, some ds =>
      let p := compileProgram s.debug s.fns s.cmd
      (s, showRes (run p fuel false p.policy ds {}))
    | _, _ => (s, "bad-op")
  | _ => (s, "bad-op")

def main : IO Unit := Driver.run step {}
