import Driver.Graph
/-! Driver for C03 (braided fact state equals the reference braid): spec-level requests only. -/
def step (g : AranyaV.Spec.Graph) (toks : List String) : AranyaV.Spec.Graph × String :=
  match Driver.Graph.step g toks with
  | some r => r
  | none => (g, "bad-op")

def main : IO Unit := Driver.run step []
