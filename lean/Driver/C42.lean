import Driver.Shm
/-! Model driver for C42: the shared-memory channel-table transition system (see `Driver/Shm.lean`). -/
def main : IO Unit := Driver.run Driver.Shm.drvStep (AranyaV.Shm.init 0 0)
