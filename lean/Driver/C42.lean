import Driver.Shm
/-! Model driver for C42: the shared-memory channel-table transition system and the in-memory
state model (see `Driver/Shm.lean`). -/
def main : IO Unit := Driver.run Driver.Shm.drvStep Driver.Shm.drvInit
