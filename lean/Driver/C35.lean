import Driver.Common
import AranyaV.Model.Envelope
/-!
Driver for C35 (`Model.Envelope`).

  `case <seed> <shape> <len> <all>`      start of a harness case: reset                         -> `ok`
  `def <kind> <prio>`                     a persistent command definition of the receiving policy -> `ok`
  `seal <j> k<n> d<n> <kind> <parent> <fields>`  honest signing event j (must be the next index):
                                          the model seals the command (`sealCmd`)                -> `ok <j>`
  `merge <j>`                             command j of the honest history is a merge (no event)  -> `ok`
  `recv <tag> <st> g<0|1> p<0|1> <id> <par> <prio> <data>`   one delivered wire command
        (tag = `<i>.<n>` change n of command i | `h` honest | `-`; ignored by the model):
        st   = `new` (no storage yet) | `dup` (address already present) | `old`
        g    = the id equals the graph id;  p = the command carries policy bytes
        par  = `n` | `s:<id>:<located 0|1>` | `m:<l located>:<r located>`
        prio = `init` | `fin` | `merge` | `b<n>`
        data = `u` (does not decode) | `<author>,<kind>,<fields>,<sig>,<key>`
        key  = the verifying key the policy's `open` designates: `k<n>` | `none` | `-` (the fields do
               not decode as the named struct / unknown command) | `b<hex>` (bytes that are no key)
                                          -> `accept` | `dup` | `noparent` | `initerr` | `reject`
Tokens: `b<hex>` literal bytes, `z` the zero id, `i<j>` / `s<j>` id / signature of signing event j,
`d<n>` device n, `k<n>` public signing key of device n.
-/
open AranyaV AranyaV.Sym AranyaV.Envelope

structure St where
  defs : List (Term × Prio) := []
  /-- honest signing events: (key index, command) in order; `none` for merge slots -/
  events : List (Option (Nat × Sym.Cmd)) := []

def oids : List Term := [.lit [1]]

def dev (n : Nat) : Term := .cons (.lit [100]) (.lit [UInt8.ofNat n])

def evSig (s : St) (j : Nat) : Option Term :=
  match s.events[j]? with
  | some (some (k, c)) => some (signCmd oids (.sk k) c).1
  | _ => none

def evId (s : St) (j : Nat) : Option Term :=
  match s.events[j]? with
  | some (some (k, c)) => some (signCmd oids (.sk k) c).2
  | _ => none

def tok (s : St) (t : String) : Option Term :=
  if t == "z" then some zeroId else
  match t.toList with
  | 'b' :: rest => (Driver.hex? (String.ofList rest)).map Term.lit
  | 'k' :: rest => (String.ofList rest).toNat?.map fun i => Term.pk (.sk i)
  | 'd' :: rest => (String.ofList rest).toNat?.map dev
  | 's' :: rest => (String.ofList rest).toNat?.bind (evSig s)
  | 'i' :: rest => (String.ofList rest).toNat?.bind (evId s)
  | _ => none

def prio? (t : String) : Option Prio :=
  if t == "init" then some .init
  else if t == "fin" then some .finalize
  else if t == "merge" then some .merge
  else match t.toList with
    | 'b' :: rest => (String.ofList rest).toNat?.map Prio.basic
    | _ => none

def keyIdx? (t : String) : Option Nat :=
  match t.toList with
  | 'k' :: rest => (String.ofList rest).toNat?
  | _ => none

/-- the receiving policy: definitions from the `def` lines; `deser` is told per request -/
def policyOf (s : St) (deserOk : Bool) : Policy :=
  { defs := fun n => (s.defs.find? (fun d => d.1 == n)).map fun d => ⟨d.2, true⟩
    deser := fun _ _ => deserOk }

/-- parsed `par` token: parent + (single located, merge located) -/
def par? (s : St) (t : String) : Option (Parent × Bool × Bool) :=
  match t.splitOn ":" with
  | ["n"] => some (.none, false, false)
  | ["s", id, l] => match tok s id, Driver.bool? l with
    | some id, some l => some (.single id, l, false)
    | _, _ => none
  | ["m", l, r] => match Driver.bool? l, Driver.bool? r with
    | some l, some r => some (.merge, false, l && r)
    | _, _ => none
  | _ => none

/-- parsed `data` token: payload, key designated by the policy, struct decodes -/
def data? (s : St) (t : String) : Option (Option (Payload × Option Term × Bool)) :=
  if t == "u" then some none else
  match t.splitOn "," with
  | [a, k, f, sg, key] =>
    match tok s a, tok s k, tok s f, tok s sg with
    | some a, some k, some f, some sg =>
      if key == "-" then some (some (⟨a, k, f, sg⟩, none, false))
      else if key == "none" then some (some (⟨a, k, f, sg⟩, none, true))
      else match tok s key with
        | some kt => some (some (⟨a, k, f, sg⟩, some kt, true))
        | none => none
    | _, _, _, _ => none
  | _ => none

def showOutcome : Outcome → String
  | .accept => "accept"
  | .dup => "dup"
  | .noParent => "noparent"
  | .initErr => "initerr"
  | .reject _ => "reject"

def step (s : St) (toks : List String) : St × String :=
  match toks with
  | ["case", _, _, _, _] => ({}, "ok")
  | ["def", k, p] =>
    match tok s k, prio? p with
    | some k, some p => ({ s with defs := s.defs ++ [(k, p)] }, "ok")
    | _, _ => (s, "bad-op")
  | ["merge", j] =>
    match j.toNat? with
    | some j => if j == s.events.length then ({ s with events := s.events ++ [none] }, "ok") else (s, "bad-op")
    | none => (s, "bad-op")
  | ["seal", j, k, _d, kind, parent, fields] =>
    match j.toNat?, keyIdx? k, tok s kind, tok s parent, tok s fields with
    | some j, some k, some kind, some parent, some fields =>
      if j == s.events.length then
        ({ s with events := s.events ++ [some (k, ⟨kind, parent, fields⟩)] }, s!"ok {j}")
      else (s, "bad-op")
    | _, _, _, _, _ => (s, "bad-op")
  | ["recv", _tag, st, g, p, id, par, prio, data] =>
    let stOk := st == "new" || st == "dup" || st == "old"
    match stOk, g, p, tok s id, par? s par, prio? prio, data? s data with
    | true, g, p, some id, some (parent, loc, mloc), some prio, some d =>
      let gid? := if g == "g1" then some true else if g == "g0" then some false else none
      let pol? := if p == "p1" then some true else if p == "p0" then some false else none
      match gid?, pol? with
      | some gid, some pol =>
        let x : RecvCtx := { hasStore := st != "new", isGraphId := gid, dup := st == "dup",
                             parentLocated := loc, mergeLocated := mloc }
        let (payload, key, deserOk) : Option Payload × Option Term × Bool := match d with
          | none => (none, none, true)
          | some (pl, key, ok) => (some pl, key, ok)
        let c : WireCmd := { id := id, prio := prio, parent := parent, hasPolicy := pol, data := payload }
        let out := recv (policyOf s deserOk) (verifyingOpen oids fun _ _ _ => key) (fun _ _ _ => true) x c
        (s, showOutcome out)
      | _, _ => (s, "bad-op")
    | _, _, _, _, _, _, _ => (s, "bad-op")
  | _ => (s, "bad-op")

def main : IO Unit := Driver.run step {}
