import Driver.Common
import AranyaV.Model.Afc
import AranyaV.Model.AfcE2e
/-! Driver for the AFC data-path model (C39).  The ideal AEAD's output bytes are the `oracle`
field of the seal requests (the bytes the real cipher produced); `open_in_place` is the code
after the F3 fix (`openIP true`). -/
open AranyaV.Afc AranyaV.Gen.Afc

/-- driver state: the world and, per channel handle of the harness, the world index of its seal
end and of its open end (they differ when the two ends derived different keys) -/
structure St where
  w : World := {}
  ends : List (Nat × Nat) := []

def fill : UInt8 := 0xA5

def showErr : Err → String
  | .invalidSize => "InvalidSize" | .unknownVersion => "UnknownVersion"
  | .invalidMsgType => "InvalidMsgType" | .authentication => "Authentication"
  | .bufferTooSmall => "BufferTooSmall" | .inputTooLarge => "InputTooLarge"
  | .keyExpired => "KeyExpired" | .notFound => "NotFound"

/-- `z<k>/<n>`: first k bytes zero, the rest as before; else `other` -/
def bufState (before after : List UInt8) : String :=
  if before.length ≠ after.length then "other" else
  let k := (after.takeWhile (· == 0)).length
  if after.drop k == before.drop k then s!"z{k}/{after.length}" else "other"

def tailState (t : List UInt8) : String := if t.all (· == fill) then "tail" else "tail-touched"

def stepW (w : World) (toks : List String) : World × String :=
  match toks with
  | ["new"] => ({}, "ok")
  | ["consts"] =>
    (w, s!"hdr {dataHeaderSize} tag {tagSize} overhead {overhead} msghdr {headerSize} version {versionV1}")
  | ["chan", sl, ol, _seed, start] => match sl.toNat?, ol.toNat?, start.toNat? with
    | some sl, some ol, some start =>
      (w.addChan sl ol start, s!"ok {w.chans.length}")
    | _, _, _ => (w, "bad-op")
  | ["rm", c] => match c.toNat? with
    | some c => if c < w.chans.length then (w.rmChan c, "ok") else (w, "err NotFound")
    | none => (w, "bad-op")
  | ["seal", c, dstlen, pt, oracle] => match c.toNat?, dstlen.toNat?, Driver.hex? pt, Driver.hex? oracle with
    | some c, some dstlen, some pt, some oracle =>
      if c ≥ w.chans.length then (w, "err NoChannel") else
      let dst := List.replicate dstlen fill
      let ctLen := pt.length + overhead
      match sealC w c dst pt oracle with
      | (.ok seq, dst', w') => (w', s!"ok {seq} {Driver.toHex (dst'.take ctLen)} {tailState (dst'.drop ctLen)}")
      | (.err e, dst', w') => (w', s!"err {showErr e} {bufState dst dst'}")
      | (.hostPanic, _, w') => (w', "panic")
    | _, _, _, _ => (w, "bad-op")
  | ["sealip", c, pt, oracle] => match c.toNat?, Driver.hex? pt, Driver.hex? oracle with
    | some c, some pt, some oracle =>
      if c ≥ w.chans.length then (w, "err NoChannel") else
      match sealIP w c pt oracle with
      | (.ok seq, data', w') => (w', s!"ok {seq} {Driver.toHex data'}")
      | (.err e, data', w') => (w', s!"err {showErr e} {bufState (List.replicate data'.length fill) data'}")
      | (.hostPanic, _, w') => (w', "panic")
    | _, _, _ => (w, "bad-op")
  | ["open", c, dstlen, wire] => match c.toNat?, dstlen.toNat?, Driver.hex? wire with
    | some c, some dstlen, some wire =>
      if c ≥ w.chans.length then (w, "err NoChannel") else
      let dst := List.replicate dstlen fill
      match openC w c dst wire with
      | (.ok (label, seq), dst') =>
        let ptLen := wire.length - overhead
        (w, s!"ok {label} {seq} {Driver.toHex (dst'.take ptLen)} {tailState (dst'.drop ptLen)}")
      | (.err e, dst') => (w, s!"err {showErr e} {bufState dst dst'}")
      | (.hostPanic, _) => (w, "panic")
    | _, _, _ => (w, "bad-op")
  | ["openip", c, wire] => match c.toNat?, Driver.hex? wire with
    | some c, some wire =>
      if c ≥ w.chans.length then (w, "err NoChannel") else
      match openIP true w c wire with
      | (.ok (label, seq), data') => (w, s!"ok {label} {seq} {Driver.toHex data'}")
      | (.err e, data') =>
        let st := if data' == wire then s!"z0/{wire.length}"
          else if data'.length == wire.length && data'.all (· == 0) then s!"z{wire.length}/{wire.length}"
          else "other"
        (w, s!"err {showErr e} {st}")
      | (.hostPanic, _) => (w, "panic")
    | _, _ => (w, "bad-op")
  | ["ad", v, l] => match v.toNat?, Driver.hex? l with
    | some v, some l => (w, match adBytes v l with
      | some b => Driver.toHex b
      | none => "panic")
    | _, _ => (w, "bad-op")
  | ["msg", bs] => match Driver.hex? bs with
    | some bs => (w, match msgParse bs with
      | .ok (true, n) => s!"data {n}"
      | .ok (false, n) => s!"control {n}"
      | .error e => s!"err {showErr e}")
    | none => (w, "bad-op")
  | _ => (w, "bad-op")


def sealEnd (st : St) (c : Nat) : Option Nat := (st.ends[c]?).map (·.1)
def openEnd (st : St) (c : Nat) : Option Nat := (st.ends[c]?).map (·.2)

def step (st : St) (toks : List String) : St × String :=
  match toks with
  | ["new"] => ({}, "ok")
  | ["chan", sl, ol, _seed, start] => match sl.toNat?, ol.toNat?, start.toNat? with
    | some sl, some ol, some start =>
      let n := st.w.chans.length
      ({ w := st.w.addChan sl ol start, ends := st.ends ++ [(n, n)] }, s!"ok {st.ends.length}")
    | _, _, _ => (st, "bad-op")
  | ["dchan", sl, ol, _seed, start, v] =>
    match sl.toNat?, ol.toNat?, start.toNat?, AranyaV.AfcE2e.Variant.parse v with
    | some sl, some ol, some start, some v =>
      match AranyaV.AfcE2e.derive sl ol v with
      | some (ks, kr) =>
        let (w', a, b) := AranyaV.AfcE2e.addEnds st.w ks kr sl ol start
        ({ w := w', ends := st.ends ++ [(a, b)] }, s!"ok {st.ends.length}")
      | none => (st, "err Derive")
    | _, _, _, _ => (st, "bad-op")
  | ["rm", c] => match c.toNat? with
    | some c => match st.ends[c]? with
      | some (a, b) => ({ st with w := (st.w.rmChan a).rmChan b }, "ok")
      | none => (st, "err NotFound")
    | none => (st, "bad-op")
  | [op, c, x, y, z] =>
    if op == "seal" then
      match c.toNat?.bind (sealEnd st) with
      | some i => let (w', r) := stepW st.w [op, toString i, x, y, z]; ({ st with w := w' }, r)
      | none => (st, if c.toNat?.isSome then "err NoChannel" else "bad-op")
    else (st, "bad-op")
  | [op, c, x, y] =>
    if op == "sealip" then
      match c.toNat?.bind (sealEnd st) with
      | some i => let (w', r) := stepW st.w [op, toString i, x, y]; ({ st with w := w' }, r)
      | none => (st, if c.toNat?.isSome then "err NoChannel" else "bad-op")
    else if op == "open" then
      match c.toNat?.bind (openEnd st) with
      | some i => let (w', r) := stepW st.w [op, toString i, x, y]; ({ st with w := w' }, r)
      | none => (st, if c.toNat?.isSome then "err NoChannel" else "bad-op")
    else (st, "bad-op")
  | [op, c, x] =>
    if op == "openip" then
      match c.toNat?.bind (openEnd st) with
      | some i => let (w', r) := stepW st.w [op, toString i, x]; ({ st with w := w' }, r)
      | none => (st, if c.toNat?.isSome then "err NoChannel" else "bad-op")
    else let (w', r) := stepW st.w toks; ({ st with w := w' }, r)
  | _ => let (w', r) := stepW st.w toks; ({ st with w := w' }, r)

def main : IO Unit := Driver.run step ({} : St)
