import Driver.Common
import AranyaV.Model.DiskFault
/-!
Driver for the disk / two-slot root protocol model (C15).

The checksum parameter of the model is instantiated with SipHash-2-4 (zero key) over the byte
stream `Root::calc_checksum` feeds its hasher (`tools/items/disk_layout.py` checks that order).

State: the model writer, the disk *before* the last call, and the op list of the last call.
Requests:
* `create` / `append <hex>` / `commit <hex-headset> <fact-offset>` — run the model call, answer
  the op stream it issues (`fa off len`, `fs`, `ds`, `w off <hex | len:fnv>` joined by `;`);
* `crash <k> <χ>` — the verdict of `Writer.open` on the crash image after the first `k` ops of the
  last call with fault choice `χ`: `err` or `ok gen heads fact free sum next`;
* `reopen <k> <χ>` — same answer, and the model continues from that image with the opened writer.
`χ`: `-` (everything pending lost) or one comma-separated item per pending write, in issue order:
`0` lost, `1` kept, `p<n>` only the first n bytes, `s<n>` only the bytes from n on, `m<hex>` an
explicit bit mask (bit j of mask byte i ↔ byte 8i+j of the write).
-/
open AranyaV.Disk AranyaV.Wire

namespace Sip

def rotl (x : UInt64) (b : UInt64) : UInt64 := (x <<< b) ||| (x >>> (64 - b))

structure St where
  v0 : UInt64
  v1 : UInt64
  v2 : UInt64
  v3 : UInt64

def round (s : St) : St :=
  let v0 := s.v0 + s.v1
  let v1 := rotl s.v1 13
  let v1 := v1 ^^^ v0
  let v0 := rotl v0 32
  let v2 := s.v2 + s.v3
  let v3 := rotl s.v3 16
  let v3 := v3 ^^^ v2
  let v0 := v0 + v3
  let v3 := rotl v3 21
  let v3 := v3 ^^^ v0
  let v2 := v2 + v1
  let v1 := rotl v1 17
  let v1 := v1 ^^^ v2
  let v2 := rotl v2 32
  ⟨v0, v1, v2, v3⟩

def le64 (bs : List UInt8) : UInt64 :=
  (bs.take 8).reverse.foldl (fun acc b => (acc <<< 8) ||| b.toUInt64) 0

def absorb (s : St) (m : UInt64) : St :=
  let s := { s with v3 := s.v3 ^^^ m }
  let s := round (round s)
  { s with v0 := s.v0 ^^^ m }

/-- SipHash-2-4 with key (0,0) -/
def hash24 (msg : List UInt8) : UInt64 :=
  let init : St := ⟨0x736f6d6570736575, 0x646f72616e646f6d, 0x6c7967656e657261, 0x7465646279746573⟩
  let rec go (fuel : Nat) (s : St) (bs : List UInt8) : St × List UInt8 :=
    match fuel with
    | 0 => (s, bs)
    | fuel + 1 => if bs.length ≥ 8 then go fuel (absorb s (le64 bs)) (bs.drop 8) else (s, bs)
  let (s, tail) := go (msg.length / 8 + 1) init msg
  let b : UInt64 := ((UInt64.ofNat (msg.length % 256)) <<< 56) ||| le64 tail
  let s := absorb s b
  let s := { s with v2 := s.v2 ^^^ 0xff }
  let s := round (round (round (round s)))
  s.v0 ^^^ s.v1 ^^^ s.v2 ^^^ s.v3

def leBytes (n : Nat) : List UInt8 := (List.range 8).map fun i => UInt8.ofNat (n / 256 ^ i % 256)

def optBytes : Option Nat → List UInt8
  | none => [0]
  | some v => 1 :: leBytes v

/-- `Root::calc_checksum` -/
def rootSum : Checksum := fun gen heads fact free =>
  (hash24 (leBytes gen ++ optBytes heads ++ optBytes fact ++
    leBytes (free % (18446744073709551616 : Int)).toNat)).toNat

end Sip

def L : Layout := Layout.real
def ck : Checksum := Sip.rootSum

structure DState where
  w : Writer
  base : Disk
  ops : List Op

def fnv (bs : Bytes) : UInt64 :=
  bs.foldl (fun h b => (h ^^^ b.toUInt64) * 0x100000001b3) 0xcbf29ce484222325

def showOp : Op → String
  | .write off bytes =>
    if bytes.length ≤ 64 then s!"w {off} {Driver.toHex bytes}" else s!"w {off} {bytes.length}:{(fnv bytes).toNat}"
  | .fdatasync => "ds"
  | .fsync => "fs"
  | .falloc off len => s!"fa {off} {len}"
  | .failed => "!"

def showOps (ops : List Op) : String :=
  if ops.isEmpty then "-" else ";".intercalate (ops.map showOp)

def showOpt : Option Nat → String
  | none => "none"
  | some v => toString v

def verdict (o : Option Writer) : String :=
  match o with
  | none => "err"
  | some w => s!"ok {w.root.gen} {showOpt w.root.heads} {showOpt w.root.fact} {w.root.free} {w.root.sum} {w.nextRoot}"

def maskBits (bs : Bytes) : List Bool :=
  bs.flatMap fun b => (List.range 8).map fun j => (b.toNat / 2 ^ j) % 2 == 1

/-- one χ item against the pending write it applies to -/
def maskOf (len : Nat) (item : String) : Option (List Bool) :=
  if item == "0" then some []
  else if item == "1" then some (List.replicate len true)
  else match item.toList with
    | 'p' :: rest => (String.ofList rest).toNat?.map fun n => List.replicate (min n len) true
    | 's' :: rest => (String.ofList rest).toNat?.map fun n =>
        List.replicate (min n len) false ++ List.replicate (len - min n len) true
    | 'm' :: rest => (Driver.hex? (String.ofList rest)).map maskBits
    | _ => none

def parseChi (pending : List Write) (s : String) : Option (List (List Bool)) :=
  if s == "-" then some [] else
  let items := s.splitOn ","
  if items.length != pending.length then none else
  (pending.zip items).mapM fun (w, it) => maskOf w.bytes.length it

def crashImg (s : DState) (k : Nat) (chi : String) : Option Img :=
  if k > s.ops.length then none else
  let d := s.base.execAll (s.ops.take k)
  (parseChi d.pending chi).map d.crash

def call (s : DState) (r : Writer × List Op) : DState × String :=
  ({ w := r.1, base := s.base.execAll s.ops, ops := r.2 }, showOps r.2)

def step (s : DState) (toks : List String) : DState × String :=
  match toks with
  | ["create"] =>
    let r := Writer.create L
    ({ w := r.1, base := Disk.empty, ops := r.2 }, showOps r.2)
  | ["append", h] => match Driver.hex? h with
    | some bytes => call s (s.w.step L ck (.append bytes []))
    | none => (s, "bad-op")
  | ["commit", h, f] => match Driver.hex? h, f.toNat? with
    | some heads, some fact => call s (s.w.step L ck (.commit heads [] fact))
    | _, _ => (s, "bad-op")
  | ["append", h, "f", i, kp] => match Driver.hex? h, i.toNat?, kp.toNat? with
    | some bytes, some i, some kp =>
      let r := s.w.stepF L ck (.append bytes []) ⟨i, kp⟩
      let (s', o) := call s (r.1, r.2.1)
      (s', o ++ (if r.2.2 then " ok" else " err"))
    | _, _, _ => (s, "bad-op")
  | ["commit", h, f, "f", i, kp] => match Driver.hex? h, f.toNat?, i.toNat?, kp.toNat? with
    | some heads, some fact, some i, some kp =>
      let r := s.w.stepF L ck (.commit heads [] fact) ⟨i, kp⟩
      let (s', o) := call s (r.1, r.2.1)
      (s', o ++ (if r.2.2 then " ok" else " err"))
    | _, _, _, _ => (s, "bad-op")
  | ["state"] =>
    (s, s!"{s.w.root.gen} {showOpt s.w.root.heads} {showOpt s.w.root.fact} {s.w.root.free} {s.w.root.sum} {s.w.nextRoot} {s.w.allocEnd} {if s.w.dataDirty then 1 else 0}")
  | ["crashsz", k, chi, sz] => match k.toNat?, sz.toNat? with
    | some k, some sz => match crashImg s k chi with
      | some img => (s, verdict (Writer.openSz L ck img sz))
      | none => (s, "bad-op")
    | _, _ => (s, "bad-op")
  | ["crash", k, chi] => match k.toNat? with
    | some k => match crashImg s k chi with
      | some img => (s, verdict (Writer.open L ck img))
      | none => (s, "bad-op")
    | none => (s, "bad-op")
  | ["reopen", k, chi] => match k.toNat? with
    | some k => match crashImg s k chi with
      | some img =>
        match Writer.open L ck img with
        | some w => ({ w, base := { durable := img, pending := [] }, ops := [] }, verdict (some w))
        | none => (s, "err")
      | none => (s, "bad-op")
    | none => (s, "bad-op")
  | _ => (s, "bad-op")

def main : IO Unit :=
  Driver.run step { w := (Writer.create L).1, base := Disk.empty, ops := [] }
