import Driver.Common
import AranyaV.Model.Sync
import Std.Data.HashMap
/-!
Shared driver for the sync model (C16, C17).  The harness dumps the REAL segment layout of a
replica through the public `Storage`/`Segment` API and asks the model what the responder /
requester do on it.

Requests (one per line):
* `case <anything...>`                      → `ok`   (case header carrying the generator parameters)
* `store-reset`                             → `ok`
* `seg <idx> <first> <id:size,...> <prior locs|-> <skip locs|->`   → `ok`
* `heads <locs|->`                          → `ok`   (committed head locations, head-set order)
* `limits <sample> <response> <segments>`   → `ok`   (override the limits; default = the real ones)
* `start <id:mc,...|->`                     → `ok` | `err CommandOverflow`   (`start_session` on a fresh responder)
* `poll <0|1>`                              → `resp <index> [ids]` | `end <max_index>` | `endsession`
                                              | `too-small` | `err <kind>`
      (`1`: the message fits the caller's buffer, `0`: it does not)
* `sample <id:mc,...|->`                    → `[id:mc,...]` | `err`   (requester's sample; the argument
                                              is the requester's peer cache)
* `needed <id:mc,...|->`                    → `[seg:mc,...]` | `err`  (`find_needed_segments`)
Locations are `<segment>:<max_cut>`.  `find_needed_segments` is run with the index-faithful queue
(`VQueue`) and cross-checked against the instance over the C21 queue model; if the two differ in
more than the choice among equal-max-cut entries at a full buffer the answer gets the suffix
` SPEC-DIFF`.
-/
namespace Driver.Sync
open AranyaV.Sync AranyaV.Segments AranyaV.Queue

structure St where
  store : Store := ⟨[]⟩
  heads : List Loc := []
  sizes : Std.HashMap Nat Nat := {}
  lim : Limits := Limits.real
  resp : Responder := {}

def loc? (s : String) : Option Loc :=
  match s.splitOn ":" with
  | [a, b] => match a.toNat?, b.toNat? with
    | some a, some b => some ⟨b, a⟩
    | _, _ => none
  | _ => none

def pair? (s : String) : Option (Nat × Nat) :=
  match s.splitOn ":" with
  | [a, b] => match a.toNat?, b.toNat? with
    | some a, some b => some (a, b)
    | _, _ => none
  | _ => none

def list? {α : Type} (f : String → Option α) (s : String) : Option (List α) :=
  if s == "-" then some [] else (s.splitOn ",").mapM f

def prior? (l : List Loc) : Option Prior :=
  match l with
  | [] => some .none
  | [p] => some (.single p)
  | [a, b] => some (.merge a b)
  | _ => none

def showLoc (l : Loc) : String := s!"{l.seg}:{l.mc}"
def showLocs (ls : List Loc) : String := "[" ++ ",".intercalate (ls.map showLoc) ++ "]"
def showNats (ls : List Nat) : String := "[" ++ ",".intercalate (ls.map toString) ++ "]"
def showAddrs (ls : List Addr) : String := "[" ++ ",".intercalate (ls.map fun a => s!"{a.id}:{a.mc}") ++ "]"

def showSErr : SErr → String
  | .notReady => "NotReady"
  | .commandOverflow => "CommandOverflow"
  | .missingSyncResponse => "MissingSyncResponse"
  | .sessionState => "SessionState"
  | .storage _ => "internal"

def showOut : PollOut → String
  | .response i cmds => s!"resp {i} {showNats cmds}"
  | .syncEnd m => s!"end {m}"
  | .endSession => "endsession"
  | .tooSmall => "too-small"
  | .err e => s!"err {showSErr e}"

/-- a full buffer's boundary group abstracted: entries strictly below the highest max cut, and
how many entries share the highest max cut -/
def tieCanon (cap : Nat) (l : List Loc) : List Loc × Nat :=
  if l.length < cap then (l, 0)
  else
    let m := l.foldl (fun a x => max a x.mc) 0
    (l.filter (fun x => x.mc < m), (l.filter (fun x => x.mc == m)).length)

def sameModTies (cap : Nat) (a b : Except Err (List Loc)) : Bool :=
  match a, b with
  | .ok x, .ok y => x == y || tieCanon cap x == tieCanon cap y
  | .error _, .error _ => true
  | _, _ => false

def sz (st : St) (i : Nat) : Nat := st.sizes.getD i 0

def step (st : St) (toks : List String) : St × String :=
  match toks with
  | "case" :: _ => (st, "ok")
  | ["store-reset"] => ({ st with store := ⟨[]⟩, heads := [], sizes := {}, resp := {} }, "ok")
  | ["limits", a, b, c] =>
    match a.toNat?, b.toNat?, c.toNat? with
    | some a, some b, some c =>
      ({ st with lim := { st.lim with sampleMax := a, responseMax := b, segmentMax := c } }, "ok")
    | _, _, _ => (st, "bad-op")
  | ["seg", idx, first, cmds, prior, skips] =>
    match idx.toNat?, first.toNat?, list? pair? cmds, (list? loc? prior).bind prior?, list? loc? skips with
    | some idx, some first, some cmds, some prior, some skips =>
      let g : Seg := { idx, first, ids := cmds.map (·.1), prior, skips }
      ({ st with store := ⟨st.store.segs ++ [g]⟩,
                 sizes := cmds.foldl (fun m (i, z) => m.insert i z) st.sizes }, "ok")
    | _, _, _, _, _ => (st, "bad-op")
  | ["heads", hs] =>
    match list? loc? hs with
    | some hs => ({ st with heads := hs }, "ok")
    | none => (st, "bad-op")
  | ["start", hv] =>
    match list? pair? hv with
    | some hv =>
      match ({} : Responder).startSession st.lim (hv.map fun (i, m) => ⟨i, m⟩) with
      | .ok r => ({ st with resp := r }, "ok")
      | .error e => (st, s!"err {showSErr e}")
    | none => (st, "bad-op")
  | ["poll", b] =>
    match Driver.bool? b with
    | some fits =>
      let diff :=
        if st.resp.state == .start then
          !sameModTies st.lim.segmentMax
            (findNeededG VQueue.ops st.lim st.store st.heads st.resp.has)
            (findNeededG specOps st.lim st.store st.heads st.resp.has)
        else false
      let (r, out) := pollG VQueue.ops st.lim st.store st.heads (sz st) st.resp fits
      ({ st with resp := r }, showOut out ++ (if diff then " SPEC-DIFF" else ""))
    | none => (st, "bad-op")
  | ["needed", hv] =>
    match list? pair? hv with
    | some hv =>
      let has : List Addr := hv.map fun (i, m) => ⟨i, m⟩
      let a := findNeededG VQueue.ops st.lim st.store st.heads has
      let b := findNeededG specOps st.lim st.store st.heads has
      let sfx := if sameModTies st.lim.segmentMax a b then "" else " SPEC-DIFF"
      match a with
      | .ok ts => (st, showLocs ts ++ sfx)
      | .error _ => (st, "err" ++ sfx)
    | none => (st, "bad-op")
  | ["sample", cache] =>
    match list? pair? cache with
    | some cache =>
      -- the real cache holds the location `get_location` found when the entry was inserted
      let entries := cache.filterMap fun (i, m) =>
        match getLocation st.store st.heads ⟨i, m⟩ with
        | .ok (some l) => some (⟨⟨i, m⟩, ⟨m, l.seg⟩⟩ : CacheHead)
        | _ => none
      match sample st.lim st.store st.heads entries with
      | .ok a => (st, showAddrs a)
      | .error _ => (st, "err")
    | none => (st, "bad-op")
  | _ => (st, "bad-op")

end Driver.Sync
