import Driver.SegStore
/-! Driver for the segment-store model (C11); the requests are documented in `Driver/SegStore.lean`. -/

def main : IO Unit := Driver.run segStep {}
