import Driver.FactsStep
import Driver.SessStep
/-! Driver for C13: linear perspectives (checkpoint / revert, `FactsStep`) and sessions
(`SessStep`); the two protocols have disjoint op names and separate states. -/

def sessOps : List String := ["snew", "graph", "act", "sess", "sact", "srecv", "gdump", "gq", "gqp"]

def step (s : FactsStep.St × SessStep.St) (toks : List String) : (FactsStep.St × SessStep.St) × String :=
  match toks with
  | [] => (s, "bad-op")
  | t :: _ =>
    if sessOps.contains t then
      let (b, o) := SessStep.step s.2 toks
      ((s.1, b), o)
    else
      let (a, o) := FactsStep.step s.1 toks
      ((a, s.2), o)

def main : IO Unit := Driver.run step (({} : FactsStep.St), ({} : SessStep.St))
