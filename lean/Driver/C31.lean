import Driver.Common
import AranyaV.Model.Cli
/-! Driver for the policy-compiler CLI model (C31).

Requests:
* `doc <hex>`    — the policy document of the case (only the harness needs it) → `ok`
* `nofile`       — the case has no input file → `ok`
* `vparts <b…>`  — `validate` on the module of the current document, whose labels (in label order)
                   have these verdicts (1 = that label fails) → `ret=<0|1>`
* `cli <read> <parse> <compile> <vret> <noval> <stub> <create>` (seven 0/1 flags)
                 → `exit=<code> wrote=<0|1>`
-/
open AranyaV.Cli

def isHex (s : String) : Bool := s == "-" || (Driver.hex? s).isSome

def step (u : Unit) (toks : List String) : Unit × String :=
  match toks with
  | ["doc", h] => (u, if isHex h then "ok" else "bad-op")
  | ["nofile"] => (u, "ok")
  | "vparts" :: bits =>
    match bits.mapM Driver.bool? with
    | some bs => (u, s!"ret={if validateOf bs then 1 else 0}")
    | none => (u, "bad-op")
  | ["cli", r, p, c, v, nv, s, cr] =>
    match Driver.bool? r, Driver.bool? p, Driver.bool? c, Driver.bool? v, Driver.bool? nv,
          Driver.bool? s, Driver.bool? cr with
    | some r, some p, some c, some v, some nv, some s, some cr =>
      let o := cli ⟨r, p, c, v, nv, s, cr⟩
      (u, s!"exit={o.exit.code} wrote={if o.wrote then 1 else 0}")
    | _, _, _, _, _, _, _ => (u, "bad-op")
  | _ => (u, "bad-op")

def main : IO Unit := Driver.run step ()
