import Driver.Graph
/-! Driver for C05 (concurrent finalize commands are always detected): spec-level requests only
(`braid`/`braidorder` answer `err ParallelFinalize` exactly when the reference braid fails). -/
def step (g : AranyaV.Spec.Graph) (toks : List String) : AranyaV.Spec.Graph × String :=
  match Driver.Graph.step g toks with
  | some r => r
  | none => (g, "bad-op")

def main : IO Unit := Driver.run step []
