import Driver.Trx
/-! Driver for C08 (transactions are isolated and history only grows): the shared transaction driver (`Driver/Trx.lean`). -/
def main : IO Unit := Driver.run Driver.Trx.step Driver.Trx.init
