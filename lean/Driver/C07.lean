import Driver.Trx
/-! Driver for C07 (actions are atomic): the shared transaction driver (`Driver/Trx.lean`). -/
def main : IO Unit := Driver.run Driver.Trx.step Driver.Trx.init
