import Driver.FactsUtil
import AranyaV.Model.Session
/-!
Line protocol of the session model (drivers C13 and C14).

A *script* is what a policy call does with the perspective it is handed: `;`-separated ops,
fields separated by `/`:  `ins/K/V  del/K  q/K  qp/K  fail  pub`
(`pub` = the action publishes a command, i.e. `add_command`).

  snew                 fresh client
  graph SCRIPT         ClientState::new_graph (the init action)       -> ok [obs] | fail [obs] | err empty [obs]
  act SCRIPT           ClientState::action on the graph               -> ok [obs] | fail [obs] | err empty [obs]
  sess                 ClientState::session                           -> ok <sid>
  sact SID SCRIPT      Session::action                                -> ok [obs] | fail [obs]
  srecv SID SCRIPT     Session::receive of a command whose rule is SCRIPT
  gdump                the graph's fact cache, layer by layer
  gq K | gqp K         exact / prefix query on the graph's fact cache

`[obs]`: the answers to the script's `q`/`qp` ops, in order, `|`-separated.
-/
open AranyaV.Facts FactsUtil

namespace SessStep

inductive ScOp where
  | op (o : SOp)
  | pub
deriving Repr

def scOp? (s : String) : Option ScOp :=
  match s.splitOn "/" with
  | ["ins", k, v] =>
    match key? k, bytes? v with
    | some k, some v => some (.op (.ins k v))
    | _, _ => none
  | ["del", k] => (key? k).map (fun k => .op (.del k))
  | ["q", k] => (key? k).map (fun k => .op (.q k))
  | ["qp", k] => (key? k).map (fun k => .op (.qp k))
  | ["fail"] => some (.op .fail)
  | ["pub"] => some .pub
  | _ => none

def script? (s : String) : Option (List ScOp) :=
  if s == "." then some [] else allSome ((s.splitOn ";").map scOp?)

def showItem : Item → String
  | .ok (k, v) => showKey k ++ "=" ++ showBytes v
  | .error _ => "!err"

def showObs : Obs → String
  | .q r => showOpt r
  | .qp r => "[" ++ ";".intercalate (r.map showItem) ++ "]"

def showObsList (l : List Obs) : String := "[" ++ "|".intercalate (l.map showObs) ++ "]"

/-- the fact operations of a script (what `Session.runScript` sees); `pub` only matters on-graph -/
def sops (sc : List ScOp) : List SOp := sc.filterMap fun | .op o => some o | .pub => none

structure St where
  base : Option Chain := none
  sessions : Array Session := #[]
  nextId : Nat := 0
deriving Inhabited

def D : Nat := AranyaV.Gen.maxFactIndexDepth

/-- a policy call on a graph perspective: returns the perspective, the observations, ok? -/
def runOnGraph : Persp → Nat → List ScOp → Persp × Nat × List Obs × Bool
  | p, n, [] => (p, n, [], true)
  | p, n, .op (.ins k v) :: r => runOnGraph (p.insert k v) n r
  | p, n, .op (.del k) :: r => runOnGraph (p.delete k) n r
  | p, n, .op (.q k) :: r =>
    let (p', n', o, ok) := runOnGraph p n r
    (p', n', .q (p.query k) :: o, ok)
  | p, n, .op (.qp k) :: r =>
    let (p', n', o, ok) := runOnGraph p n r
    (p', n', .qp ((p.queryPrefix k).map .ok) :: o, ok)
  | p, n, .op .fail :: _ => (p, n, [], false)
  | p, n, .pub :: r => runOnGraph (p.addCommand n).1 (n + 1) r

def bad (s : St) : St × String := (s, "bad-op")

def step (s : St) (toks : List String) : St × String :=
  match toks with
  | ["snew"] => ({}, "ok")
  | ["graph", sc] =>
    match script? sc, s.base with
    | some sc, none =>
      let (p, n, obs, ok) := runOnGraph { facts := .overNone [] } s.nextId sc
      if !ok then ({ s with nextId := n }, "fail " ++ showObsList obs)
      else
        match p.create with
        | .ok seg => ({ s with base := some seg.facts, nextId := n }, "ok " ++ showObsList obs)
        | .error e => ({ s with nextId := n }, showErr e ++ " " ++ showObsList obs)
    | _, _ => bad s
  | ["act", sc] =>
    match script? sc, s.base with
    | some sc, some base =>
      let (p, n, obs, ok) := runOnGraph { facts := .overIndex [] base } s.nextId sc
      if !ok then ({ s with nextId := n }, "fail " ++ showObsList obs)
      else
        match p.write D with
        | .ok seg => ({ s with base := some seg.facts, nextId := n }, "ok " ++ showObsList obs)
        | .error e => ({ s with nextId := n }, showErr e ++ " " ++ showObsList obs)
    | _, _ => bad s
  | ["sess"] =>
    match s.base with
    | some base => ({ s with sessions := s.sessions.push { base := base } }, s!"ok {s.sessions.size}")
    | none => bad s
  | [op, sid, sc] =>
    if op == "sact" || op == "srecv" then
      match sid.toNat?, script? sc with
      | some sid, some sc =>
        match s.sessions[sid]? with
        | some ss =>
          match ss.call (sops sc) with
          | .ok (ss', obs, ok) =>
            ({ s with sessions := s.sessions.set! sid ss' },
              (if ok then "ok " else "fail ") ++ showObsList obs)
          | .error e => (s, showErr e)
        | none => bad s
      | _, _ => bad s
    else bad s
  | ["gdump"] =>
    match s.base with
    | some base => (s, showChain base)
    | none => bad s
  | ["gq", k] =>
    match s.base, key? k with
    | some base, some k => (s, showOpt (base.query k))
    | _, _ => bad s
  | ["gqp", k] =>
    match s.base, key? k with
    | some base, some k => (s, showFacts (base.queryPrefix k))
    | _, _ => bad s
  | _ => bad s

end SessStep
