import Driver.LangDrv
/-! Model driver for C22 (shared with C22–C24: see Driver/LangDrv.lean). -/
def main : IO Unit := Driver.run LangDrv.step {}
