import Driver.Common
import AranyaV.Model.FramingAfc
import AranyaV.Spec.SymAfc
/-!
Driver for C38 (AFC unidirectional channel keys).

  `case <seed> <big>` -> ok (reset)          `suite <dsize> <oid>...` -> ok
Byte level:
  `info <parent> <seal> <open> <label>`      the 140-byte `Info`                       -> hex
  `hinfo <parent> <seal> <open> <label>`     what HPKE sees as info (‖ encoded OIDs)   -> hex
Symbolic level.  Tokens: `b<hex>` literal, `k<i>` public key of secret i, `E<j>` encapsulation of
`author` event j.  Derived raw keys are answered as `K<n>`: n = index of the first derivation (in
this case) that produced the same key pair.
  `author <a> <peerpk> <parent> <seal> <open> <label>`             UniSecrets::new      -> `ok <j>` | `fail`
  `akey <a> <j> <peerpk> <parent> <seal> <open> <label>`           from_author_secret   -> `K<n>` | `fail`
  `pkey <p> <authorpk> <enc> <parent> <seal> <open> <label>`       from_peer_encap      -> `K<n>` | `fail`
  `created <dev> <a> <j> <open> <peerpk> <parent> <label>`         uni_channel_created  -> `seal K<n>` | `sealer` | `fail`
  `received <dev> <p> <seal> <authorpk> <enc> <parent> <label>`    uni_channel_received -> `open K<n>` | `sealer` | `fail`
  `works <n> <m>`  can the key K<m> open what K<n> seals (same seq, same auth data)?   -> `1` | `0`
-/
open AranyaV AranyaV.Framing

structure St where
  oids : List Bytes := []
  dsize : Nat := 32
  /-- root secrets of the `author` events -/
  roots : List Nat := []
  keys : List Sym.HpkeKeys := []

def tok (s : St) (t : String) : Option Sym.Term :=
  match t.toList with
  | 'b' :: rest => (Driver.hex? (String.ofList rest)).map Sym.Term.lit
  | 'k' :: rest => (String.ofList rest).toNat?.map Sym.pkOf
  | 'E' :: rest => (String.ofList rest).toNat?.bind fun j => (s.roots[j]?).map Sym.pkOf
  | _ => none

/-- register a derived key, answer its class -/
def addKey (s : St) (pre : String) (k : Option Sym.HpkeKeys) : St × String :=
  match k with
  | none => (s, "fail")
  | some k =>
    match s.keys.findIdx? (· == k) with
    | some n => ({ s with keys := s.keys ++ [k] }, s!"{pre}K{n}")
    | none => ({ s with keys := s.keys ++ [k] }, s!"{pre}K{s.keys.length}")

def step (s : St) (toks : List String) : St × String :=
  match toks with
  | ["case", _, _] => ({}, "ok")
  | "suite" :: d :: oids =>
    match d.toNat?, oids.mapM Driver.hex? with
    | some d, some os => ({ s with oids := os, dsize := d }, "ok")
    | _, _ => (s, "bad-op")
  | ["info", p, se, o, l] =>
    match [p, se, o, l].mapM Driver.hex? with
    | some [p, se, o, l] => (s, Driver.toHex (uniInfo ⟨p, se, o, l⟩))
    | _ => (s, "bad-op")
  | ["hinfo", p, se, o, l] =>
    match [p, se, o, l].mapM Driver.hex? with
    | some [p, se, o, l] => (s, Driver.toHex (hpkeInfo (uniInfo ⟨p, se, o, l⟩) s.oids))
    | _ => (s, "bad-op")
  | ["author", a, pk, p, se, o, l] =>
    match a.toNat?, tok s pk, tok s p, tok s se, tok s o, tok s l with
    | some a, some pk, some p, some se, some o, some l =>
      let root := 100000 + s.roots.length
      match Sym.authorEncap a root pk ⟨p, se, o, l⟩ with
      | some _ => ({ s with roots := s.roots ++ [root] }, s!"ok {s.roots.length}")
      | none => (s, "fail")
    | _, _, _, _, _, _ => (s, "bad-op")
  | ["akey", a, j, pk, p, se, o, l] =>
    match a.toNat?, j.toNat?.bind (s.roots[·]?), tok s pk, tok s p, tok s se, tok s o, tok s l with
    | some a, some root, some pk, some p, some se, some o, some l =>
      addKey s "" (Sym.authorKey a root pk ⟨p, se, o, l⟩)
    | _, _, _, _, _, _, _ => (s, "bad-op")
  | ["pkey", pp, apk, e, p, se, o, l] =>
    match pp.toNat?, tok s apk, tok s e, tok s p, tok s se, tok s o, tok s l with
    | some pp, some apk, some e, some p, some se, some o, some l =>
      addKey s "" (Sym.peerKey pp apk e ⟨p, se, o, l⟩)
    | _, _, _, _, _, _, _ => (s, "bad-op")
  | ["created", dev, a, j, o, pk, p, l] =>
    match tok s dev, a.toNat?, j.toNat?.bind (s.roots[·]?), tok s o, tok s pk, tok s p, tok s l with
    | some dev, some a, some root, some o, some pk, some p, some l =>
      match Sym.uniChannelCreated dev ⟨p, o, pk, l, a, root⟩ with
      | .ok k => addKey s "seal " (some k)
      | .error .authorMustBeSealer => (s, "sealer")
      | .error .transform => (s, "fail")
    | _, _, _, _, _, _, _ => (s, "bad-op")
  | ["received", dev, pp, se, apk, e, p, l] =>
    match tok s dev, pp.toNat?, tok s se, tok s apk, tok s e, tok s p, tok s l with
    | some dev, some pp, some se, some apk, some e, some p, some l =>
      match Sym.uniChannelReceived dev ⟨p, se, apk, l, e, pp⟩ with
      | .ok k => addKey s "open " (some k)
      | .error .authorMustBeSealer => (s, "sealer")
      | .error .transform => (s, "fail")
    | _, _, _, _, _, _, _ => (s, "bad-op")
  | ["works", n, m] =>
    match n.toNat?.bind (s.keys[·]?), m.toNat?.bind (s.keys[·]?) with
    | some ks, some kr =>
      let c := Sym.afcSeal ks (.lit [0]) (.lit [1]) (.lit [2])
      (s, if (Sym.afcOpen kr (.lit [0]) (.lit [1]) c.1 c.2).isSome then "1" else "0")
    | _, _ => (s, "bad-op")
  | _ => (s, "bad-op")

def main : IO Unit := Driver.run step {}
