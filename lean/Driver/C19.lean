import Driver.Graph
import AranyaV.Spec.Hello
/-!
Driver for C01 / C04 / C19 scenario harnesses: spec-level graph requests plus the hello
decision.  `save k` stores the current graph in slot `k`; `hello k <term>` answers
`should_sync_on_hello` for the graph in slot `k` and the advertised command given as a fold
term over 8-digit tags (`M(ab12cd34,M(…,…))`).
-/
open AranyaV.Spec AranyaV.Gen

structure St where
  g : Graph := []
  slots : List (Nat × Graph) := []

/-- parse `tag` or `M(t,t)`; returns the term over tags and the rest of the input -/
inductive TTerm where
  | leaf (tag : String)
  | merge (l r : TTerm)
deriving Repr, Inhabited

def parseT : Nat → List Char → Option (TTerm × List Char)
  | 0, _ => none
  | fuel + 1, 'M' :: '(' :: rest =>
    match parseT fuel rest with
    | some (l, ',' :: rest') =>
      match parseT fuel rest' with
      | some (r, ')' :: rest'') => some (.merge l r, rest'')
      | _ => none
    | _ => none
  | _ + 1, cs =>
    let tag := cs.takeWhile (fun c => c != ',' && c != ')' && c != '(')
    if tag.isEmpty then none else some (.leaf (String.ofList tag), cs.drop tag.length)

/-- the command a term denotes in `g`, if it is there -/
def denote (g : Graph) : TTerm → Option Nat
  | .leaf t => (List.find? (fun (c : Cmd) => c.tag == t) g).map (·.id)
  | .merge l r =>
    match denote g l, denote g r with
    | some a, some b =>
      (List.find? (fun (c : Cmd) => isMerge c && (c.parents == [a, b] || c.parents == [b, a])) g).map (·.id)
    | _, _ => none

/-- perfect-hash view of an id: a merge command's id *is* the hash of its parents' ids, so it is
expanded into `merge` (fuel bounds the nesting depth by the graph size) -/
def expandId (g : Graph) : Nat → Nat → TTerm
  | 0, i => .leaf (Driver.Graph.showId g i)
  | fuel + 1, i =>
    match g.find? i with
    | some c =>
      match c.parents with
      | [a, b] => .merge (expandId g fuel a) (expandId g fuel b)
      | _ => .leaf c.tag
    | none => .leaf (Driver.Graph.showId g i)

def toTTerm (g : Graph) : HTerm → TTerm
  | .leaf i => expandId g g.length i
  | .merge l r => .merge (toTTerm g l) (toTTerm g r)

/-- the hash input is the id-ordered parent pair, so `merge` is compared commutatively -/
def TTerm.beq : TTerm → TTerm → Bool
  | .leaf a, .leaf b => a == b
  | .merge a b, .merge c d => (TTerm.beq a c && TTerm.beq b d) || (TTerm.beq a d && TTerm.beq b c)
  | _, _ => false

/-- `should_sync_on_hello` on the spec graph: no sync iff the advertised term is our own fold
or denotes a command we hold -/
def shouldSyncG (g : Graph) (adv : TTerm) : Bool :=
  if g.isEmpty then true else
  let own := (synth (frontier g)).map (toTTerm g)
  match own with
  | some o => if o.beq adv then false else (denote g adv).isNone
  | none => true

def step (s : St) (toks : List String) : St × String :=
  match toks with
  | ["save", k] => match k.toNat? with
    | some k => ({ s with slots := (k, s.g) :: s.slots.filter (·.1 != k) }, "ok")
    | none => (s, "bad-op")
  | ["hello", k, term] =>
    match k.toNat?, parseT (term.length + 1) term.toList with
    | some k, some (t, []) =>
      match s.slots.lookup k with
      | some g => (s, if shouldSyncG g t then "sync" else "no-sync")
      | none => (s, "bad-op")
    | _, _ => (s, "bad-op")
  | _ =>
    match Driver.Graph.step s.g toks with
    | some (g, out) => ({ s with g := g }, out)
    | none => (s, "bad-op")

def main : IO Unit := Driver.run step {}
