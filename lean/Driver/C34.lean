import Driver.Common
import AranyaV.Model.Framing
import AranyaV.Spec.Sym
/-!
Driver for C34.

  `case <seed> <big>`                 start of a harness case: reset the state           -> `ok`
Byte level (Model.Framing) — answers are the exact hash preimages, hex:
  `suite <dsize> <oid hex>...`        set the suite (OIDs in `CipherSuite::OIDS` order)   -> `ok`
  `tuple <hex>...`                    generic `hash::tuple_hash` preimage
  `digest <author> <name> <parent> <data>`   `Cmd::digest`
  `cmdid <digest> <sig>`  `mergeid <l> <r>`  `skid <pk>`
Symbolic level (Spec.Sym) — tokens: `b<hex>` literal bytes, `k<i>` public key of key i,
`s<j>` / `i<j>` signature / command id produced by signing event j:
  `sign <i> <name> <parent> <data>`                       -> `ok <j>` (new event index)
  `verify <pub> <name> <parent> <data> <sig>`             -> `ok <j>` (id = id of event j) | `fail`
  `ffiverify <pub> <name> <parent> <data> <claimed> <sig>` -> `ok` | `fail`
-/
open AranyaV AranyaV.Framing

structure St where
  oids : List Bytes := []
  dsize : Nat := 32
  events : List (Nat × Sym.Cmd) := []

def hexAll (ts : List String) : Option (List Bytes) := ts.mapM Driver.hex?

def symOids (s : St) : List Sym.Term := s.oids.map Sym.Term.lit

def evSig (s : St) (j : Nat) : Option Sym.Term :=
  (s.events[j]?).map fun (k, c) => (Sym.signCmd (symOids s) (.sk k) c).1

def evId (s : St) (j : Nat) : Option Sym.Term :=
  (s.events[j]?).map fun (k, c) => (Sym.signCmd (symOids s) (.sk k) c).2

/-- parse a term token -/
def tok (s : St) (t : String) : Option Sym.Term :=
  match t.toList with
  | 'b' :: rest => (Driver.hex? (String.ofList rest)).map Sym.Term.lit
  | 'k' :: rest => (String.ofList rest).toNat?.map fun i => Sym.Term.pk (.sk i)
  | 's' :: rest => (String.ofList rest).toNat?.bind (evSig s)
  | 'i' :: rest => (String.ofList rest).toNat?.bind (evId s)
  | _ => none

def findEvent (s : St) (id : Sym.Term) : Option Nat :=
  let rec go (j : Nat) (fuel : Nat) : Option Nat :=
    match fuel with
    | 0 => none
    | fuel + 1 => if evId s j == some id then some j else go (j + 1) fuel
  go 0 s.events.length

def step (s : St) (toks : List String) : St × String :=
  match toks with
  | ["case", _, _] => ({}, "ok")
  | "suite" :: d :: oids =>
    match d.toNat?, hexAll oids with
    | some d, some os => ({ s with oids := os, dsize := d }, "ok")
    | _, _ => (s, "bad-op")
  | "tuple" :: items =>
    match hexAll items with
    | some is => (s, Driver.toHex (tupleHashPreimage is s.dsize))
    | none => (s, "bad-op")
  | ["digest", a, n, p, d] =>
    match hexAll [a, n, p, d] with
    | some [a, n, p, d] => (s, Driver.toHex (digestPreimage s.oids ⟨a, n, p, d⟩ s.dsize))
    | _ => (s, "bad-op")
  | ["cmdid", d, sg] =>
    match hexAll [d, sg] with
    | some [d, sg] => (s, Driver.toHex (cmdIdPreimage s.oids d sg s.dsize))
    | _ => (s, "bad-op")
  | ["mergeid", l, r] =>
    match hexAll [l, r] with
    | some [l, r] => (s, Driver.toHex (mergeIdPreimage s.oids l r s.dsize))
    | _ => (s, "bad-op")
  | ["skid", pk] =>
    match Driver.hex? pk with
    | some pk => (s, Driver.toHex (signingKeyIdPreimage s.oids pk s.dsize))
    | none => (s, "bad-op")
  | ["sign", k, n, p, d] =>
    match k.toNat?, tok s n, tok s p, tok s d with
    | some k, some n, some p, some d =>
      ({ s with events := s.events ++ [(k, ⟨n, p, d⟩)] }, s!"ok {s.events.length}")
    | _, _, _, _ => (s, "bad-op")
  | ["verify", pub, n, p, d, sg] =>
    match tok s pub, tok s n, tok s p, tok s d, tok s sg with
    | some pub, some n, some p, some d, some sg =>
      match Sym.verifyCmd (symOids s) pub ⟨n, p, d⟩ sg with
      | some id => (s, match findEvent s id with | some j => s!"ok {j}" | none => "ok ?")
      | none => (s, "fail")
    | _, _, _, _, _ => (s, "bad-op")
  | ["ffiverify", pub, n, p, d, cl, sg] =>
    match tok s pub, tok s n, tok s p, tok s d, tok s cl, tok s sg with
    | some pub, some n, some p, some d, some cl, some sg =>
      (s, if Sym.ffiVerify (symOids s) pub ⟨n, p, d⟩ cl sg then "ok" else "fail")
    | _, _, _, _, _, _ => (s, "bad-op")
  | _ => (s, "bad-op")

def main : IO Unit := Driver.run step {}
