import Driver.FactsStep
/-! Driver for the fact-storage model (C12). -/
def main : IO Unit := Driver.run FactsStep.step ({} : FactsStep.St)
