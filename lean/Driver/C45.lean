import Driver.Common
import AranyaV.Model.KeyStore
/-! Driver for the key-store models (C45): `m <op>` drives `Mem`, `f <op>` drives `Fs` (with the
rewinding `OccupiedEntry::get`, i.e. the code as it is after the F4 fix). -/
open AranyaV.KeyStore

structure St where
  m : Mem := {}
  f : Fs := {}

def showResp : Resp → String
  | .occ => "occ" | .vac => "vac" | .key k => s!"key {k.toNat}" | .none => "none" | .ok => "ok"
  | .err => "err" | .exists => "exists" | .misuse => "misuse" | .panic => "panic"

def showListing (l : List (Nat × List UInt8)) : String :=
  if l.isEmpty then "[]"
  else "[" ++ ",".intercalate (l.map fun p => s!"{p.1}:{Driver.toHex p.2}") ++ "]"

def key? (s : String) : Option UInt64 :=
  match s.toNat? with
  | some n => if n < 18446744073709551616 then some (UInt64.ofNat n) else none
  | none => none

def parseOp : List String → Option Op
  | ["entry", i] => i.toNat?.map .entry
  | ["get"] => some .get
  | ["insert", k] => (key? k).map .insert
  | ["remove"] => some .remove
  | ["drop"] => some .drop
  | ["sget", i] => i.toNat?.map .sget
  | ["tryins", i, k] => match i.toNat?, key? k with
    | some i, some k => some (.tryInsert i k)
    | _, _ => none
  | ["sremove", i] => i.toNat?.map .sremove
  | ["reopen"] => some .reopen
  | ["insertfail", k] => (key? k).map .insertFail
  | ["tryinsfail", i, k] => match i.toNat?, key? k with
    | some i, some k => some (.tryInsertFail i k)
    | _, _ => none
  | _ => none

def step (s : St) (toks : List String) : St × String :=
  match toks with
  | ["new"] => ({}, "ok")
  | ["m", "dir"] => (s, if s.m.cur.isSome then "misuse" else showListing s.m.listing)
  | ["f", "dir"] => (s, if s.f.cur.isSome then "misuse" else showListing s.f.listing)
  | ["f", "plant", i, h] => match i.toNat?, Driver.hex? h with
    | some i, some bs =>
      if s.f.cur.isSome then (s, "misuse") else ({ s with f := s.f.plant i bs }, "ok")
    | _, _ => (s, "bad-op")
  | "m" :: rest => match parseOp rest with
    | some op => let (r, m') := s.m.step op; ({ s with m := m' }, showResp r)
    | none => (s, "bad-op")
  | "f" :: rest => match parseOp rest with
    | some op => let (r, f') := s.f.step true op; ({ s with f := f' }, showResp r)
    | none => (s, "bad-op")
  | _ => (s, "bad-op")

def main : IO Unit := Driver.run step {}
