import Driver.Common
import AranyaV.Model.VM
/-! Driver for the policy-VM model (C25).

Requests (whitespace-separated tokens; values/types/targets have a space-free syntax, see below):
* `new <ctx>`                          reset machine and run state          → `ok`
* `sdef <name> <field>:<ty> …`         struct definition                    → `ok`
* `fdef <name> <nkeys> <f>:<ty> …`     fact definition (keys first)         → `ok`
* `glob <name> <value>`                global                               → `ok`
* `cmap <hex text> <ip>:<start>:<end> …` code map (source text, sorted instruction → span table) → `ok`
* `loc`                                `RunState::source_location()` at the current pc → `loc=<line>:<col>` | `loc=-`
* `label <name> <LabelType> <addr>`    entry in the label table             → `ok`
* `adef <name> <param>:<ty> …`         action definition                    → `ok`
* `cdef <name> <field>:<ty> …`         command definition                   → `ok`
* `call action <name> <n> <v>×n | policy <this> <envelope> | seal <this> <bytes> | open <this> <bytes> <envelope>`
  followed by one `S <io answers…>` group per step of the following `run` (fuel = number of groups)
                                       → `exit …` | `err …` | `fuel` | `panic`
* `ins <Variant> <operands…>`          append an instruction                → `ok`
* `push <value>`                       initial stack value                  → `ok` | `err StackOverflow`
* `step <io answers…>`                 one `RunState::step`                 →
      `exec pc=<n> sp=<n> top=<t>` | `exit <Reason> pc=… sp=… top=…` | `err <Class> pc=… sp=…` | `panic`

ctx: `action` `policy` `recall` `seal:<n>` `open:<n>`.
value: `u` `i<int>` `t` `f` `s<n>` `y<n>` `d<n>` `n<n>` `e<n>:<int>` `N` `S(v)` `O(v)` `E(v)`
       `T<n>{k=v,…}` `F<n>[k=hv,…]{k=v,…}`.
type:  `u` `s` `y` `i` `b` `d` `T<n>` `e<n>` `o(ty)` `v` `r(ty,ty)`.
target: `r<n>` resolved, `u<n>` unresolved.
io answers: `U0|U1` (insert/delete result), `Qe` | `Q<n>` followed by n rows (`E` or a fact literal),
            `X<0|1>:<n>` followed by n stack ops (`P` | `V<value>`), `C-` | `C<value>` (codec result).
-/
open AranyaV.VM

abbrev P (α : Type) := List Char → Option (α × List Char)

def pNat : P Nat := fun cs =>
  let ds := cs.takeWhile Char.isDigit
  if ds.isEmpty then none else
    some (ds.foldl (fun acc c => acc * 10 + (c.toNat - '0'.toNat)) 0, cs.drop ds.length)

def pInt : P Int := fun cs =>
  match cs with
  | '-' :: r => (pNat r).map fun (n, r') => (-(n : Int), r')
  | _ => (pNat cs).map fun (n, r') => ((n : Int), r')

def expect (c : Char) : List Char → Option (List Char)
  | x :: r => if x == c then some r else none
  | [] => none

def pHV : P HV := fun cs =>
  match cs with
  | 'i' :: r => (pInt r).map fun (i, r') => (.int i, r')
  | 't' :: r => some (.bool true, r)
  | 'f' :: r => some (.bool false, r)
  | 's' :: r => (pNat r).map fun (n, r') => (.str n, r')
  | 'd' :: r => (pNat r).map fun (n, r') => (.id n, r')
  | 'e' :: r => do
    let (n, r1) ← pNat r
    let r2 ← expect ':' r1
    let (i, r3) ← pInt r2
    pure (.enum n i, r3)
  | _ => none

partial def pKeys (cs : List Char) (acc : List (Nat × HV)) : Option (List (Nat × HV) × List Char) :=
  match cs with
  | ']' :: r => some (acc.reverse, r)
  | ',' :: r => pKeys r acc
  | _ => do
    let (k, r1) ← pNat cs
    let r2 ← expect '=' r1
    let (h, r3) ← pHV r2
    pKeys r3 ((k, h) :: acc)

mutual
partial def pValue (cs : List Char) : Option (Value × List Char) :=
  match cs with
  | 'u' :: r => some (.unit, r)
  | 'i' :: r => (pInt r).map fun (i, r') => (.int i, r')
  | 't' :: r => some (.bool true, r)
  | 'f' :: r => some (.bool false, r)
  | 's' :: r => (pNat r).map fun (n, r') => (.str n, r')
  | 'y' :: r => (pNat r).map fun (n, r') => (.bytes n, r')
  | 'd' :: r => (pNat r).map fun (n, r') => (.id n, r')
  | 'n' :: r => (pNat r).map fun (n, r') => (.ident n, r')
  | 'e' :: r => do
    let (n, r1) ← pNat r
    let r2 ← expect ':' r1
    let (i, r3) ← pInt r2
    pure (.enum n i, r3)
  | 'N' :: r => some (.none, r)
  | 'S' :: '(' :: r => do
    let (v, r1) ← pValue r
    let r2 ← expect ')' r1
    pure (.some v, r2)
  | 'O' :: '(' :: r => do
    let (v, r1) ← pValue r
    let r2 ← expect ')' r1
    pure (.ok v, r2)
  | 'E' :: '(' :: r => do
    let (v, r1) ← pValue r
    let r2 ← expect ')' r1
    pure (.err v, r2)
  | 'T' :: r => do
    let (n, r1) ← pNat r
    let r2 ← expect '{' r1
    let (fs, r3) ← pFields r2 []
    pure (.struct n (fs.foldl (fun acc kv => acc.insertSorted kv.1 kv.2) Fields.nil), r3)
  | 'F' :: r => do
    let (n, r1) ← pNat r
    let r2 ← expect '[' r1
    let (ks, r3) ← pKeys r2 []
    let r4 ← expect '{' r3
    let (fs, r5) ← pFields r4 []
    pure (.fact n ks (Fields.ofList fs), r5)
  | _ => none
partial def pFields (cs : List Char) (acc : List (Nat × Value)) : Option (List (Nat × Value) × List Char) :=
  match cs with
  | '}' :: r => some (acc.reverse, r)
  | ',' :: r => pFields r acc
  | _ => do
    let (k, r1) ← pNat cs
    let r2 ← expect '=' r1
    let (v, r3) ← pValue r2
    pFields r3 ((k, v) :: acc)
end

partial def pTy (cs : List Char) : Option (Ty × List Char) :=
  match cs with
  | 'u' :: r => some (.unit, r)
  | 's' :: r => some (.string, r)
  | 'y' :: r => some (.bytes, r)
  | 'i' :: r => some (.int, r)
  | 'b' :: r => some (.bool, r)
  | 'd' :: r => some (.id, r)
  | 'v' :: r => some (.never, r)
  | 'T' :: r => (pNat r).map fun (n, r') => (.struct n, r')
  | 'e' :: r => (pNat r).map fun (n, r') => (.enum n, r')
  | 'o' :: '(' :: r => do
    let (t, r1) ← pTy r
    let r2 ← expect ')' r1
    pure (.optional t, r2)
  | 'r' :: '(' :: r => do
    let (a, r1) ← pTy r
    let r2 ← expect ',' r1
    let (b, r3) ← pTy r2
    let r4 ← expect ')' r3
    pure (.result a b, r4)
  | _ => none

def full {α} (p : P α) (s : String) : Option α :=
  match p s.toList with
  | some (a, []) => some a
  | _ => none

def value? (s : String) : Option Value := full pValue s
def nat? (s : String) : Option Nat := full pNat s
def int? (s : String) : Option Int := full pInt s

def field? (s : String) : Option (Nat × Ty) :=
  full (fun cs => do
    let (k, r1) ← pNat cs
    let r2 ← expect ':' r1
    let (t, r3) ← pTy r2
    pure ((k, t), r3)) s

def target? (s : String) : Option Target :=
  match s.toList with
  | 'r' :: r => (full pNat (String.ofList r)).map Target.Resolved
  | 'u' :: r => (full pNat (String.ofList r)).map Target.Unresolved
  | _ => none

def exitReason? : String → Option ExitReason
  | "Normal" => some .Normal | "Yield" => some .Yield | "Check" => some .Check | "Panic" => some .Panic
  | _ => none

def wrapType? : String → Option WrapType
  | "Ok" => some .Ok | "Err" => some .Err | "Some" => some .Some
  | _ => none

def ctx? (s : String) : Option Ctx :=
  match s.splitOn ":" with
  | ["action"] => some (.action 0)
  | ["policy"] => some (.policy 0)
  | ["recall"] => some (.recall 0)
  | ["action", n] => (nat? n).map Ctx.action
  | ["policy", n] => (nat? n).map Ctx.policy
  | ["recall", n] => (nat? n).map Ctx.recall
  | ["seal", n] => (nat? n).map Ctx.seal
  | ["open", n] => (nat? n).map Ctx.opn
  | _ => none

def instr? (name : String) (args : List String) : Option Instr :=
  match name, args with
  | "Const", [v] => (value? v).map Instr.Const
  | "Identifier", [n] => (nat? n).map Instr.Identifier
  | "Def", [n] => (nat? n).map Instr.Def
  | "Get", [n] => (nat? n).map Instr.Get
  | "Dup", [] => some .Dup
  | "Pop", [] => some .Pop
  | "Block", [] => some .Block
  | "End", [] => some .End
  | "Jump", [t] => (target? t).map Instr.Jump
  | "Branch", [t] => (target? t).map Instr.Branch
  | "Next", [] => some .Next
  | "Last", [] => some .Last
  | "Call", [t] => (target? t).map Instr.Call
  | "Recall", [t] => (target? t).map Instr.Recall
  | "ExtCall", [a, b] => do pure (.ExtCall (← nat? a) (← nat? b))
  | "Return", [] => some .Return
  | "Exit", [r] => (exitReason? r).map Instr.Exit
  | "Add", [] => some .Add
  | "Sub", [] => some .Sub
  | "SaturatingAdd", [] => some .SaturatingAdd
  | "SaturatingSub", [] => some .SaturatingSub
  | "Not", [] => some .Not
  | "Gt", [] => some .Gt
  | "Lt", [] => some .Lt
  | "Eq", [] => some .Eq
  | "FactNew", [n] => (nat? n).map Instr.FactNew
  | "FactKeySet", [n] => (nat? n).map Instr.FactKeySet
  | "FactValueSet", [n] => (nat? n).map Instr.FactValueSet
  | "StructNew", [n] => (nat? n).map Instr.StructNew
  | "StructSet", [n] => (nat? n).map Instr.StructSet
  | "StructGet", [n] => (nat? n).map Instr.StructGet
  | "MStructSet", [n] => (nat? n).map Instr.MStructSet
  | "MStructGet", [n] => (nat? n).map Instr.MStructGet
  | "Cast", [n] => (nat? n).map Instr.Cast
  | "Wrap", [w] => (wrapType? w).map Instr.Wrap
  | "Is", [w] => (wrapType? w).map Instr.Is
  | "Unwrap", [w] => (wrapType? w).map Instr.Unwrap
  | "Publish", [] => some .Publish
  | "Create", [] => some .Create
  | "Delete", [] => some .Delete
  | "Update", [] => some .Update
  | "Emit", [] => some .Emit
  | "Query", [] => some .Query
  | "FactCount", [i] => (int? i).map Instr.FactCount
  | "QueryStart", [] => some .QueryStart
  | "QueryNext", [n] => (nat? n).map Instr.QueryNext
  | "Serialize", [] => some .Serialize
  | "Deserialize", [] => some .Deserialize
  | "SaveSP", [] => some .SaveSP
  | "RestoreSP", [] => some .RestoreSP
  | "Meta", [] => some (.Meta ())
  | _, _ => none

def row? (s : String) : Option Row :=
  if s == "E" then some none else
  match value? s with
  | some (.fact _ ks vs) => some (some (ks, vs))
  | _ => none

def op? (s : String) : Option StackOp :=
  match s.toList with
  | ['P'] => some .pop
  | 'V' :: r => (value? (String.ofList r)).map StackOp.push
  | _ => none

def takeN {α} (f : String → Option α) : Nat → List String → List α → Option (List α × List String)
  | 0, rest, acc => some (acc.reverse, rest)
  | _ + 1, [], _ => none
  | n + 1, t :: rest, acc => do takeN f n rest ((← f t) :: acc)

partial def ioAnswers (toks : List String) (acc : List IoRes) : Option (List IoRes) :=
  match toks with
  | [] => some acc.reverse
  | t :: rest =>
    match t.toList with
    | ['U', '0'] => ioAnswers rest (.unit false :: acc)
    | ['U', '1'] => ioAnswers rest (.unit true :: acc)
    | ['Q', 'e'] => ioAnswers rest (.rows none :: acc)
    | 'Q' :: n => do
      let n ← nat? (String.ofList n)
      let (rows, rest') ← takeN row? n rest []
      ioAnswers rest' (.rows (some rows) :: acc)
    | 'X' :: okc :: ':' :: n => do
      let ok ← Driver.bool? (String.singleton okc)
      let n ← nat? (String.ofList n)
      let (ops, rest') ← takeN op? n rest []
      ioAnswers rest' (.ext ops ok :: acc)
    | ['C', '-'] => ioAnswers rest (.codec none :: acc)
    | 'C' :: v => do
      let v ← value? (String.ofList v)
      ioAnswers rest (.codec (some v) :: acc)
    | _ => none

def errName : Err → String
  | .stackUnderflow => "StackUnderflow" | .stackOverflow => "StackOverflow"
  | .alreadyDefined => "AlreadyDefined" | .notDefined => "NotDefined" | .invalidType => "InvalidType"
  | .invalidStructMember => "InvalidStructMember" | .invalidFact => "InvalidFact"
  | .invalidSchema => "InvalidSchema" | .unresolvedTarget => "UnresolvedTarget"
  | .invalidAddress => "InvalidAddress" | .badState => "BadState" | .integerOverflow => "IntegerOverflow"
  | .invalidInstruction => "InvalidInstruction" | .callStack => "CallStack" | .io => "IO"
  | .ffiModuleNotDefined => "FfiModuleNotDefined" | .ffiProcedureNotDefined => "FfiProcedureNotDefined"
  | .contextMismatch => "ContextMismatch" | .serialize => "Serialize" | .deserialize => "Deserialize"
  | .bug => "Bug" | .unknown => "Unknown"

def reasonName : ExitReason → String
  | .Normal => "Normal" | .Yield => "Yield" | .Check => "Check" | .Panic => "Panic"

def topOf (s : RunState) : String :=
  match s.stack with
  | [] => "-"
  | v :: _ => match v with
    | .unit => "u" | .int i => s!"i{i}" | .bool b => if b then "t" else "f"
    | .str _ => "s" | .bytes _ => "y" | .struct n _ => s!"T{n}" | .fact n _ _ => s!"F{n}"
    | .id _ => "d" | .enum n i => s!"e{n}:{i}" | .ident n => s!"n{n}"
    | .none => "N" | .some _ => "S" | .ok _ => "O" | .err _ => "E"

structure D where
  m : Machine
  s : RunState

def emptyMachine : Machine := { progmem := [], globals := [], structDefs := [], factDefs := [] }

def D.init : D := ⟨emptyMachine, RunState.init (.action 0)⟩

def fields? (toks : List String) : Option (List (Nat × Ty)) := toks.mapM field?

def labelType? : String → Option LabelType
  | "Action" => some .Action | "CommandPolicy" => some .CommandPolicy
  | "CommandRecall" => some .CommandRecall | "CommandSeal" => some .CommandSeal
  | "CommandOpen" => some .CommandOpen | "Temporary" => some .Temporary | "Function" => some .Function
  | _ => none

/-- split at the separator token `S` -/
def splitS (toks : List String) : List (List String) :=
  let (cur, acc) := toks.foldl (fun (st : List String × List (List String)) t =>
    if t == "S" then ([], st.1.reverse :: st.2) else (t :: st.1, st.2)) ([], [])
  (cur.reverse :: acc).reverse

def struct? (s : String) : Option (Nat × Fields) :=
  match value? s with
  | some (.struct n f) => some (n, f)
  | _ => none

def bytes? (s : String) : Option Nat :=
  match value? s with
  | some (.bytes n) => some n
  | _ => none

def entry? (toks : List String) : Option Entry :=
  match toks with
  | "action" :: name :: n :: args => do
    let name ← nat? name
    let n ← nat? n
    let vs ← args.mapM value?
    if vs.length = n then pure (.action name vs) else none
  | ["policy", t, e] => do
    let (tn, tf) ← struct? t
    let (en, ef) ← struct? e
    pure (.commandPolicy tn tf en ef)
  | ["seal", t, p] => do
    let (tn, tf) ← struct? t
    pure (.seal tn tf (← bytes? p))
  | ["open", t, p, e] => do
    let (tn, tf) ← struct? t
    let (en, ef) ← struct? e
    pure (.opn tn tf (← bytes? p) en ef)
  | _ => none

def showRun (d : D) : RunOutcome → D × String
  | .exit r s' => ({ d with s := s' }, s!"exit {reasonName r} pc={s'.pc} sp={s'.stack.length} top={topOf s'}")
  | .machineError e s' => ({ d with s := s' }, s!"err {errName e} pc={s'.pc} sp={s'.stack.length}")
  | .outOfFuel s' => ({ d with s := s' }, "fuel")
  | .hostPanic => (d, "panic")

def step (d : D) (toks : List String) : D × String :=
  match toks with
  | ["new", c] => match ctx? c with
    | some c => (⟨emptyMachine, RunState.init c⟩, "ok")
    | none => (d, "bad-op")
  | "sdef" :: name :: fs => match nat? name, fields? fs with
    | some n, some fs => ({ d with m := { d.m with structDefs := d.m.structDefs ++ [(n, fs)] } }, "ok")
    | _, _ => (d, "bad-op")
  | "fdef" :: name :: nk :: fs => match nat? name, nat? nk, fields? fs with
    | some n, some nk, some fs =>
      if nk ≤ fs.length then
        ({ d with m := { d.m with factDefs := d.m.factDefs ++ [(n, ⟨fs.take nk, fs.drop nk⟩)] } }, "ok")
      else (d, "bad-op")
    | _, _, _ => (d, "bad-op")
  | ["label", name, lt, addr] => match nat? name, labelType? lt, nat? addr with
    | some n, some lt, some a =>
      -- `BTreeMap::insert`: a later entry for the same label replaces the earlier one
      let rest := d.m.labels.filter (fun l => !(l.1.1 == n && decide (l.1.2 = lt)))
      ({ d with m := { d.m with labels := rest ++ [((n, lt), a)] } }, "ok")
    | _, _, _ => (d, "bad-op")
  | "adef" :: name :: fs => match nat? name, fields? fs with
    | some n, some fs => ({ d with m := { d.m with actionDefs := d.m.actionDefs ++ [(n, fs)] } }, "ok")
    | _, _ => (d, "bad-op")
  | "cdef" :: name :: fs => match nat? name, fields? fs with
    | some n, some fs => ({ d with m := { d.m with commandDefs := d.m.commandDefs ++ [(n, fs)] } }, "ok")
    | _, _ => (d, "bad-op")
  | "call" :: rest =>
    match splitS rest with
    | [] => (d, "bad-op")
    | e :: groups =>
      match entry? e, groups.mapM (fun g => ioAnswers g []) with
      | some e, some ios =>
        showRun d (call d.m (fun k => ios.getD k []) ios.length e d.s)
      | _, _ => (d, "bad-op")
  | "cmap" :: text :: entries =>
    let entry? (e : String) : Option (Nat × Nat × Nat) :=
      match e.splitOn ":" with
      | [i, a, b] => do pure (← nat? i, ← nat? a, ← nat? b)
      | _ => none
    match Driver.hex? text, entries.mapM entry? with
    | some bytes, some es =>
      ({ d with m := { d.m with codemap := some ⟨bytes.map (·.toNat), es⟩ } }, "ok")
    | _, _ => (d, "bad-op")
  | ["loc"] =>
    (d, match locate d.m d.s.pc with
      | none => "panic"
      | some none => "loc=-"
      | some (some (l, c)) => s!"loc={l}:{c}")
  | ["glob", name, v] => match nat? name, value? v with
    | some n, some v => ({ d with m := { d.m with globals := d.m.globals ++ [(n, v)] } }, "ok")
    | _, _ => (d, "bad-op")
  | "ins" :: name :: args => match instr? name args with
    | some i => ({ d with m := { d.m with progmem := d.m.progmem ++ [i] } }, "ok")
    | none => (d, "bad-op")
  | ["push", v] => match value? v with
    | some v => match push v d.s with
      | .ok _ s' => ({ d with s := s' }, "ok")
      | .err e _ => (d, s!"err {errName e}")
      | .panic => (d, "panic")
    | none => (d, "bad-op")
  | "step" :: io => match ioAnswers io [] with
    | none => (d, "bad-op")
    | some io => match AranyaV.VM.step d.m d.s io with
      | .executing s' => ({ d with s := s' }, s!"exec pc={s'.pc} sp={s'.stack.length} top={topOf s'}")
      | .exited r s' => ({ d with s := s' }, s!"exit {reasonName r} pc={s'.pc} sp={s'.stack.length} top={topOf s'}")
      | .error e s' => ({ d with s := s' }, s!"err {errName e} pc={s'.pc} sp={s'.stack.length}")
      | .hostPanic => (d, "panic")
  | _ => (d, "bad-op")

def main : IO Unit := Driver.run step D.init
