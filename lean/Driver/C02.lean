import Driver.Graph
/-! Driver for C02 (every command applied once, after its ancestors; merges never evaluated):
spec-level requests only (`braidorder` = the reference evaluation order). -/
def step (g : AranyaV.Spec.Graph) (toks : List String) : AranyaV.Spec.Graph × String :=
  match toks with
  | ["braidorder-anc", _] =>
    -- flagged by the harness: the graph holds a merge whose parents are comparable (known finding
    -- `anc-merge`); `refBraid` is a linearisation only for an antichain of heads, its order is not compared
    (g, "anc-merge: graph holds a merge with comparable parents, braid order not compared")
  | _ =>
    match Driver.Graph.step g toks with
    | some r => r
    | none => (g, "bad-op")

def main : IO Unit := Driver.run step []
