import Driver.Graph
/-! Driver for C02 (every command applied once, after its ancestors; merges never evaluated):
spec-level requests only (`braidorder` = the reference evaluation order). -/
def step (g : AranyaV.Spec.Graph) (toks : List String) : AranyaV.Spec.Graph × String :=
  match Driver.Graph.step g toks with
  | some r => r
  | none => (g, "bad-op")

def main : IO Unit := Driver.run step []
