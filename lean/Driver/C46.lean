import Driver.Common
import AranyaV.Model.Base58
/-!
Driver for the id text/serde model (C46).  Stateless; byte strings are hex (`-` = empty).

* `enc <id32>`      → base-58 text (the mechanism model `encodeM`), or `panic`
* `dec <bytes>`     → `ok <id32>` | `bad` | `bug`           (`Id::decode`, mechanism model)
* `serjson <id32>`  → hex of the JSON document
* `dejson <bytes>`  → `ok <id32>` | `err`
* `serbin <id32>`   → hex of the postcard bytes
* `debin <bytes>`   → `ok <id32> <bytes left>` | `err`
* `deseq <bytes>`   → `ok <id32>` | `err`
-/
open AranyaV.Base58

def id32? (s : String) : Option (List UInt8) :=
  match Driver.hex? s with
  | some b => if b.length = 32 then some b else none
  | none => none

def text (bs : List UInt8) : String := String.ofList (bs.map fun b => Char.ofNat b.toNat)

def step (_ : Unit) (toks : List String) : Unit × String :=
  match toks with
  | ["enc", h] => match id32? h with
    | some b => ((), match encodeM b with | some t => text t | none => "panic")
    | none => ((), "bad-op")
  | ["dec", h] => match Driver.hex? h with
    | some s => ((), match decodeM s with
        | .ok b => s!"ok {Driver.toHex b}" | .error .badInput => "bad" | .error .bug => "bug")
    | none => ((), "bad-op")
  | ["serjson", h] => match id32? h with
    | some b => ((), Driver.toHex (serJson b))
    | none => ((), "bad-op")
  | ["dejson", h] => match Driver.hex? h with
    | some t => ((), match deJson t with | some b => s!"ok {Driver.toHex b}" | none => "err")
    | none => ((), "bad-op")
  | ["serbin", h] => match id32? h with
    | some b => ((), Driver.toHex (serBin b))
    | none => ((), "bad-op")
  | ["debin", h] => match Driver.hex? h with
    | some w => ((), match deBin w with
        | some (b, rest) => s!"ok {Driver.toHex b} {rest.length}" | none => "err")
    | none => ((), "bad-op")
  | ["deseq", h] => match Driver.hex? h with
    | some w => ((), match deSeq w with | some b => s!"ok {Driver.toHex b}" | none => "err")
    | none => ((), "bad-op")
  | _ => ((), "bad-op")

def main : IO Unit := Driver.run step ()
