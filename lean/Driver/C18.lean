import Driver.Common
import AranyaV.Model.SyncMsg
/-!
Driver for the sync-message model (C18).

```
decode <hex>              SyncIncoming::decode
rq new <graph> <session>  SyncRequester::new (rng yields <session>)      -> ok
rq newsid <graph> <sess>  SyncRequester::new_session_id                  -> ok
rq recv <hex>             SyncRequester::receive
rq push <hex>             SyncIncoming::decode, then receive_push if it is a push
rq poll                   SyncRequester::poll (provider without the graph)
rq ready
rs new | rs recv <hex> | rs ready | rs poll [more]      SyncResponder
rs push <nonempty>        SyncResponder::push
world <seed> <nodes> <prefix> <graph> | world none   both replicas get storage holding <graph>
rq gpoll | rq gadd | rq gcommit    poll with real storage (sample not modelled); add_commands/commit
gheads <hex>              decode, then PeerCache::add_command for every advertised head
```
`more` / `nonempty` are the one bit storage contributes to the responder's message-level
behaviour; the harness reports what the real storage did.
-/
open AranyaV.SyncMsg AranyaV.Postcard AranyaV.Wire AranyaV.Gen.SyncWire

structure St where
  rq : Requester := Requester.newSessionId [] 0
  rs : Responder := Responder.new
  /-- the graph both replicas' storage providers have (`world` line), if any -/
  world : Option Bytes := none

def hx (b : Bytes) : String := Driver.toHex b

def showPErr : PErr → String
  | .eof => "DeserializeUnexpectedEnd"
  | .badVarint => "DeserializeBadVarint"
  | .badBool => "DeserializeBadBool"
  | .custom => "SerdeDeCustom"

def showErr : SyncErr → String
  | .sessionMismatch => "err SessionMismatch"
  | .missingSyncResponse => "err MissingSyncResponse"
  | .sessionState => "err SessionState"
  | .notReady => "err NotReady"
  | .malformedResponse => "err MalformedResponse"
  | .unsupportedRequest => "err UnsupportedRequest"
  | .noSuchStorage => "err Storage"
  | .serialize e => s!"err Serialize {showPErr e}"
  | .bug => "err Bug"
  | .shape => "err model-shape"

def showAddr : WVal → String
  | .tuple fs =>
    match asBytes (fld fs Address_id), asNat (fld fs Address_max_cut) with
    | some i, some m => s!"{hx i}:{m}"
    | _, _ => "?"
  | _ => "?"

def showPriority : WVal → String
  | .variant i p =>
    if i = Priority_Merge then "merge"
    else if i = Priority_Basic then (match p with | .nat n => s!"basic:{n}" | _ => "?")
    else if i = Priority_Finalize then "finalize"
    else if i = Priority_Init then "init"
    else "?"
  | _ => "?"

def showPrior : WVal → String
  | .variant i p =>
    if i = Prior_None then "none"
    else if i = Prior_Single then s!"single:{showAddr p}"
    else if i = Prior_Merge then
      (match p with | .tuple [a, b] => s!"merge:{showAddr a}:{showAddr b}" | _ => "?")
    else "?"
  | _ => "?"

def slice (b : Bytes) (r : Nat × Nat) : Bytes := (b.drop r.1).take (r.2 - r.1)

def showCmd (remaining : Bytes) (c : CmdOut) : String :=
  let pol := match c.policy with | none => "none" | some r => hx (slice remaining r)
  s!"{hx c.id} {showPriority c.priority} {showPrior c.parent} {pol} {hx (slice remaining c.data)}"

def showRecv (remaining : Bytes) : RecvRes → String
  | .error e => showErr e
  | .ok none => "ok none"
  | .ok (some cs) => s!"ok cmds {cs.length}" ++ String.join (cs.map fun c => " " ++ showCmd remaining c)

def showDur : Option WVal → String
  | some (.tuple [.nat s, .nat n]) => s!"{s}.{n}"
  | _ => "?"

def showHello : WVal → String
  | .variant i (.tuple fs) =>
    if i = SyncHelloType_Subscribe then
      match asBytes (fld fs SyncHelloType_Subscribe_graph_id) with
      | some g => s!"sub {hx g} {showDur (fld fs SyncHelloType_Subscribe_graph_change_delay)} {showDur (fld fs SyncHelloType_Subscribe_duration)} {showDur (fld fs SyncHelloType_Subscribe_schedule_delay)}"
      | none => "?"
    else if i = SyncHelloType_Unsubscribe then
      match asBytes (fld fs SyncHelloType_Unsubscribe_graph_id) with
      | some g => s!"unsub {hx g}"
      | none => "?"
    else if i = SyncHelloType_Hello then
      match asBytes (fld fs SyncHelloType_Hello_graph_id), fld fs SyncHelloType_Hello_head with
      | some g, some a => s!"hello {hx g} {showAddr a}"
      | _, _ => "?"
    else "?"
  | _ => "?"

def showIncoming : Incoming → String
  | .poll s _ => s!"ok poll {s}"
  | .subscribe g ro mb hs =>
    s!"ok subscribe {hx g} {ro} {mb} {hs.length}" ++ String.join (hs.map fun a => " " ++ showAddr a)
  | .unsubscribe g => s!"ok unsubscribe {hx g}"
  | .push g s _ _ => s!"ok push {hx g} {s}"
  | .hello h => s!"ok hello {showHello h}"

def showPollOut : Except SyncErr PollOut → String
  | .error e => showErr e
  | .ok (.bytes b) => s!"ok {hx b}"
  | .ok (.response s i) => s!"ok resp {s} {i}"
  | .ok (.push s i) => s!"ok push {s} {i}"
  | .ok .empty => "ok empty"

def step (st : St) (toks : List String) : St × String :=
  match toks with
  | ["world", "none"] => ({ st with world := none }, "ok")
  | ["world", _seed, _nodes, _prefix, g] =>
    match Driver.hex? g with
    | some g => ({ st with world := some g }, "ok")
    | none => (st, "bad-op")
  | ["gheads", h] =>
    match Driver.hex? h with
    | some bs => (st, match decodeIncoming bs with | .ok _ => "ok" | .error e => showErr e)
    | none => (st, "bad-op")
  | ["rq", "gpoll"] =>
    let (r', res) := st.rq.poll
    ({ st with rq := r' },
      if st.rq.state = .new then "ok request"
      else match res with | .ok b => s!"ok {hx b}" | .error e => showErr e)
  | ["rq", "gsub"] => (st, "ok")
  | ["rq", "gadd"] => (st, "done")
  | ["rq", "gcommit"] => (st, "done")
  | ["rs", "poll", m] =>
    match Driver.bool? m with
    | some m =>
      let (p', res) := st.rs.poll st.world m
      ({ st with rs := p' }, showPollOut res)
    | none => (st, "bad-op")
  | ["rs", "push", m] =>
    match Driver.bool? m with
    | some m =>
      let (p', res) := st.rs.push st.world m
      ({ st with rs := p' }, showPollOut res)
    | none => (st, "bad-op")
  | ["decode", h] =>
    match Driver.hex? h with
    | some bs => (st, match decodeIncoming bs with | .ok i => showIncoming i | .error e => showErr e)
    | none => (st, "bad-op")
  | ["rq", "new", g, s] =>
    match Driver.hex? g, s.toNat? with
    | some g, some s => ({ st with rq := Requester.new g s }, "ok")
    | _, _ => (st, "bad-op")
  | ["rq", "newsid", g, s] =>
    match Driver.hex? g, s.toNat? with
    | some g, some s => ({ st with rq := Requester.newSessionId g s }, "ok")
    | _, _ => (st, "bad-op")
  | ["rq", "recv", h] =>
    match Driver.hex? h with
    | some bs =>
      let (r', res, remaining) := st.rq.receive bs
      ({ st with rq := r' }, showRecv remaining res)
    | none => (st, "bad-op")
  | ["rq", "push", h] =>
    match Driver.hex? h with
    | some bs =>
      match decodeIncoming bs with
      | .error e => (st, showErr e)
      | .ok (.push _ _ msg data) =>
        let (r', res) := st.rq.receivePush msg data
        ({ st with rq := r' }, showRecv data res)
      | .ok _ => (st, "notpush")
    | none => (st, "bad-op")
  | ["rq", "poll"] =>
    let (r', res) := st.rq.poll
    ({ st with rq := r' }, match res with | .ok b => s!"ok {hx b}" | .error e => showErr e)
  | ["rq", "ready"] => (st, if st.rq.ready then "1" else "0")
  | ["rs", "new"] => ({ st with rs := Responder.new }, "ok")
  | ["rs", "recv", h] =>
    match Driver.hex? h with
    | some bs =>
      match decodeIncoming bs with
      | .error e => (st, showErr e)
      | .ok (.poll _ msg) =>
        let (p', res) := st.rs.dispatch msg
        ({ st with rs := p' }, match res with | .ok _ => "ok" | .error e => showErr e)
      | .ok _ => (st, "notpoll")
    | none => (st, "bad-op")
  | ["rs", "ready"] => (st, if st.rs.ready then "1" else "0")
  | ["rs", "poll"] =>
    let (p', res) := st.rs.poll st.world false
    ({ st with rs := p' }, showPollOut res)
  | _ => (st, "bad-op")

def main : IO Unit := Driver.run step {}
