import Driver.Common
import AranyaV.Model.Module
import AranyaV.Model.ModuleWire
import AranyaV.Gen.ModuleSchema
/-! Driver for the `Module` → `Machine` table model (C28).

    collect <namehex>*        -> the names of the loaded table, in `AutoMap` iteration order,
                                 each with the index of the module entry it holds: `<hex>:<i> ...`
    get <namehex> / <namehex>*  -> `some <i>` (index of the module entry found under that name) | `none`
    pcenc <val tokens>        -> `ok <fnv64 of the hex of encode v> <byte length>` | `not-wf`
                                 (the value must be a well-formed `ModuleV0` at depth 64)
    pcdec <hex>               -> `ok <fnv64 of the value's token string> <number of tokens>` | `err`

value tokens (prefix form): `u<n>` `i<n>` `b0|b1` `s<hex>` `N` `S v` `q<n> v..` `t<n> v..` `v<idx> v`
-/
open AranyaV.Module

def indexed (names : List (List UInt8)) : Table Nat :=
  let rec go : List (List UInt8) → Nat → Table Nat
    | [], _ => []
    | n :: r, i => (n, i) :: go r (i + 1)
  go names 0

open AranyaV.ModuleWire in
/-- parse one value from the token list (fuel = number of tokens) -/
def pVal : Nat → List String → Option (Val × List String)
  | 0, _ => none
  | fuel + 1, toks =>
    let rec many (fuel : Nat) : Nat → List String → Option (List Val × List String)
      | 0, ts => some ([], ts)
      | n + 1, ts =>
        match fuel with
        | 0 => none
        | fuel' + 1 => do
          let (v, r) ← pVal fuel' ts
          let (vs, r') ← many fuel' n r
          pure (v :: vs, r')
    match toks with
    | [] => none
    | t :: rest =>
      match t.toList with
      | 'u' :: r => (String.ofList r).toNat?.map fun n => (.u n, rest)
      | 'i' :: r => (String.ofList r).toInt?.map fun n => (.i n, rest)
      | ['b', '0'] => some (.b false, rest)
      | ['b', '1'] => some (.b true, rest)
      | 's' :: r => (Driver.hex? (String.ofList r)).map fun b => (.str b, rest)
      | ['N'] => some (.none, rest)
      | ['S'] => (pVal fuel rest).map fun (v, r) => (.some v, r)
      | 'q' :: r => do
        let n ← (String.ofList r).toNat?
        let (vs, r') ← many fuel n rest
        pure (.seq vs, r')
      | 't' :: r => do
        let n ← (String.ofList r).toNat?
        let (vs, r') ← many fuel n rest
        pure (.tup vs, r')
      | 'v' :: r => do
        let n ← (String.ofList r).toNat?
        let (v, r') ← pVal fuel rest
        pure (.var n v, r')
      | _ => none

open AranyaV.ModuleWire in
mutual
def showV : Val → List String
  | .u n => [s!"u{n}"]
  | .i x => [s!"i{x}"]
  | .b b => [if b then "b1" else "b0"]
  | .str s => ["s" ++ Driver.toHex s]
  | .none => ["N"]
  | .some v => "S" :: showV v
  | .seq vs => s!"q{vs.length}" :: showVs vs
  | .tup vs => s!"t{vs.length}" :: showVs vs
  | .var i v => s!"v{i}" :: showV v
def showVs : List Val → List String
  | [] => []
  | v :: vs => showV v ++ showVs vs
end

/-- FNV-1a, 64 bit, over the bytes of an ASCII string (same as `vh::fnv`) -/
def fnv64 (s : String) : UInt64 :=
  s.foldl (fun h c => (h ^^^ c.toNat.toUInt64) * 0x100000001b3) 0xcbf29ce484222325

/-- nesting depth the driver decodes with (the theorems hold for every depth) -/
def wireDepth : Nat := 64

def step (s : Unit) (toks : List String) : Unit × String :=
  match toks with
  | "collect" :: names =>
    match names.mapM Driver.hex? with
    | some ns =>
      let t := collect (indexed ns)
      (s, if t.isEmpty then "empty" else " ".intercalate (t.map fun (k, i) => s!"{Driver.toHex k}:{i}"))
    | none => (s, "bad-op")
  | "get" :: k :: "/" :: names =>
    match Driver.hex? k, names.mapM Driver.hex? with
    | some k, some ns =>
      (s, match get k (collect (indexed ns)) with
        | some i => s!"some {i}"
        | none => "none")
    | _, _ => (s, "bad-op")
  | "pcenc" :: toks =>
    match pVal (toks.length + 1) toks with
    | some (v, []) =>
      if AranyaV.ModuleWire.wf (AranyaV.Gen.ModuleSchema.sModuleV0 wireDepth) v then
        let bytes := AranyaV.ModuleWire.enc v
        (s, s!"ok {fnv64 (Driver.toHex bytes)} {bytes.length}")
      else (s, "not-wf")
    | _ => (s, "bad-op")
  | ["pcdec", h] =>
    match Driver.hex? h with
    | none => (s, "bad-op")
    | some bs =>
      match AranyaV.ModuleWire.fromBytes (AranyaV.Gen.ModuleSchema.sModuleV0 wireDepth) bs with
      | .ok v =>
        let toks := showV v
        (s, s!"ok {fnv64 (" ".intercalate toks)} {toks.length}")
      | .error _ => (s, "err")
  | _ => (s, "bad-op")

def main : IO Unit := Driver.run step ()
