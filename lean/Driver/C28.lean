import Driver.Common
import AranyaV.Model.Module
/-! Driver for the `Module` → `Machine` table model (C28).

    collect <namehex>*        -> the names of the loaded table, in `AutoMap` iteration order,
                                 each with the index of the module entry it holds: `<hex>:<i> ...`
    get <namehex> / <namehex>*  -> `some <i>` (index of the module entry found under that name) | `none`
-/
open AranyaV.Module

def indexed (names : List (List UInt8)) : Table Nat :=
  let rec go : List (List UInt8) → Nat → Table Nat
    | [], _ => []
    | n :: r, i => (n, i) :: go r (i + 1)
  go names 0

def step (s : Unit) (toks : List String) : Unit × String :=
  match toks with
  | "collect" :: names =>
    match names.mapM Driver.hex? with
    | some ns =>
      let t := collect (indexed ns)
      (s, if t.isEmpty then "empty" else " ".intercalate (t.map fun (k, i) => s!"{Driver.toHex k}:{i}"))
    | none => (s, "bad-op")
  | "get" :: k :: "/" :: names =>
    match Driver.hex? k, names.mapM Driver.hex? with
    | some k, some ns =>
      (s, match get k (collect (indexed ns)) with
        | some i => s!"some {i}"
        | none => "none")
    | _, _ => (s, "bad-op")
  | _ => (s, "bad-op")

def main : IO Unit := Driver.run step ()
