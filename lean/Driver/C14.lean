import Driver.SessStep
/-! Driver for the session model (C14). -/
def main : IO Unit := Driver.run SessStep.step ({} : SessStep.St)
