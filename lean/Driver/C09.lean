import Driver.Trx
/-! Driver for C09 (the head set is exactly the frontier): the shared transaction driver (`Driver/Trx.lean`). -/
def main : IO Unit := Driver.run Driver.Trx.step Driver.Trx.init
