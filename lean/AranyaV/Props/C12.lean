import AranyaV.Proofs.FactsPersp
/-!
# C12 — Fact storage behaves as a key-value map

Model: `AranyaV.Facts` (`Model/Facts.lean`), a transliteration of the fact-index chains,
fact perspectives, `write_facts_with_prior`, `compact` and the queries of
`crates/aranya-runtime/src/storage/linear/mod.rs`.

`Chain.abs` / `FP.abs : … → Key → Option Val` read a fact index / an in-flight perspective as a
flat map.  The theorems say that every operation of the mechanism (tombstones, newest-first
chains, depth-limited compaction, prior reuse) is the corresponding operation of the flat map,
for all keys, maps, chains and op sequences; none has a size bound.
-/
namespace AranyaV.Facts

/-! ## queries read the flat map -/

/-- `LinearFactIndex::query` and `LinearFactPerspective::query` return the flat map's binding. -/
theorem query_eq (f : FP) (c : Chain) (k : Key) :
    f.query k = f.abs k ∧ c.query k = c.abs k :=
  ⟨FP.query_eq_abs f k, Chain.query_eq_abs c k⟩

/-- What a prefix query has to return on a flat map `S`: exactly the bound keys that start with
the prefix, each with its value, in strictly ascending key order (so no key twice, no deleted
fact).  `p` is `name :: prefix components`. -/
structure IsPrefixAnswer (S : Flat) (p : Key) (out : List (Key × Val)) : Prop where
  ascending : out.Pairwise (fun a b => a.1 < b.1)
  exact : ∀ k v, (k, v) ∈ out ↔ (p <+: k ∧ S k = some v)

/-- strictly ascending lists with the same members are equal -/
theorem ascending_ext : ∀ (a b : List (Key × Val)), a.Pairwise (fun a b => a.1 < b.1) →
    b.Pairwise (fun a b => a.1 < b.1) → (∀ x, x ∈ a ↔ x ∈ b) → a = b := by
  intro a
  induction a with
  | nil =>
    intro b _ _ h
    cases b with
    | nil => rfl
    | cons y _ => exact absurd ((h y).mpr List.mem_cons_self) (List.not_mem_nil)
  | cons x xs ih =>
    intro b pa pb h
    cases b with
    | nil => exact absurd ((h x).mp List.mem_cons_self) (List.not_mem_nil)
    | cons y ys =>
      obtain ⟨a1, a2⟩ := List.pairwise_cons.mp pa
      obtain ⟨b1, b2⟩ := List.pairwise_cons.mp pb
      have hxy : x = y := by
        rcases List.mem_cons.mp ((h x).mp List.mem_cons_self) with e | hx
        · exact e
        · rcases List.mem_cons.mp ((h y).mpr List.mem_cons_self) with e | hy
          · exact e.symm
          · exact absurd (Key.lt_trans (b1 x hx) (a1 y hy)) (Key.lt_irrefl _)
      subst hxy
      congr 1
      apply ih ys a2 b2
      intro z
      constructor
      · intro hz
        rcases List.mem_cons.mp ((h z).mp (List.mem_cons_of_mem _ hz)) with e | hz'
        · exact absurd (e ▸ a1 z hz) (Key.lt_irrefl _)
        · exact hz'
      · intro hz
        rcases List.mem_cons.mp ((h z).mpr (List.mem_cons_of_mem _ hz)) with e | hz'
        · exact absurd (e ▸ b1 z hz) (Key.lt_irrefl _)
        · exact hz'

/-- the specification determines the answer -/
theorem IsPrefixAnswer.unique {S : Flat} {p : Key} {a b : List (Key × Val)}
    (ha : IsPrefixAnswer S p a) (hb : IsPrefixAnswer S p b) : a = b :=
  ascending_ext a b ha.ascending hb.ascending (fun x => by
    rw [show x = (x.1, x.2) from rfl, ha.exact, hb.exact])

private theorem prefix_answer_of_slot {p : Key} {m : FMap} (hs : Sorted m) (slot : Key → Option Slot)
    (hg : ∀ k, m.get k = if p.isPrefixOf k then slot k else none) :
    IsPrefixAnswer (fun k => flat (slot k)) p (live m) := by
  refine ⟨live_ascending hs, fun k v => ?_⟩
  rw [mem_live hs, hg k]
  constructor
  · intro h
    by_cases hp : p.isPrefixOf k = true
    · rw [if_pos hp] at h
      exact ⟨List.isPrefixOf_iff_prefix.mp hp, by simp [flat, h]⟩
    · rw [if_neg hp] at h; cases h
  · rintro ⟨hp, hv⟩
    rw [if_pos (List.isPrefixOf_iff_prefix.mpr hp)]
    simp only [flat] at hv
    cases hs' : slot k with
    | none => rw [hs'] at hv; cases hv
    | some s => rw [hs'] at hv; simp only at hv; rw [hv]

/-- `query_prefix` on a fact index and on a perspective returns exactly the flat map's facts
under the prefix, ascending, without deleted facts. -/
theorem queryPrefix_eq (f : FP) (hf : f.WF) (c : Chain) (hc : c.WF) (p : Key) :
    IsPrefixAnswer f.abs p (f.queryPrefix p) ∧ IsPrefixAnswer c.abs p (c.queryPrefix p) := by
  constructor
  · exact prefix_answer_of_slot (FP.sorted_prefixInner p) f.slot (FP.get_prefixInner hf p)
  · refine prefix_answer_of_slot (Chain.sorted_prefixInner c p Sorted.nil) c.slot (fun k => ?_)
    rw [Chain.get_prefixInner hc]
    rfl

/-- Keys with a given component-prefix are contiguous in the key order (the fact
`find_prefixes` relies on), and therefore the range scan equals the filter. -/
theorem prefix_contiguous {p a b : Key} (hpa : p ≤ a) (hab : a ≤ b) (hb : p <+: b) : p <+: a :=
  prefix_between hpa hab hb

theorem findPrefixes_spec {m : FMap} (hs : Sorted m) (p : Key) :
    findPrefixes m p = m.filter (fun e => p.isPrefixOf e.1) := findPrefixes_eq_filter hs p

/-! ## every mutation is the flat map's mutation -/

/-- `insert` on a perspective (with or without prior) -/
theorem insert_refines (f : FP) (hf : f.WF) (k : Key) (v : Val) :
    (f.insert k v).abs = update f.abs k (some v) ∧ (f.insert k v).WF :=
  ⟨FP.abs_insert f k v, FP.WF_insert hf k v⟩

/-- `delete` on a perspective: a tombstone over a prior, a plain removal without one -/
theorem delete_refines (f : FP) (hf : f.WF) (k : Key) :
    (f.delete k).abs = update f.abs k none ∧ (f.delete k).WF :=
  ⟨FP.abs_delete f k, FP.WF_delete hf k⟩

/-- `apply_updates` replays the log -/
theorem applyUpdates_refines (f : FP) (hf : f.WF) (us : List Update) :
    (f.applyUpdates us).abs = replay f.abs us ∧ (f.applyUpdates us).WF :=
  ⟨FP.abs_applyUpdates f us, FP.WF_applyUpdates hf us⟩

/-- `compact`: same flat map, one layer, no tombstones left -/
theorem compact_refines {D : Nat} {c c' : Chain} (hc : c.WF) (h : compact D c = .ok c') :
    c'.abs = c.abs ∧ c'.WF ∧ c'.length = 1 ∧ (∀ k, c'.slot k ≠ some none) := by
  obtain ⟨h1, h2, h3, _⟩ := compact_abs hc h
  exact ⟨h1, h2, by rw [compact_ok h]; rfl, h3⟩

/-- `write_facts` / `write_facts_with_prior`: the written index means what the perspective
meant (empty-map reuse of the prior, compaction of a full chain and nested perspectives
included); the `prior_facts` recorded for the segment means what the perspective's prior meant. -/
theorem writeFacts_refines {D : Nat} {f : FP} (hf : f.WF) {c : Chain} {pf : Option Chain}
    (h : writeFP D f = .ok (c, pf)) :
    c.abs = f.abs ∧ c.WF ∧ pfAbs pf = f.priorAbs :=
  let r := writeFP_ok hf h
  ⟨r.2.1, r.1, r.2.2.1⟩

/-- Depth bookkeeping: with `2 ≤ MAX_FACT_INDEX_DEPTH`, writing a perspective whose prior chain
has consistent depths never hits `bug!("fact index too deep")`, and the written chain again
records `depth = prior.depth + 1 ≤ MAX_FACT_INDEX_DEPTH` in every layer. -/
theorem depth_bound {D : Nat} (hD : 2 ≤ D) {f : FP} (hf : f.WF) (hd : f.DepthOK D) :
    ∃ c pf, writeFP D f = .ok (c, pf) ∧ DepthOK D c ∧ pfDepthOK D pf ∧ headDepth c ≤ D := by
  obtain ⟨⟨c, pf⟩, h⟩ := writeFP_total hD hf hd
  obtain ⟨h1, h2⟩ := (writeFP_ok hf h).2.2.2.2 hd
  exact ⟨c, pf, h, h1, h2, headDepth_le_of_DepthOK h1⟩

/-- the side condition holds for the constant in the source -/
theorem depth_side : 2 ≤ AranyaV.Gen.maxFactIndexDepth := by decide

/-! ## mid-segment reconstruction -/

theorem cmdUpdates_nil_of_all_empty {cs : List Cmd} (h : cs.all (fun c => c.updates.isEmpty) = true) :
    cmdUpdates cs = [] := by
  unfold cmdUpdates
  rw [List.flatMap_eq_nil_iff]
  intro c hc
  exact List.isEmpty_iff.mp (List.all_eq_true.mp h c hc)

theorem Seg.basePrior_facts (s : Seg) :
    s.basePrior.map = [] ∧ s.basePrior.abs = pfAbs s.priorFacts ∧ (pfWF s.priorFacts → s.basePrior.WF) := by
  unfold Seg.basePrior
  cases s.priorFacts with
  | none => exact ⟨rfl, rfl, fun _ => Sorted.nil⟩
  | some q => exact ⟨rfl, rfl, fun h => ⟨Sorted.nil, h⟩⟩

/-- `get_fact_perspective` / `get_linear_perspective` at command `i` of a written segment
(head shortcut, "no updates in this segment" shortcut, replay of the per-command updates over
the recorded `prior_facts`, reuse of the prior when the replay leaves nothing) mean the flat map
after command `i`: the updates of commands `0..=i` replayed over what the perspective's prior
meant.  The segment must have been written at a command boundary (`current = []`). -/
theorem segment_reconstruct {D : Nat} {p : Persp} (hinv : p.Inv) (hcur : p.current = [])
    {seg : Seg} (hw : p.write D = .ok seg) (i : Nat) (hi : i < seg.commands.length) :
    seg.commands = p.commands ∧
    (∃ f, seg.factPerspective i = .ok f ∧ f.WF ∧
      f.abs = replay p.facts.priorAbs (cmdUpdates (p.commands.take (i + 1)))) ∧
    (∃ q, seg.linearPerspective i = .ok q ∧ q.Inv ∧ q.commands = [] ∧ q.current = [] ∧
      q.facts.abs = replay p.facts.priorAbs (cmdUpdates (p.commands.take (i + 1)))) := by
  unfold Persp.write at hw
  cases hwf : writeFP D p.facts with
  | error e => rw [hwf] at hw; cases hw
  | ok r =>
    obtain ⟨c, pf⟩ := r
    rw [hwf] at hw
    simp only at hw
    split at hw
    · cases hw
    · cases hw
      obtain ⟨hcwf, hcabs, hpf, hpfwf, _⟩ := writeFP_ok hinv.1 hwf
      simp only at hi
      -- the head index means the full replay
      have hhead : c.abs = replay p.facts.priorAbs (cmdUpdates p.commands) := by
        rw [hcabs, Persp.abs_eq_replay hinv]
        unfold Persp.allUpdates
        rw [hcur, List.append_nil]
      obtain ⟨bm, babs, bwf⟩ := Seg.basePrior_facts ⟨c, pf, p.commands⟩
      simp only at babs bwf
      have bwf' := bwf hpfwf
      -- the replayed perspective
      have hrep : ∀ n, ((p.commands.take n).foldl (fun f c => f.applyUpdates c.updates)
            (Seg.basePrior ⟨c, pf, p.commands⟩)).abs =
          replay p.facts.priorAbs (cmdUpdates (p.commands.take n)) := by
        intro n
        rw [foldl_applyUpdates, FP.abs_applyUpdates, babs, hpf]
      have hrepwf : ∀ n, ((p.commands.take n).foldl (fun f c => f.applyUpdates c.updates)
            (Seg.basePrior ⟨c, pf, p.commands⟩)).WF := by
        intro n
        rw [foldl_applyUpdates]
        exact FP.WF_applyUpdates bwf' _
      have hidx : (FP.overIndex [] c).abs = c.abs := by funext k; rfl
      refine ⟨rfl, ?_, ?_⟩
      · unfold Seg.factPerspective
        simp only
        rw [if_neg (by omega)]
        split
        · rename_i hsc
          refine ⟨_, rfl, ⟨Sorted.nil, hcwf⟩, ?_⟩
          rw [hidx, hhead]
          rcases hsc with hlast | hall
          · rw [hlast, List.take_length]
          · have h1 := cmdUpdates_nil_of_all_empty hall
            have h2 : cmdUpdates (p.commands.take (i + 1)) = [] := by
              apply cmdUpdates_nil_of_all_empty
              rw [List.all_eq_true] at hall ⊢
              exact fun x hx => hall x (List.mem_of_mem_take hx)
            rw [h1, h2]
        · exact ⟨_, rfl, hrepwf _, hrep _⟩
      · unfold Seg.linearPerspective
        simp only
        rw [if_neg (by omega)]
        split
        · rename_i hlast
          refine ⟨_, rfl, Persp.Inv_fresh ⟨Sorted.nil, hcwf⟩ rfl, rfl, rfl, ?_⟩
          show (FP.overIndex [] c).abs = _
          rw [hidx, hhead, hlast, List.take_length]
        · split
          · rename_i hem
            have hem' := isEmpty_eq_nil hem
            -- nothing left in the replayed overlay: the prior is used directly
            have key : ∀ f : FP, f = Seg.basePrior ⟨c, pf, p.commands⟩ →
                Persp.Inv { facts := f } ∧ ([] : List Cmd) = [] ∧ ([] : List Update) = [] ∧
                f.abs = replay p.facts.priorAbs (cmdUpdates (p.commands.take (i + 1))) := by
              intro f hf
              subst hf
              refine ⟨Persp.Inv_fresh bwf' bm, rfl, rfl, ?_⟩
              rw [← hrep (i + 1), FP.priorAbs_eq_abs_of_map_nil hem', FP.priorAbs_eq_abs_of_map_nil bm]
              unfold FP.priorAbs
              rw [foldl_applyUpdates, FP.priorSlot_applyUpdates]
            cases pf with
            | none => exact ⟨_, rfl, key _ rfl⟩
            | some c' => exact ⟨_, rfl, key _ rfl⟩
          · refine ⟨_, rfl, Persp.Inv_fresh ⟨Sorted.nil, hrepwf _⟩ rfl, rfl, rfl, ?_⟩
            rw [← hrep (i + 1)]
            funext k
            rfl

/-! ## whole histories: commit / continue cycles of any length -/

/-- a history on one line of development: mutate the in-flight perspective, or write it out as
a fact index and continue with a fresh perspective on top of that index -/
inductive HOp where
  | ins (k : Key) (v : Val)
  | del (k : Key)
  | commit
deriving Repr

def hstep (D : Nat) (f : FP) : HOp → Except Err FP
  | .ins k v => .ok (f.insert k v)
  | .del k => .ok (f.delete k)
  | .commit =>
    match writeFacts D f with
    | .error e => .error e
    | .ok c => .ok (.overIndex [] c)

def hrun (D : Nat) : FP → List HOp → Except Err FP
  | f, [] => .ok f
  | f, op :: r =>
    match hstep D f op with
    | .error e => .error e
    | .ok f' => hrun D f' r

def hspec (S : Flat) : List HOp → Flat
  | [] => S
  | .ins k v :: r => hspec (update S k (some v)) r
  | .del k :: r => hspec (update S k none) r
  | .commit :: r => hspec S r

/-- For every history (any number of writes, so chains of any length and any number of
compactions), starting from the empty store: no step fails, and the final perspective is the
flat map obtained by replaying the same inserts and deletes. -/
theorem history_refines {D : Nat} (hD : 2 ≤ D) (ops : List HOp) (f : FP) (hf : f.WF)
    (hd : f.DepthOK D) :
    ∃ f', hrun D f ops = .ok f' ∧ f'.abs = hspec f.abs ops ∧ f'.WF ∧ f'.DepthOK D := by
  induction ops generalizing f with
  | nil => exact ⟨f, rfl, rfl, hf, hd⟩
  | cons op r ih =>
    cases op with
    | ins k v =>
      have hd' : (f.insert k v).DepthOK D := by cases f <;> exact hd
      obtain ⟨f', h1, h2, h3⟩ := ih (f.insert k v) (FP.WF_insert hf k v) hd'
      exact ⟨f', h1, by rw [h2, FP.abs_insert]; rfl, h3⟩
    | del k =>
      have hd' : (f.delete k).DepthOK D := by
        unfold FP.delete; split <;> (cases f <;> exact hd)
      obtain ⟨f', h1, h2, h3⟩ := ih (f.delete k) (FP.WF_delete hf k) hd'
      exact ⟨f', h1, by rw [h2, FP.abs_delete]; rfl, h3⟩
    | commit =>
      obtain ⟨c, pf, hw, hdc, _, _⟩ := depth_bound hD hf hd
      obtain ⟨hwf, habs, _⟩ := writeFP_ok hf hw
      have hf2 : (FP.overIndex [] c).WF := ⟨Sorted.nil, hwf⟩
      obtain ⟨f', h1, h2, h3⟩ := ih (.overIndex [] c) hf2 hdc
      refine ⟨f', ?_, ?_, h3⟩
      · show (match hstep D f .commit with
          | .error e => Except.error e | .ok f' => hrun D f' r) = _
        unfold hstep writeFacts
        rw [hw]
        exact h1
      · rw [h2]
        show hspec (FP.overIndex [] c).abs r = hspec f.abs r
        have : (FP.overIndex [] c).abs = f.abs := by
          rw [← habs]; funext k; rfl
        rw [this]

/-! ## non-vacuity: concrete states that satisfy the hypotheses and exercise the mechanism -/

section Examples

private def kA : Key := [[97], [1], []]        -- ("a", [01, ""])
private def kAp : Key := [[97], [1]]           -- ("a", [01])  — a prefix of kA
private def kB : Key := [[97], [1, 0]]         -- ("a", [0100])
private def kC : Key := [[97, 98], []]         -- ("ab", [""])

private def exF : FP :=
  ((((FP.overIndex [] [⟨[(kAp, some [7]), (kB, some [8])], 1⟩]).insert kA [1]).delete kB).insert kC [])

example : exF.WF ∧ exF.DepthOK 16 := by decide
/-- a tombstone hides the older layer; an empty value is not a tombstone -/
example : exF.query kB = none ∧ exF.query kC = some [] ∧ exF.query kAp = some [7] := by decide
/-- prefix `("a",[01])`: `kAp` itself and `kA`, ascending; `kB = [0100]` is not under it -/
example : exF.queryPrefix kAp = [(kAp, [7]), (kA, [1])] := by decide

/-- a chain at the limit is compacted by the next write: 17 commits, depth stays ≤ 16 -/
private def ops17 : List HOp :=
  (List.range 17).flatMap (fun i => [HOp.ins [[97], [i]] [i], HOp.del [[97], [i - 1]], HOp.commit])

private def check17 : Bool :=
  match hrun 16 (.overNone []) ops17 with
  | .ok (.overIndex [] c) => headDepth c == 2 && c.query [[97], [16]] == some [16] &&
      c.query [[97], [15]] == none && c.query [[97], [3]] == none
  | _ => false

example : check17 = true := by decide +kernel

example : (FP.overNone []).WF ∧ (FP.overNone []).DepthOK 16 := by decide

/-- a perspective over an index with three commands (the middle one deletes what the first
inserted), written at a command boundary: hypotheses of `segment_reconstruct` -/
private def exP : Persp :=
  let p0 : Persp := { facts := .overIndex [] [⟨[(kAp, some [7])], 1⟩] }
  let p1 := ((p0.insert kA [1]).addCommand 1).1
  let p2 := ((p1.delete kA).delete kAp |>.addCommand 2).1
  ((p2.insert kB [9]).addCommand 3).1

example : exP.Inv ∧ exP.current = [] ∧ exP.commands.length = 3 := by decide
example : (match exP.write 16 with
    | .ok seg => (match seg.factPerspective 0, seg.factPerspective 1 with
      | .ok f0, .ok f1 => f0.query kA == some [1] && f0.query kAp == some [7] &&
          f1.query kA == none && f1.query kAp == none
      | _, _ => false)
    | .error _ => false) = true := by decide

end Examples

end AranyaV.Facts
