import AranyaV.Proofs.Collapse
import AranyaV.Props.C04
/-!
# C04 (second part) — the collapse of N heads stores the fact cache: `collapse_facts`

`collapse_heads` folds the id-sorted head set pairwise (`foldPairs` discipline: pop two entries
`l, r`, write a merge command with parents `[l, r]`, push it on the back) until one head remains;
the next action is evaluated on the state stored at that head.  Queries and sessions read the fact
cache `factsOf g H` (the N-way braid of the heads).  **`collapse_facts`: both are the same state**,
for every committed graph, every legal head set and every choice of (fresh, pairwise distinct) ids
for the merges written — `parallelFinalize` outcomes included.

Hypotheses (`Committed g`): `WF g` (parents-first listing, distinct ids, ≤ 2 distinct parents),
`Rooted g` (one init command), `MergesOk g` (each stored merge was accepted by its own braid and
joins two incomparable commands: what `add_merge`/`commit` enforce), `MergePrio g` (merges, and
only merges, carry `Priority::Merge`).  `Heads g H`: non-empty, duplicate-free, known, pairwise
incomparable (neither "ids ascending" nor "no child in `g`" is needed).  Nothing is assumed about
the order of the new ids relative to the ids of `g` or to each other.

Why it is not a statement about runs.  `refBraid g' [l, r] = refBraid g H` is *false* in general:
merges are popped in id order, so a stored merge of `g` with a small id is popped before a fold
merge, and the folded run may stop early on a lone fold merge (example `exWarn` below: the folded
run returns `(100, [])`, the 3-way run `(5, [3, 6])`).  The proof goes through a declarative
characterisation instead (`Proofs.Collapse`): the stored state of *any* command `x`, and the fact
state of any head set, is the evaluation from the empty state of the unique *greedy linearisation*
of the non-merge commands among its ancestors (`states_sem`, `factsOf_cases`, `Full.unique`);
stopping at a lone strand is memoisation only.  The fold merges add no non-merge command and no
ancestry between old commands, so `anc*(last merge)` and `anc*(H)` have the same greedy
linearisation.  Errors: a successful N-way braid has causally ordered finalizes (C05 `pf_iff`), so
every fold merge's braid succeeds; a failing one has two incomparable finalizes, and any command
above two incomparable finalizes stores `parallelFinalize` (`state_unclean`).

Theorems:
* `collapse_facts`        — the statement above, for the merge list `foldCmds H is` and its last
                            element;
* `collapse_facts_top`    — the same with the remaining head computed by `foldTop` (also covers a
                            single head, where nothing is written);
* `collapse_facts_terms`  — the same for the term-level model `collapse` of `Props.C04` under an
                            arbitrary injective-on-the-written-merges id assignment: the state stored
                            at the advertised hello head `synth H` after the collapse is the fact cache;
* `collapse_facts_two`    — N = 2 from `merge_state_eq_factsOf` + `factsOf_ext` alone (needs only
                            `WF` and incomparable merge parents; the merge may be any command with
                            parents `[l, r]`);
* `collapse_facts_three`  — N = 3 spelled out;
* `stateAt_ext'`, `factsOf_ext'` — appended commands change neither stored states nor the fact state
                            of old heads.
-/
namespace AranyaV.Spec
open AranyaV.Gen

/-- a graph a replica can hold -/
structure Committed (g : Graph) : Prop where
  wf : WF g
  rooted : Rooted g
  mergesOk : MergesOk g
  mergePrio : MergePrio g

theorem Committed.mergeAnti {g : Graph} (h : Committed g) : MergeAnti g := (mergesOk_props h.mergesOk h.wf).1

/-- appended commands do not change stored states -/
theorem stateAt_ext' {g ext : Graph} (hc : Committed g) (hw' : WF (g ++ ext)) {i : Nat} (hi : i ∈ ids g) :
    stateAt (g ++ ext) i = stateAt g i :=
  stateAt_ext hc.wf hw' hc.mergeAnti hi

/-- appended commands do not change the fact state of old heads -/
theorem factsOf_ext' {g ext : Graph} (hc : Committed g) (hw' : WF (g ++ ext)) {hs : List Nat} (hh : Heads g hs) :
    factsOf (g ++ ext) hs = factsOf g hs :=
  factsOf_ext hc.wf hw' hc.mergeAnti hh

/-- **N = 2.**  The merge written for two heads stores their fact state (any command `m` with
parents `[l, r]` and a fresh id). -/
theorem collapse_facts_two {g : Graph} (hw : WF g) (ha : MergeAnti g) {m : Cmd} {l r : Nat}
    (hm : m.parents = [l, r]) (hfresh : m.id ∉ ids g) (hh : Heads g [l, r]) :
    stateAt (g ++ [m]) m.id = factsOf g [l, r] := by
  have hw' : WF (g ++ [m]) :=
    WF.snoc hw hfresh (by rw [hm]; exact hh.sub) (by rw [hm]; simp) (by rw [hm]; exact hh.nodup)
  rw [merge_state_eq_factsOf g m l r hm (fun c hc e => hfresh (mem_ids.mpr ⟨c, hc, e⟩)),
    factsOf_ext hw hw' ha hh]

/-- **`collapse_facts`, head computed by `foldTop`** (also covers `H = [h]`). -/
theorem collapse_facts_top {g : Graph} {H is : List Nat} (hc : Committed g) (hh : Heads g H)
    (hnd : is.Nodup) (hfresh : ∀ i ∈ is, i ∉ ids g) (hlen : is.length + 1 = H.length) {t : Nat}
    (ht : foldTop H is = some t) :
    stateAt (g ++ foldCmds H is) t = factsOf g H :=
  collapse_state_eq_factsOf hc.wf hc.rooted hc.mergesOk hc.mergePrio hh hnd hfresh hlen ht

/-- **`collapse_facts`.**  `g` committed, `H` a legal head set with at least two heads, `is` the
(fresh, pairwise distinct, otherwise arbitrary) ids of the merge commands the collapse writes,
`g' = g ++ foldCmds H is` the graph with those merges appended in fold order, `last` the final
merge: the state an action observes after the collapse equals the fact cache the queries saw
before it. -/
theorem collapse_facts {g : Graph} {H is : List Nat} (hc : Committed g) (hh : Heads g H)
    (h2 : 2 ≤ H.length) (hnd : is.Nodup) (hfresh : ∀ i ∈ is, i ∉ ids g)
    (hlen : is.length + 1 = H.length) {last : Cmd} (hlast : (foldCmds H is).getLast? = some last) :
    stateAt (g ++ foldCmds H is) last.id = factsOf g H := by
  have hne : is ≠ [] := by intro e; subst e; simp at hlen; omega
  apply collapse_facts_top hc hh hnd hfresh hlen
  rw [foldTop_eq_last is H hne hlen, hlast]; rfl

/-- **N = 3**: heads `a, b, c`; the collapse writes `i = merge(a, b)` then `j = merge(c, i)`. -/
theorem collapse_facts_three {g : Graph} (hc : Committed g) {a b c i j : Nat} (hh : Heads g [a, b, c])
    (hij : i ≠ j) (hi : i ∉ ids g) (hj : j ∉ ids g) :
    stateAt (g ++ [mkMerge i a b, mkMerge j c i]) j = factsOf g [a, b, c] := by
  have := collapse_facts_top (is := [i, j]) (t := j) hc hh (by simpa using hij)
    (by intro k hk; simp at hk; rcases hk with rfl | rfl <;> assumption) (by simp) (by simp [foldTop])
  simpa [foldCmds] using this

/-! ## the term-level model of `Props.C04` -/

/-- the merge commands for the written fold terms under an id assignment -/
def writtenCmds (idOf : HTerm → Nat) : List HTerm → List Cmd
  | [] => []
  | .merge l r :: t => mkMerge (idOf (.merge l r)) (idOf l) (idOf r) :: writtenCmds idOf t
  | .leaf _ :: t => writtenCmds idOf t

/-- `collapse` (terms) and `foldCmds` (commands) run the same fold -/
theorem collapse_fold (idOf : HTerm → Nat) : ∀ (fuel : Nat) (q w : List HTerm) (h : HTerm) (w' : List HTerm),
    collapse fuel q w = some (h, w') →
    ∃ ms, w' = w ++ ms ∧ writtenCmds idOf ms = foldCmds (q.map idOf) (ms.map idOf) ∧
      foldTop (q.map idOf) (ms.map idOf) = some (idOf h) ∧ ms.length + 1 = q.length := by
  intro fuel
  induction fuel with
  | zero =>
    intro q w h w' e
    match q, e with
    | [x], e =>
      simp [collapse] at e
      exact ⟨[], by simp [e.2], by simp [writtenCmds, foldCmds], by simp [foldTop, e.1], by simp⟩
  | succ n ih =>
    intro q w h w' e
    match q, e with
    | [x], e =>
      simp [collapse] at e
      exact ⟨[], by simp [e.2], by simp [writtenCmds, foldCmds], by simp [foldTop, e.1], by simp⟩
    | l :: r :: rest, e =>
      simp only [collapse] at e
      obtain ⟨ms, h1, h2, h3, h4⟩ := ih _ _ _ _ e
      refine ⟨.merge l r :: ms, by simp [h1], ?_, ?_, by simp at h4 ⊢; omega⟩
      · simp only [writtenCmds, List.map_cons, foldCmds, h2, List.map_append, List.map_nil]
      · simp only [List.map_cons, foldTop]
        simpa using h3

/-- **`collapse_facts` for the term model.**  Ids of leaves are the head ids; the ids given to the
written merges are pairwise distinct and fresh.  After `collapse_heads` the state stored at the
resulting head — which is the advertised hello head `synth H` — is the fact cache. -/
theorem collapse_facts_terms {g : Graph} {H : List Nat} (hc : Committed g) (hh : Heads g H)
    (idOf : HTerm → Nat) (hid : ∀ i, idOf (.leaf i) = i) {h : HTerm} {w : List HTerm}
    (hcol : collapse H.length (H.map .leaf) [] = some (h, w))
    (hnd : (w.map idOf).Nodup) (hfresh : ∀ m ∈ w, idOf m ∉ ids g) :
    stateAt (g ++ writtenCmds idOf w) (idOf h) = factsOf g H ∧ (2 ≤ H.length → synth H = some h) := by
  obtain ⟨ms, h1, h2, h3, h4⟩ := collapse_fold idOf _ _ _ _ _ hcol
  simp only [List.nil_append] at h1
  subst h1
  have hmap : (H.map HTerm.leaf).map idOf = H := by
    rw [List.map_map]
    conv => rhs; rw [← List.map_id H]
    apply List.map_congr_left
    intro a _; simp [hid]
  rw [hmap] at h2 h3
  constructor
  · rw [h2]
    apply collapse_facts_top hc hh hnd
    · intro i hi
      obtain ⟨m, hm, rfl⟩ := List.mem_map.mp hi
      exact hfresh m hm
    · simpa using h4
    · exact h3
  · intro hn
    exact (hello_is_last_written H h w hcol hn).1

/-! ## non-vacuity and the warning example

```
          1 init  (log += "1")
         /      \
   2 basic 0     3 basic 0
    |    \      /   |
    |     10 = merge(2,3)   (a stored merge with a SMALL id)
    5 basic 3       6 basic 1
   heads {5, 6, 10}: shared ancestry, every command appends its tag to the order-sensitive log
```
The collapse writes `100 = merge(5, 6)` and `101 = merge(10, 100)`.
-/

instance exceptDecEq : DecidableEq (Except BraidErr Facts) := fun a b =>
  match a, b with
  | .ok x, .ok y => if h : x = y then isTrue (by rw [h]) else isFalse (by intro e; cases e; exact h rfl)
  | .error x, .error y => if h : x = y then isTrue (by rw [h]) else isFalse (by intro e; cases e; exact h rfl)
  | .ok _, .error _ => isFalse (by intro e; cases e)
  | .error _, .ok _ => isFalse (by intro e; cases e)

def exL (i : Nat) (ps : List Nat) (p : Priority) (t : String) : Cmd :=
  { id := i, parents := ps, prio := p, body := [.append, .set 7 i], tag := t }

def exPre : Graph :=
  [exL 1 [] .init "1", exL 2 [1] (.basic 0) "2", exL 3 [1] (.basic 0) "3", exL 5 [2] (.basic 3) "5",
   exL 6 [3] (.basic 1) "6"]

def exCol : Graph := exPre ++ [mkMerge 10 2 3]

theorem MergesOk.snoc_single {g : Graph} {c : Cmd} (h : MergesOk g) (hc : c.parents.length ≠ 2) :
    MergesOk (g ++ [c]) :=
  MergesOk.snoc h (fun l r e => by rw [e] at hc; simp at hc)

theorem exPre_mergesOk : MergesOk exPre :=
  (((((MergesOk.nil.snoc_single (c := exL 1 [] .init "1") (by decide)).snoc_single
    (c := exL 2 [1] (.basic 0) "2") (by decide)).snoc_single
    (c := exL 3 [1] (.basic 0) "3") (by decide)).snoc_single
    (c := exL 5 [2] (.basic 3) "5") (by decide)).snoc_single
    (c := exL 6 [3] (.basic 1) "6") (by decide))

theorem exCol_committed : Committed exCol where
  wf := wfB_sound (by decide)
  rooted := ⟨by decide, by decide⟩
  mergesOk := by
    refine MergesOk.snoc exPre_mergesOk ?_
    intro l r e
    simp [mkMerge] at e
    obtain ⟨rfl, rfl⟩ := e
    exact ⟨by unfold Antichain; decide, 3, [2], by rfl⟩
  mergePrio := by unfold MergePrio; decide

theorem exCol_heads : Heads exCol [5, 6, 10] := ⟨by decide, by decide, by decide, by unfold Antichain; decide⟩

/-- the theorem applies to the example (all hypotheses satisfiable, three heads, shared ancestry) -/
example : stateAt (exCol ++ foldCmds [5, 6, 10] [100, 101]) 101 = factsOf exCol [5, 6, 10] :=
  collapse_facts exCol_committed exCol_heads (by decide) (by decide) (by decide) (by decide)
    (last := mkMerge 101 10 100) (by rfl)

/-- and, independently of the proof, by evaluation: the value, with the order-sensitive log -/
example : stateAt (exCol ++ [mkMerge 100 5 6, mkMerge 101 10 100]) 101 =
    .ok { f := [(7, 6)], log := some ["1", "2", "5", "3", "6"] } ∧
    factsOf exCol [5, 6, 10] = .ok { f := [(7, 6)], log := some ["1", "2", "5", "3", "6"] } := by decide

/-- `exWarn`: the *runs* differ (the stored merge 10 is popped before the fold merge 100, whose
parents never become ready, so the folded run stops on the lone strand 100), the facts agree -/
example : refBraid (exCol ++ [mkMerge 100 5 6, mkMerge 101 10 100]) [10, 100] = .ok (100, []) ∧
    refBraid exCol [5, 6, 10] = .ok (5, [3, 6]) := ⟨by rfl, by rfl⟩

/-- other ids for the written merges (smaller than the stored merge's id): same facts -/
example : stateAt (exCol ++ foldCmds [5, 6, 10] [7, 8]) 8 = factsOf exCol [5, 6, 10] := by decide

/-- the order matters for this rule: evaluating 5 after 6 would give another log -/
example : applyOrder exCol [3, 6] (match stateAt exCol 5 with | .ok s => s | .error _ => {}) ≠
    applyOrder exCol [6, 3] (match stateAt exCol 5 with | .ok s => s | .error _ => {}) := by decide

/-- the term-level model on the same heads: the hello head's state is the fact cache -/
example : ∃ h w, collapse 3 ([5, 6, 10].map HTerm.leaf) [] = some (h, w) ∧ synth [5, 6, 10] = some h ∧
    w.length = 2 :=
  ⟨.merge (.leaf 10) (.merge (.leaf 5) (.leaf 6)),
   [.merge (.leaf 5) (.leaf 6), .merge (.leaf 10) (.merge (.leaf 5) (.leaf 6))], by decide, by decide, by decide⟩

/-- error side: two concurrent finalizes under three heads — the fact cache and the collapsed
state are both `parallelFinalize` -/
def exFin : Graph :=
  [exL 1 [] .init "1", exL 2 [1] .finalize "2", exL 3 [1] .finalize "3", exL 4 [1] (.basic 0) "4"]

example : factsOf exFin [2, 3, 4] = .error .parallelFinalize ∧
    stateAt (exFin ++ foldCmds [2, 3, 4] [20, 21]) 21 = .error .parallelFinalize := by decide

/-- `MergePrio` cannot be dropped: if ordinary (single-parent) commands could carry the `Merge`
priority, a fold merge with a larger id would hide the head `10` behind it while `20` is popped,
and the collapsed state would differ from the fact cache (logs `…, c, a` vs `…, a, c`).  The real
policy never assigns `Priority::Merge` to a policy command (`vm_policy.rs::get_command_priority`
yields `Init | Basic n | Finalize` only; `Priority::Merge` is set in `merge()` alone). -/
def exBad : Graph :=
  [exL 1 [] .init "1", exL 10 [1] .merge "a", exL 11 [1] (.basic 0) "b", exL 20 [1] .merge "c"]

example : ¬ MergePrio exBad ∧
    factsOf exBad [10, 11, 20] ≠ stateAt (exBad ++ foldCmds [10, 11, 20] [100, 101]) 101 :=
  ⟨by unfold MergePrio; decide, by decide⟩

end AranyaV.Spec
